#!/bin/sh
# confirm a seeded change in a scratch worktree: clean tree: demo passes; mutated tree: suite passes, demo fails
# usage: confirm_mutant.sh <worktree> <dir with patch.diff, demo.rs>
wt=$1; d=$2
cd "$wt" || exit 2
git checkout -q -- . ; rm -f tests/demo.rs
cp "$d/demo.rs" tests/demo.rs
clean=$(cargo test --offline $FEATURES --test demo 2>&1 | grep -E "^test result" | head -1)
git apply "$d/patch.diff" || { echo "patch does not apply"; exit 2; }
rm -f tests/demo.rs
suite=$(cargo test --workspace --offline $SUITEFLAGS 2>&1 | grep -E "^test result" | awk '{p+=$4; f+=$6} END {print p" passed, "f" failed"}')
cp "$d/demo.rs" tests/demo.rs
mut=$(cargo test --offline $FEATURES --test demo 2>&1 | grep -E "^test result" | head -1)
git checkout -q -- . ; rm -f tests/demo.rs
echo "clean demo: $clean"; echo "mutant suite: $suite"; echo "mutant demo: $mut"
