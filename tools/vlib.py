"""Shared machinery of ./check: builds (tables, Coq, OCaml driver, Rust harness), sharded case
execution on both sides, correspondence diff, verdict, evidence, known findings."""
import os, sys, re, json, time, glob, hashlib, shutil, subprocess, random
from concurrent.futures import ThreadPoolExecutor

ROOT = os.path.dirname(os.path.dirname(os.path.abspath(__file__)))
REPO = os.environ.get("VERIF_REPO", "/repo")
CACHE = os.path.join(ROOT, ".cache")
COQ = os.path.join(ROOT, "coq")
NCPU = min(16, os.cpu_count() or 4)
ENV = dict(os.environ, CARGO_NET_OFFLINE="true")

ALLOWED_AXIOMS = {
    # standard-library axioms (real numbers / classical logic), reached only through Flocq (C11)
    "ClassicalDedekindReals.sig_forall_dec",
    "ClassicalDedekindReals.sig_not_dec",
    "FunctionalExtensionality.functional_extensionality_dep",
    "Classical_Prop.classic",
}
FORBIDDEN_RE = re.compile(r"\b(Admitted|admit|Axiom|Parameter|Conjecture|Admit Obligations)\b|Unset Guard|bypass_check|type-in-type|impredicative-set|Unset Universe Checking|Unset Positivity")


def sh(cmd, timeout=600, cwd=None, env=None, inp=None):
    t0 = time.time()
    try:
        p = subprocess.run(cmd, shell=isinstance(cmd, str), cwd=cwd, env=env or ENV, input=inp,
                           stdout=subprocess.PIPE, stderr=subprocess.STDOUT, timeout=timeout)
        return p.returncode, p.stdout.decode("utf-8", "replace"), time.time() - t0
    except subprocess.TimeoutExpired as e:
        out = (e.stdout or b"").decode("utf-8", "replace")
        return 124, out + "\n[timeout after %ss]" % timeout, time.time() - t0


# ------------------------------------------------------------------ tables / coq
def gen_tables():
    rc, out, _ = sh([sys.executable, os.path.join(ROOT, "tools", "gen_tables.py"), REPO,
                     os.path.join(COQ, "theories", "Tables.v")], timeout=60)
    return rc == 0, out.strip()


def gen_extract():
    """theories/Extract.v is generated from coq/extract/*.list (one qualified constant per line)."""
    names = []
    for f in sorted(glob.glob(os.path.join(COQ, "extract", "*.list"))):
        for l in open(f):
            l = l.strip()
            if l and not l.startswith("#") and l not in names:
                names.append(l)
    mods = []
    for n in names:
        m = n.rsplit(".", 1)[0]
        if m not in mods:
            mods.append(m)
    txt = ("(* GENERATED from coq/extract/*.list -- the only file with extraction directives.\n"
           "   ExtrOcamlBasic only: bool/option/unit/list/prod/sumbool/sumor map to OCaml's own;\n"
           "   positive/N/Z/nat stay Coq's datatypes; no Extract Constant. *)\n"
           "From JV Require Import %s.\n%sRequire Import ExtrOcamlBasic.\n"
           "Cd \"../ocaml/extracted\".\nSeparate Extraction\n  %s.\nCd \"../../coq\".\n") % (
               " ".join(m for m in mods if os.path.exists(os.path.join(COQ, "theories", m + ".v")) or m == "Tables"),
               "".join("From Coq Require Import %s.\n" % m for m in mods if not (os.path.exists(os.path.join(COQ, "theories", m + ".v")) or m == "Tables")),
               "\n  ".join(names))
    os.makedirs(os.path.join(ROOT, "ocaml", "extracted"), exist_ok=True)
    p = os.path.join(COQ, "theories", "Extract.v")
    if not os.path.exists(p) or open(p).read() != txt:
        open(p, "w").write(txt)


def coq_project():
    gen_extract()
    vs = sorted(os.path.relpath(p, COQ) for p in glob.glob(os.path.join(COQ, "theories", "**", "*.v"), recursive=True))
    for g in ("theories/Tables.v", "theories/Extract.v"):
        if g not in vs:
            vs.append(g)
    txt = "-Q theories JV\n-arg -w -arg -notation-overridden,-deprecated-hint-without-locality,-deprecated-instance-without-locality,-ambiguous-paths,-redundant-canonical-projection\n" + "\n".join(sorted(vs)) + "\n"
    p = os.path.join(COQ, "_CoqProject")
    old = open(p).read() if os.path.exists(p) else None
    if old != txt or not os.path.exists(os.path.join(COQ, "Makefile.coq")):
        open(p, "w").write(txt)
        rc, out, _ = sh("coq_makefile -f _CoqProject -o Makefile.coq", cwd=COQ, timeout=120)
        if rc != 0:
            raise RuntimeError("coq_makefile failed: " + out)


def coq_make(targets, timeout=1500):
    """make the given .vo targets (paths relative to coq/).  Returns (ok, log)."""
    coq_project()
    rc, out, dt = sh(["make", "-f", "Makefile.coq", "-j%d" % NCPU] + list(targets), cwd=COQ, timeout=timeout)
    return rc == 0, out


def coq_error_summary(log):
    """First 'File ..., line ...: Error' block of a coq build log."""
    m = re.search(r'File "([^"]+)", line (\d+), characters [\d-]+:\s*\n(Error:.*?)(?:\n\n|\nmake|\Z)', log, re.S)
    if m:
        return {"file": m.group(1), "line": int(m.group(2)), "error": m.group(3).strip()[:1500]}
    if "[timeout" in log:
        return {"file": "?", "line": 0, "error": "coq build timed out"}
    return {"file": "?", "line": 0, "error": log[-1500:]}


def enclosing_lemma(path, line):
    try:
        src = open(os.path.join(COQ, path) if not os.path.isabs(path) else path).read().split("\n")
    except OSError:
        return None
    for i in range(min(line, len(src)) - 1, -1, -1):
        m = re.match(r"\s*(?:Local\s+|Global\s+)?(Lemma|Theorem|Corollary|Example|Fact|Remark|Definition|Fixpoint|Instance)\s+([A-Za-z0-9_']+)", src[i])
        if m:
            return m.group(2)
    return None


def props_files(pid):
    """Props/Cxx.v plus the per-half files Props/Cxx_*.v (e.g. C06_text.v, C06_bin.v)"""
    d = os.path.join(COQ, "theories", "Props")
    fs = []
    if os.path.exists(os.path.join(d, pid + ".v")):
        fs.append(pid)
    fs += sorted(os.path.basename(p)[:-2] for p in glob.glob(os.path.join(d, pid + "_*.v")))
    return fs


def props_theorems(pid):
    """pinned theorems of a property, as Module.name"""
    out = []
    for m in props_files(pid):
        txt = open(os.path.join(COQ, "theories", "Props", m + ".v")).read()
        txt = re.sub(r"\(\*.*?\*\)", "", txt, flags=re.S)
        out += [m + "." + t for t in re.findall(r"^\s*Theorem\s+([A-Za-z0-9_']+)", txt, re.M)]
    return out


def props_targets(pid):
    return ["theories/Props/%s.vo" % m for m in props_files(pid)]


def forbidden_scan():
    bad = []
    for p in glob.glob(os.path.join(COQ, "theories", "**", "*.v"), recursive=True):
        txt = open(p).read()
        txt = re.sub(r"\(\*.*?\*\)", "", txt, flags=re.S)
        for i, l in enumerate(txt.split("\n"), 1):
            if FORBIDDEN_RE.search(l):
                bad.append("%s:%d: %s" % (os.path.relpath(p, ROOT), i, l.strip()[:120]))
    return bad


def print_assumptions(pid, thms):
    """Compile a throw-away file that prints the assumptions of every pinned theorem."""
    d = os.path.join(CACHE, "ax")
    os.makedirs(d, exist_ok=True)
    f = os.path.join(d, "Ax%s.v" % pid)
    with open(f, "w") as fh:
        fh.write("From JV.Props Require %s.\n" % " ".join(props_files(pid)))
        for t in thms:
            fh.write('Goal True. idtac "@@THM %s". exact I. Qed.\nPrint Assumptions %s.\n' % (t, t))
    rc, out, _ = sh(["coqc", "-Q", os.path.join(COQ, "theories"), "JV", "-noglob", f], cwd=d, timeout=600)
    res = {}
    if rc != 0:
        return None, out
    cur = None
    for l in out.split("\n"):
        m = re.match(r"@@THM (\S+)", l)
        if m:
            cur = m.group(1)
            res[cur] = []
            continue
        if cur is None:
            continue
        m = re.match(r"^([A-Za-z_][A-Za-z0-9_.']*)\s*(:|$)", l)
        if m and l.strip() != "Axioms:":     # "Axioms:" is the header line Coq prints, not an axiom
            res[cur].append(m.group(1))
    return res, out


# ------------------------------------------------------------------ ocaml driver
def _hash_files(paths):
    h = hashlib.sha256()
    for p in sorted(paths):
        h.update(p.encode())
        h.update(open(p, "rb").read())
    return h.hexdigest()


def build_driver():
    ok, log = coq_make(["theories/Extract.vo"])
    if not ok:
        return False, log
    src = glob.glob(os.path.join(ROOT, "ocaml", "extracted", "*.ml*")) + glob.glob(os.path.join(ROOT, "ocaml", "*.ml"))
    hv = _hash_files(src)
    out = os.path.join(CACHE, "ocaml")
    stamp = os.path.join(out, "stamp")
    if os.path.exists(stamp) and open(stamp).read() == hv and os.path.exists(os.path.join(out, "driver")):
        return True, "driver up to date"
    if os.path.isdir(out):
        shutil.rmtree(out)
    os.makedirs(out)
    for p in src:
        shutil.copy(p, out)
    ext = [os.path.basename(p) for p in glob.glob(os.path.join(ROOT, "ocaml", "extracted", "*.ml*"))]
    rc, order, _ = sh(["ocamlfind", "ocamldep", "-sort"] + sorted(ext), cwd=out, timeout=120)
    if rc != 0:
        return False, order
    fams = sorted(os.path.basename(p) for p in glob.glob(os.path.join(ROOT, "ocaml", "fam_*.ml")))
    # helper glue modules (e.g. ttglue.ml): everything that is not glue/driver/fam_*, alphabetical
    helpers = sorted(os.path.basename(p) for p in glob.glob(os.path.join(ROOT, "ocaml", "*.ml"))
                     if os.path.basename(p) not in ("glue.ml", "driver.ml") and not os.path.basename(p).startswith("fam_"))
    cmd = ["ocamlfind", "ocamlopt", "-O3", "-unboxed-types", "-w", "-a", "-package", "zarith", "-linkpkg"]
    cmd = ["ocamlfind", "ocamlopt", "-w", "-a", "-package", "zarith", "-linkpkg"] + order.split() + ["glue.ml"] + helpers + fams + ["driver.ml", "-o", "driver"]
    rc, log, _ = sh(cmd, cwd=out, timeout=900)
    if rc != 0 or not os.path.exists(os.path.join(out, "driver")):
        return False, log
    open(stamp, "w").write(hv)
    return True, log


# ------------------------------------------------------------------ rust harness
EXCLUDED_FAMS = set()   # harness families left out because they no longer compile against the repository's current tree


def harness_dir():
    d = os.path.join(CACHE, "harness")
    os.makedirs(d, exist_ok=True)
    toml = open(os.path.join(ROOT, "harness", "Cargo.toml.in")).read().replace("@REPO@", REPO)
    p = os.path.join(d, "Cargo.toml")
    if not os.path.exists(p) or open(p).read() != toml:
        open(p, "w").write(toml)
    src = os.path.join(d, "src")
    if os.path.islink(src):
        os.unlink(src)
    os.makedirs(src, exist_ok=True)
    want = {}
    fams = []
    for f in sorted(glob.glob(os.path.join(ROOT, "harness", "src", "*.rs"))):
        b = os.path.basename(f)
        want[b] = open(f).read()
        if b.startswith("fam_") and b[:-3] not in EXCLUDED_FAMS:
            fams.append(b[:-3])
    want["fams.rs"] = ("// GENERATED: one line per harness/src/fam_*.rs\n" + "".join("#[path = \"%s.rs\"]\npub mod %s;\n" % (f, f) for f in fams)
                       + "pub fn dispatch(kind: &str, args: &[&str]) -> Option<String> {\n"
                       + "".join("    if let Some(r) = %s::dispatch(kind, args) {\n        return Some(r);\n    }\n" % f for f in fams)
                       + "    None\n}\n")
    for b, txt in want.items():
        q = os.path.join(src, b)
        if not os.path.exists(q) or open(q).read() != txt:
            open(q, "w").write(txt)
    for q in glob.glob(os.path.join(src, "*.rs")):
        if os.path.basename(q) not in want:
            os.unlink(q)
    lock = os.path.join(d, "Cargo.lock")
    if not os.path.exists(lock):
        src_lock = os.path.join(REPO, "Cargo.lock")
        shutil.copy(src_lock if os.path.exists(src_lock) else "/repo/Cargo.lock", lock)
    return d


RUSTFLAGS = "--cfg jomini_verif --cfg unoptimized_build -A warnings"


_BUILT = set()      # profiles built from /repo's current tree by this process


def ensure_harness(profile):
    """a stream may ask for a profile the property module did not list in PROFILES: never run a stale binary"""
    if profile in _BUILT:
        return True
    ok, out = build_harness(profile)
    if not ok:
        raise RuntimeError("harness build (%s) failed: %s" % (profile, out[-1500:]))
    return True


def build_harness(profile="release"):
    """Build the harness against the repository's current tree.  When a family file no longer compiles (a change to the
    derive macro can make a `#[derive(JominiDeserialize)]` struct of the harness a compile error), that family is left out
    and the build is retried, so that the other families can still search for a failing input; the caller reports the
    exclusion as a broken tie (EXCLUDED_FAMS)."""
    env = dict(ENV, RUSTFLAGS=RUSTFLAGS, CARGO_TARGET_DIR=os.path.join(CACHE, "target"))
    cmd = ["cargo", "build", "--offline", "-q"] + (["--release"] if profile == "release" else [])
    for _attempt in range(5):
        d = harness_dir()
        rc, out, dt = sh(cmd, cwd=d, env=env, timeout=1200)
        if rc == 0:
            break
        if _attempt == 0 and not re.search(r"^error[^\n]*\n\s*--> src/", out, re.M):
            # no source error at all (an interrupted earlier build can leave the incremental cache unusable): clean it and retry once
            shutil.rmtree(os.path.join(CACHE, "target", "release" if profile == "release" else "debug", "incremental"), ignore_errors=True)
            continue
        bad = set(re.findall(r"^error[^\n]*\n\s*--> src/(fam_\w+)\.rs", out, re.M)) - EXCLUDED_FAMS   # primary location of each error only
        if not bad:
            break
        EXCLUDED_FAMS.update(bad)
    binp = os.path.join(CACHE, "target", "release" if profile == "release" else "debug", "jv_harness")
    if rc == 0 and os.path.exists(binp):
        _BUILT.add(profile)
    return rc == 0 and os.path.exists(binp), out


def harness_bin(profile="release"):
    return os.path.join(CACHE, "target", "release" if profile == "release" else "debug", "jv_harness")


# ------------------------------------------------------------------ running cases
CHILD_AS_LIMIT = 8 << 30       # address space of one harness / driver process
CHILD_OUT_LIMIT = 256 << 20    # bytes of output of one harness / driver process


def _child_limits():
    import resource
    resource.setrlimit(resource.RLIMIT_AS, (CHILD_AS_LIMIT, CHILD_AS_LIMIT))
    resource.setrlimit(resource.RLIMIT_FSIZE, (CHILD_OUT_LIMIT, CHILD_OUT_LIMIT))


def _run_chunk(binp, cases, timeout, abort_tag):
    """Run one process over the cases; if it dies or hangs, mark the offending case and go on.
    The child's memory and output are bounded (a runaway case must become an ABORT of that case, never exhaust the machine)."""
    import tempfile
    outs = []
    i = 0
    while i < len(cases):
        data = ("\n".join(cases[i:]) + "\n").encode()
        with tempfile.TemporaryFile() as fo:
            try:
                p = subprocess.run([binp], input=data, stdout=fo, stderr=subprocess.DEVNULL, timeout=timeout, preexec_fn=_child_limits)
                died = p.returncode != 0
                tag = abort_tag
            except subprocess.TimeoutExpired:
                died = True
                tag = "HANG"
            fo.seek(0)
            lines = fo.read().decode("utf-8", "replace").split("\n")
        if lines and lines[-1] == "":
            lines.pop()
        elif lines and died:
            lines.pop()          # a partially written last line cannot be trusted
        need = len(cases) - i
        if len(lines) >= need:
            outs.extend(lines[:need])
            break
        outs.extend(lines)
        i += len(lines)
        if not died and len(lines) < need:
            tag = abort_tag
        outs.append(tag)
        i += 1
    return outs


def run_sharded(binp, cases, timeout=600, abort_tag="ABORT", shards=None):
    if not cases:
        return []
    n = shards or min(NCPU, max(1, len(cases) // 50))
    size = (len(cases) + n - 1) // n
    chunks = [cases[k:k + size] for k in range(0, len(cases), size)]
    with ThreadPoolExecutor(max_workers=NCPU) as ex:
        res = list(ex.map(lambda c: _run_chunk(binp, c, timeout, abort_tag), chunks))
    out = []
    for r in res:
        out.extend(r)
    return out


def run_impl(cases, profile="release", timeout=600):
    ensure_harness(profile)
    return run_sharded(harness_bin(profile), cases, timeout=timeout, abort_tag="ABORT")


def run_model(cases, timeout=900):
    return run_sharded(os.path.join(CACHE, "ocaml", "driver"), cases, timeout=timeout, abort_tag="MODEL-ABORT")


def hexs(b):
    return bytes(b).hex() if len(b) else "-"


def unhex(s):
    return b"" if s in ("-", "") else bytes.fromhex(s)


# ------------------------------------------------------------------ memory guard for the oracles
class memory_guard:
    """While active, a watchdog thread interrupts the main thread (KeyboardInterrupt) when this process's resident set
    exceeds `limit` bytes: an oracle that runs away on an unexpected output of changed code must end as a broken check
    obligation of this property, never exhaust the machine."""
    def __init__(self, limit=12 << 30):
        self.limit = limit
        self.stop = False

    def _rss(self):
        try:
            with open("/proc/self/statm") as f:
                return int(f.read().split()[1]) * os.sysconf("SC_PAGE_SIZE")
        except Exception:
            return 0

    def _watch(self):
        import _thread
        while not self.stop:
            if self._rss() > self.limit:
                sys.stderr.write("memory guard: resident set above %d MiB, interrupting the oracle\n" % (self.limit >> 20))
                _thread.interrupt_main()
                return
            time.sleep(0.25)

    def __enter__(self):
        import threading
        self.t = threading.Thread(target=self._watch, daemon=True)
        self.t.start()
        return self

    def __exit__(self, *a):
        self.stop = True
        return False


# ------------------------------------------------------------------ known findings
def load_known():
    p = os.path.join(ROOT, "known_findings.json")
    if not os.path.exists(p):
        return {"known": [], "fixed": []}
    return json.load(open(p))


# ------------------------------------------------------------------ the check context
class Ctx:
    def __init__(self, pid, tier, seed):
        self.pid = pid
        self.tier = tier
        self.seed = seed
        self.rng = random.Random(seed)
        self.t0 = time.time()
        self.evaluations = 0
        self.nontrivial = set()
        self.samples = []
        self.dist = {}
        self.disagreements = []      # (stream, case, impl, model)
        self.failures = []           # dicts: {key, what, cases:[...], impl:[...], expect:...}
        self.notes = []
        self.streams = {}
        self.broken = []             # broken ties: proof / translator / build
        self.profile = "release"
        self.corpus_cases = 0

    def scale(self, quick, thorough):
        return thorough if self.tier == "thorough" else quick

    def count(self, key, n=1):
        self.dist[key] = self.dist.get(key, 0) + n

    def corpus(self, stream):
        """cases of a committed corpus file corpus/<pid>/<stream>.case (run first)"""
        p = os.path.join(ROOT, "corpus", self.pid, stream + ".case")
        if not os.path.exists(p):
            return []
        cs = [l.rstrip("\n") for l in open(p) if l.strip() and not l.startswith("#")]
        self.corpus_cases += len(cs)
        return cs

    def correspond(self, stream, cases, nontrivial=None, profile=None, model=True, sample_every=None):
        """Run cases on implementation and model, record disagreements.  Returns (impl, model)."""
        cases = self.corpus(stream) + list(cases)
        impl = run_impl(cases, profile or self.profile)
        mod = run_model(cases) if model else [None] * len(cases)
        if len(impl) != len(cases) or (model and len(mod) != len(cases)):
            self.broken.append({"what": "harness/driver produced %d/%d lines for %d cases in stream %s" % (len(impl), len(mod), len(cases), stream)})
        self.evaluations += len(cases)
        st = self.streams.setdefault(stream, {"cases": 0, "disagree": 0})
        st["cases"] += len(cases)
        step = max(1, len(cases) // 3)
        for k, c in enumerate(cases):
            i = impl[k] if k < len(impl) else "MISSING"
            m = mod[k] if k < len(mod) else "MISSING"
            if model and i != m:
                st["disagree"] += 1
                if len(self.disagreements) < 200:
                    self.disagreements.append((stream, c, i, m))
            if nontrivial is None or nontrivial(c, i):
                self.nontrivial.add(hashlib.md5((c + "\x00" + str(i)).encode()).digest()[:8])
            if k % step == 0 and len(self.samples) < 12:
                self.samples.append({"stream": stream, "case": c[:300], "impl": str(i)[:300], "model": (str(m)[:300] if model else None)})
        return impl, mod

    def fail(self, key, what, cases, impl=None, expect=None):
        """A property-level failure observed on the implementation (replayable)."""
        # at most 4 recorded per class, so that a frequent (e.g. known) class cannot crowd out a new one
        if impl and any(isinstance(i, str) and (i == "NOKIND" or i.startswith("NOKIND")) for i in impl):
            self.count("fail_skipped_nokind")      # the kind's family was excluded from the build: not an observation of the code
            return
        self.count("fail_" + key)
        if sum(1 for f in self.failures if f["key"] == key) < 4 and len(self.failures) < 200:
            self.failures.append({"key": key, "what": what, "cases": cases, "impl": impl, "expect": expect})


def write_replay(pid, seed, obj):
    d = os.path.join(ROOT, "replays")
    os.makedirs(d, exist_ok=True)
    n = 0
    while True:
        p = os.path.join(d, "%s-%d-%d.json" % (pid, seed, n))
        if not os.path.exists(p):
            break
        n += 1
    json.dump(obj, open(p, "w"), indent=1)
    return p


def write_evidence(pid, obj):
    d = os.path.join(ROOT, "evidence")
    os.makedirs(d, exist_ok=True)
    json.dump(obj, open(os.path.join(d, pid + ".json"), "w"), indent=1)


# ------------------------------------------------------------------ shrinking
def ddmin_bytes(data, still_fails, max_rounds=400):
    """Greedy delta debugging on a byte string: remove chunks, then single bytes, then simplify bytes."""
    data = bytes(data)
    rounds = 0
    chunk = max(1, len(data) // 2)
    while chunk >= 1 and rounds < max_rounds:
        i = 0
        changed = False
        while i < len(data) and rounds < max_rounds:
            cand = data[:i] + data[i + chunk:]
            rounds += 1
            if len(cand) < len(data) and still_fails(cand):
                data = cand
                changed = True
            else:
                i += chunk
        if not changed or chunk > 1:
            chunk = chunk // 2 if chunk > 1 else (0 if not changed else 1)
    for i in range(len(data)):
        for repl in (b"a", b" "):
            if rounds >= max_rounds:
                break
            if data[i:i + 1] not in (repl, b'"', b"\\", b"{", b"}", b"=", b"#", b"\n"):
                cand = data[:i] + repl + data[i + 1:]
                rounds += 1
                if still_fails(cand):
                    data = cand
                    break
    return data
