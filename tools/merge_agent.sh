#!/bin/sh
# lead-side helper: merge branch agent-<name> into main; resolve a known_findings.json conflict by union; report other conflicts
n=$1
cd "$(dirname "$0")/.."
git merge --no-edit agent-$n 2>&1 | grep -i "conflict\|Merge made\|Already\|error"
c=$(git status --short | grep "^UU\|^AA" | awk '{print $2}')
if [ -n "$c" ]; then
  if [ "$c" = "known_findings.json" ]; then python3 tools/merge_findings.py && git add -A && git commit -qm "merge $n"; else echo "UNRESOLVED: $c"; exit 1; fi
fi
git -C /repo worktree remove --force /root/work/$n/repo 2>/dev/null; git -C /repo branch -D agent-$n -q 2>/dev/null
git worktree remove --force /root/work/$n/verif 2>/dev/null; git branch -D agent-$n -q 2>/dev/null
python3 -c "import shutil; shutil.rmtree('/root/work/$n', ignore_errors=True)"
