#!/usr/bin/env python3
"""Writes MANIFEST.json from the per-property modules in props/ (CLAIM dict) so that the file stays valid."""
import json, os, sys, importlib, subprocess
ROOT = os.path.dirname(os.path.dirname(os.path.abspath(__file__)))
sys.path.insert(0, ROOT); sys.path.insert(0, os.path.join(ROOT, "tools"))
ALL = ["C%02d" % i for i in range(1, 21)]
checks, na = [], []
for pid in ALL:
    try:
        m = importlib.import_module("props." + pid)
        cl = m.CLAIM
        import vlib
        if not vlib.props_theorems(pid):
            raise RuntimeError("no theorem pinned yet")
    except Exception as e:
        na.append({"property_id": pid, "reason": "check not built yet in this revision (model and theorems planned in DESIGN.md section 6); not a claim that the technique cannot apply"})
        continue
    checks.append({
        "property_id": pid,
        "quick_cmd": "./check %s --tier quick" % pid,
        "thorough_cmd": "./check %s --tier thorough" % pid,
        "evidence_file": "/verif/evidence/%s.json" % pid,
        "replay_cmd_template": "./check %s --replay {path}" % pid,
        "engine": "coq-proof+correspondence",
        "level_claimed": {"category": "proof", "text": cl["text"], "design_ref": cl.get("design_ref", "DESIGN.md section 6 / " + pid)},
        "level_note": cl.get("note") or cl.get("level_note") or "Trusted: Coq kernel, translator, extraction, harness; see evidence for the theorems proved and DESIGN.md section 5",
        "technique": cl.get("technique", "machine-checked proof in Coq over an executable model + model/implementation correspondence by extraction"),
    })
hooks_commits = subprocess.run(["git", "-C", "/repo", "log", "--format=%H %s"], stdout=subprocess.PIPE).stdout.decode().split("\n")
hook_ids = [l.split()[0] for l in hooks_commits if " verif hooks" in l]
man = {
    "version": 1,
    "setup_cmd": "./check --setup",
    "hooks": {
        "guard": "--cfg jomini_verif",
        "enable": "RUSTFLAGS=\"--cfg jomini_verif --cfg unoptimized_build\" cargo build --offline (harness crate /verif/harness with a path dependency on /repo; cfg(unoptimized_build) pre-exists in the repository)",
        "baseline_off_cmd": "cd /repo && cargo test --workspace --no-fail-fast --offline",
        "source_commits": hook_ids,
        "add_only": True,
    },
    "engines": [{"name": "coq-proof+correspondence", "path": "/verif/check", "serves_properties": [c["property_id"] for c in checks],
                 "kind_free_text": "Coq 8.16 theorems over hand-written Gallina models (coq/theories), tables regenerated from /repo by tools/gen_tables.py, models extracted to OCaml and run against the Rust implementation on the same cases (harness/), property oracles on the implementation"}],
    "checks": checks,
    "not_applicable": na,
    "notes": "VERIF_SEED seeds every random choice; VERIF_TIER or --tier selects quick/thorough. Caches under /verif/.cache (rebuilt by setup_cmd). See DESIGN.md.",
}
json.dump(man, open(os.path.join(ROOT, "MANIFEST.json"), "w"), indent=1)
print("MANIFEST.json: %d checks, %d not_applicable" % (len(checks), len(na)))
