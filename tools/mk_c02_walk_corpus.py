import sys, os
sys.path.insert(0, "/root/work/b_tde/verif"); sys.path.insert(0, "/root/work/b_tde/verif/tools")
import vlib
hx = lambda b: (b.encode() if isinstance(b, str) else b).hex() or "-"
def S(**kw):
    return "struct(%s)" % ",".join("%s:%s" % (hx(k.rstrip("*!")) + (k[-1] if k[-1] in "*!" else ""), v) for k, v in kw.items())
CASES = [
 # (text, shape, paths)
 # the synthetic "remainder" key of an object that turns into an array
 (b"a={ b=1 c=2 3 4 }", S(a=S(b="u8", c="u8", remainder="seq(u8)")), None),
 (b"a={ b=1 c=2 3 4 }", S(a="map(any)"), None),
 (b"a={ b=1 c=2 3 4 }", S(a=S(b="u8")), None),
 # a struct / map target on an array: the array is the remainder
 (b"a={ 1 2 3 }", S(a=S(remainder="seq(u8)")), None),
 (b"a={ 1 2 3 }", S(a="map(seq(u8))"), None),
 (b"a={ }", S(a=S(x="opt(u8)")), None),
 (b"a={ } b={}", S(a="map(u8)", b="seq(u8)"), None),
 # array that turns into a key-value list
 (b"a={ 10 b=c d=e }", S(a="seq(any)"), None),
 (b"a={ 10 b=c d=e }", S(a="seq(str)"), None),
 # headers: seq hint (two elements), any (the block), ignored, map after header
 (b"color = rgb { 1 2 3 } x=1", S(color="tup(str,seq(u8))", x="u8"), None),
 (b"color = rgb { 1 2 3 } x=1", S(color="any", x="u8"), None),
 (b"color = rgb { 1 2 3 } x=1", S(x="u8"), None),
 (b"color = rgb { 1 2 3 } x=1", S(color="str", x="u8"), None),
 (b"color = hsv { a=1 } x=1", S(color="any", x="u8"), None),
 (b"color = hsv { a=1 } x=1", S(color=S(a="u8"), x="u8"), None),
 (b"l={ rgb { 1 2 3 } rgb { 4 5 6 } }", S(l="seq(any)"), None),
 # Property: operators, missing operator, on a non-field value, nested
 (b"a > 3 b = 4 c <= x", S(a="prop(u8)", b="prop(u8)", c="prop(str)"), None),
 (b"a={ 1 2 }", S(a="prop(seq(u8))"), None),
 (b"a={ b > 1 }", S(a="seq(prop(u8))"), None),
 (b"a={ operator=\">\" value=3 }", S(a="seq(prop(u8))"), None),
 (b"a={ operator=\">\" value=3 }", S(a="opt(prop(any))"), None),
 (b"a={ {operator=\">\" value=3} {operator=\"<\" value=4 operator=x} {value=1} }", S(a="seq(prop(u8))"), None),
 (b"a > 3", S(a="prop(prop(u8))"), None),
 (b"operator=\"<\" value=7 junk=1", "prop(u8)", None),
 (b"operator=\"<=\" value=7 junk=1", "prop(u8)", ["slice", "objreader", "reader:32768:-"]),
 # enums
 (b"a=foo b=\"bar\" c={ foo 1 } d={ } e={ foo }", S(a="enum(%s,%s)" % (hx("foo"), hx("bar"))), None),
 (b"c={ foo 1 }", S(c="enum(%s)" % hx("foo")), None),
 (b"c={ foo }", S(c="enum(%s)" % hx("foo")), None),
 (b"c={ }", S(c="enum(%s)" % hx("foo")), None),
 (b"c=baz", S(c="enum(%s)" % hx("foo")), None),
 # wrong container hints
 (b"a=1 b=2 c=3", S(a="seq(u8)", c="u8"), None),
 (b"a=1 b=2", S(a="map(u8)", b=S(x="u8")), None),
 (b"a={ 1 2 3 } b=2", S(a="tup(u8,u8)", b="u8"), None),
 (b"a={ 1 2 3 } b=2", S(a="tup(u8,u8,u8,u8)", b="u8"), None),
 (b"a={ 1 2 3 } b=2", S(a="u8", b="u8"), None),
 (b"a={ b=1 } c=2", S(a="str", c="u8"), None),
 (b"a={ b=1 } c=2", S(a="any", c="u8"), None),
 (b"a={ b=1 } c=2", S(a="seq(str)", c="u8"), None),
 (b"a={ b=1 } c=2", S(a="date", c="u8"), None),
 # finding M: != / ?= first in a nested container
 (b"u={a != 1 b=2}", S(u=S(a="prop(u8)", b="u8")), None),
 (b"u={a ?= 1 b=2}", S(u="seq(any)"), None),
 # ghosts, stray close, missing value, eof inside
 (b"{} a=1 {} b={ {} c=1 {} } {}", S(a="u8", b=S(c="u8")), None),
 (b"a=1 } b=2", S(a="u8", b="opt(u8)"), None),
 (b"a={ b=1", S(a=S(b="u8")), None),
 (b"a={ b=1 c={ 1 2", S(a="ign"), None),
 (b"a=1 b=", S(a="u8", b="opt(u8)"), None),
 (b"a", S(a="opt(u8)"), None),
 (b"a=", S(a="opt(u8)"), None),
 (b"a={ 1 2 } }", S(a="seq(u8)"), None),
 # duplicates, modes
 (b"a=1 a=2 a=3", S(**{"a*": "u8"}), None),
 (b"a=1 a=2 a=3", S(**{"a!": "u8"}), None),
 (b"a=1 a=2 a=3", S(a="u8"), None),
 (b"a=1 a=x a=3", S(a="u8"), None),
 (b"a=1", S(a="u8", zz="u8"), None),
 (b"a=1", S(a="u8", zz="opt(u8)", yy="ign"), None),
 # keys: quoted, numeric, operators as keys, parameters
 (b"\"a b\"=1 12=2", "map(u8)", None),
 (b"12=2 x=3", "tstruct(%s#0001:u8,%s#0002:opt(u8))" % (hx("x"), hx("12")), None),
 (b"a={ [[p] b=1 ] c=2 }", S(a="map(any)"), None),
 (b"a={ [[p] v ] c=2 }", S(a="map(any)"), None),
 (b"a={ [[!p] b=1 ] c=2 }", S(a=S(p=S(b="u8"), c="u8")), None),
 # typed hints and fallbacks
 (b"a=yes b=no c=1 d=-1 e=1.5 f=\"2\" g=1444.11.11 h=\"x y\" i=18446744073709551615 j=-9223372036854775807", "map(any)", None),
 (b"a=yes b=no c=1", S(a="bool", b="bool", c="bool"), None),
 (b"a=1.5 b=-0.25 c=1 d=x", S(a="f64", b="f32", c="f64", d="opt(f32)"), None),
 (b"a=1.000 b=1.5", S(a="u8", b="opt(u8)"), None),
 (b"a=256", S(a="u8"), None), (b"a=-129", S(a="i8"), None), (b"a=-128", S(a="i8"), None),
 (b"a=18446744073709551616", S(a="u64"), None),
 (b"a=1444.11.11 b=1.1.1 c=\"1444.11.11\" d=1444.13.1", S(a="date", b="date", c="date", d="opt(date)"), None),
 (b"a=1444.11.11.5 b=1444.11.11", S(a="dh", b="opt(dh)"), None),
 (b"a=\"\\\"q\\\"\" b=\"caf\xe9\"", S(a="str", b="str"), ["slice", "tape", "reader:32768:-"]),
 (b"a=1 b={ 2 3 }", S(a="opt(opt(u8))", b="opt(seq(opt(u8)))"), None),
 (b"a=1 b={ 2 3 } c={ d=4 }", S(a="ign", b="ign", c="ign"), None),
 (b"a=1", "any", None), (b"a=1", "str", None), (b"a=1", "seq(u8)", None), (b"a=1", "opt(map(u8))", None), (b"a=1", "ign", None),
 (b"a=b=c", "map(any)", None), (b"a = = c", "map(any)", None), (b"a < = c", "map(str)", None),
 (b"a={ b == 1 c >= 2 d != 3 e ?= 4 }", S(a="map(prop(u8))"), None),
 (b"a=b{ 1 }", "map(any)", None),
]
PATHS = ["slice", "tape", "objreader", "reader:32768:-", "reader:64:1*"]
def main():
    p1 = []
    for (t, sh, ps) in CASES:
        p1 += ["tt.parse\t" + hx(t), "tr.slice\t" + hx(t)]
    out = vlib.run_impl(p1)
    lines = []
    for k, (t, sh, ps) in enumerate(CASES):
        tp, tk = out[2 * k], out[2 * k + 1]
        for p in (ps or PATHS):
            if p.startswith("reader"):
                aux = tk
            elif tp.startswith("ok "):
                aux = tp.split(" ", 2)[2] if tp.count(" ") >= 2 else "-"
            else:
                continue
            lines.append("\t".join(["de.model.text", p, "w1252", sh, hx(t), aux]))
    if len(sys.argv) > 1 and not sys.argv[1].startswith("-"):
        open(sys.argv[1], "w").write("# hand-made corner cases of the text serde walks (generated by the b_tde corpus script: text, shape, path + the implementation's tape / reader tokens)\n" + "\n".join(lines) + "\n")
    i = vlib.run_impl(lines); m = vlib.run_model(lines)
    bad = 0
    for c, a, b in zip(lines, i, m):
        f = c.split("\t")
        flag = "  " if a == b else "!!"
        if a != b: bad += 1
        if a != b or "-v" in sys.argv:
            print(flag, f[1], bytes.fromhex(f[4]) if f[4] != "-" else b"", f[3], "\n     IMPL ", a, "\n     MODEL", b)
    print(len(lines), "cases", bad, "disagreements")
main()
