#!/usr/bin/env python3
"""Self-test helper (not a MANIFEST command): apply a seeded change to /repo, run the named checks,
undo the change straight afterwards.   usage: tools/mutant.py seeded/<id> Cxx [Cyy ...] [--tier thorough]"""
import os, sys, subprocess, json
ROOT = os.path.dirname(os.path.dirname(os.path.abspath(__file__)))

def main():
    a = sys.argv[1:]
    tier = "quick"
    if "--tier" in a:
        i = a.index("--tier"); tier = a[i + 1]; del a[i:i + 2]
    d, props = a[0], a[1:]
    patch = os.path.join(d if os.path.isabs(d) else os.path.join(ROOT, d), "patch.diff")
    st = subprocess.run(["git", "-C", "/repo", "status", "--porcelain", "--untracked-files=no"], stdout=subprocess.PIPE).stdout.decode().strip()
    if st:
        print("refusing: /repo has local modifications:\n" + st); return 2
    r = subprocess.run(["git", "-C", "/repo", "apply", patch])
    if r.returncode != 0:
        print("patch does not apply"); return 2
    res = {}
    try:
        for p in props:
            r = subprocess.run([os.path.join(ROOT, "check"), p, "--tier", tier], cwd=ROOT, stdout=subprocess.PIPE, stderr=subprocess.STDOUT)
            out = r.stdout.decode()
            v = [l for l in out.split("\n") if l.startswith("VIOLATION")]
            res[p] = {"exit": r.returncode, "violation": v[:1], "tail": out.strip().split("\n")[-1]}
            print(p, "exit", r.returncode, v[:1], "|", res[p]["tail"])
    finally:
        subprocess.run(["git", "-C", "/repo", "checkout", "--", "."])
        # a failed translation leaves the previous Tables.v in place: regenerate from the clean tree
        subprocess.run(["python3", os.path.join(ROOT, "tools", "gen_tables.py"), "/repo"], stdout=subprocess.DEVNULL)
    print(json.dumps(res))
    return 0

if __name__ == "__main__":
    sys.exit(main())
