#!/usr/bin/env python3
"""Translator, C18 part (w_derive, wave 5): STRUCTURAL FACTS of the proc-macro jomini_derive/src/lib.rs.

`emit(repo)` returns the lines of the block of coq/theories/Tables.v that coq/theories/DeriveCode.v
consumes (`code_facts`).  Every fact is read off the source text of lib.rs by a pattern that is
independent of the names of locals, of the order of the top-level functions and of whether a piece
of a walker lives in a helper function (calls to top-level functions of lib.rs are followed).  A
pattern that is not found raises TErr ("translator cannot parse ..."): nothing is guessed.

facts                                                             where in lib.rs
----------------------------------------------------------------- ------------------------------------
dv_scan_<walker>   : all `#[jomini(..)]` lists or the first one    `.filter(|a| a.path.is_ident("jomini"))`
dv_pick_alias/token/default : first or last matching argument     `.next()` / `.find(..)` vs `.last()`
dv_default_before_option : the `default` argument is consulted     can_default: position of the decision on
                           before the type is tested for Option    the attribute vs the Option test
dv_option_test     : any / the only / the last path segment        can_default (or a helper it calls)
dv_builder_*       : decision table of builder_fields over         the `if [!]is_duplicated / is_take_last`
                     (duplicated, take_last)                       tree of the block spliced into `match __key`
dv_extract_*       : field_extract: action per DefaultFallback     `match can_default(f) { .. }`
dv_field_visitor_methods, dv_*_fallthrough_ignore                  `impl Visitor for __FieldVisitor`
dv_hint_*          : key hint with / without token attributes      the block spliced into `__Field::deserialize`
dv_partial_tokens_rejected                                         `if n > 0 && n < len { panic!(..) }`
dv_str_arm         : the string that selects a field               `alias(f).unwrap_or_else(|| name)`
"""
import os
import re


class TErr(Exception):
    pass


def need(m, item):
    if not m:
        raise TErr("translator cannot parse jomini_derive/src/lib.rs: %s" % item)
    return m


# ------------------------------------------------------------------------------------------ lexical layer
_CHAR = re.compile(r"'(\\x[0-9a-fA-F]{2}|\\u\{[0-9a-fA-F]+\}|\\.|[^\\'])'")


def strip_comments(src):
    """remove // and /* */ comments (doc comments included); string and char literals are kept"""
    out, i, n = [], 0, len(src)
    while i < n:
        c = src[i]
        if src.startswith("//", i):
            k = src.find("\n", i)
            i = n if k < 0 else k
            continue
        if src.startswith("/*", i):
            k = src.find("*/", i + 2)
            i = n if k < 0 else k + 2
            continue
        if c == '"':
            j = i + 1
            while j < n and src[j] != '"':
                j += 2 if src[j] == "\\" else 1
            out.append(src[i:j + 1])
            i = j + 1
            continue
        if c == "'":
            m = _CHAR.match(src, i)
            if m:
                out.append(m.group(0))
                i = m.end()
                continue
        out.append(c)
        i += 1
    return "".join(out)


def skip_literal(s, j):
    """index after the string / char literal starting at j, or j when there is none"""
    if s[j] == '"':
        k = j + 1
        while k < len(s) and s[k] != '"':
            k += 2 if s[k] == "\\" else 1
        return k + 1
    if s[j] == "'":
        m = _CHAR.match(s, j)
        if m:
            return m.end()
    return j


def balanced(s, i, item="block"):
    """s[i] is an opening bracket: index just after the bracket that closes it"""
    pairs = {"{": "}", "(": ")", "[": "]"}
    op = s[i]
    cl = pairs[op]
    d, j, n = 0, i, len(s)
    while j < n:
        k = skip_literal(s, j)
        if k != j:
            j = k
            continue
        if s[j] == op:
            d += 1
        elif s[j] == cl:
            d -= 1
            if d == 0:
                return j + 1
        j += 1
    raise TErr("translator cannot parse jomini_derive/src/lib.rs: unbalanced %s" % item)


def top_fns(src):
    """{name: (parameter names, body)} of the top-level functions"""
    out = {}
    for m in re.finditer(r"(?m)^(?:pub(?:\([^)]*\))?\s+)?fn\s+(\w+)\s*(?:<[^>{]*>)?\s*\(", src):
        i = m.end() - 1
        j = balanced(src, i, "parameter list of " + m.group(1))
        params = [p.split(":")[0].strip().replace("mut ", "").strip() for p in split_top(src[i + 1:j - 1])]
        k = src.index("{", j)
        e = balanced(src, k, "body of " + m.group(1))
        out[m.group(1)] = (params, src[k + 1:e - 1])
    return out


def split_top(s, sep=","):
    out, cur, d, i = [], "", 0, 0
    while i < len(s):
        k = skip_literal(s, i)
        if k != i:
            cur += s[i:k]
            i = k
            continue
        c = s[i]
        if c in "([{":
            d += 1
        elif c in ")]}":
            d -= 1
        if c == sep and d == 0:
            out.append(cur)
            cur = ""
        else:
            cur += c
        i += 1
    if cur.strip():
        out.append(cur)
    return [x.strip() for x in out]


class Lib:
    def __init__(self, src):
        self.src = strip_comments(src)
        self.fns = top_fns(self.src)

    def calls(self, text):
        return [f for f in self.fns if re.search(r"(?<![\w.])%s\s*\(" % re.escape(f), text)]

    def closure(self, text, stop=()):
        """text followed by the bodies of the top-level functions it calls, transitively (`stop`: not entered)"""
        seen, parts, todo = [], [text], self.calls(text)
        while todo:
            f = todo.pop(0)
            if f in seen or f in stop:
                continue
            seen.append(f)
            parts.append(self.fns[f][1])
            todo += self.calls(self.fns[f][1])
        return "\n".join(parts), seen

    def fn_closure(self, name, stop=()):
        need(name in self.fns, "fn %s" % name)
        return self.closure(self.fns[name][1], stop)


# ------------------------------------------------------------------------------------------ the attribute walkers
_COMB = r"\.\s*(\w+)\s*\(\s*\|[^|]*\|\s*[\w.()&*\s]*?is_ident\(\s*%s\s*\)\s*\)"


def ident_test(lib, walker, ident):
    """(combinator, text after it) of the iterator step that tests `is_ident("<ident>")` inside `walker` (its helpers followed);
    a helper that takes the name as a parameter (`helper(f, "<ident>")`) is resolved through the parameter"""
    text, _ = lib.fn_closure(walker)
    ms = list(re.finditer(_COMB % re.escape('"%s"' % ident), text))
    if len(ms) == 1:
        return ms[0].group(1), text[ms[0].end():]
    if len(ms) > 1:
        raise TErr("translator cannot parse jomini_derive/src/lib.rs: %s tests is_ident(\"%s\") %d times" % (walker, ident, len(ms)))
    # helper(.., "<ident>", ..)
    for m in re.finditer(r"(?<![\w.])(\w+)\s*\(", text):
        h = m.group(1)
        if h not in lib.fns:
            continue
        e = balanced(text, m.end() - 1, "call of " + h)
        args = split_top(text[m.end():e - 1])
        if '"%s"' % ident not in args:
            continue
        params, _ = lib.fns[h]
        p = params[args.index('"%s"' % ident)]
        htext, _ = lib.fn_closure(h)
        ms = list(re.finditer(_COMB % (r"&?\s*" + re.escape(p)), htext))
        if len(ms) == 1:
            return ms[0].group(1), htext[ms[0].end():] + "\n" + text[e:]
    raise TErr("translator cannot parse jomini_derive/src/lib.rs: %s: no iterator step tests is_ident(\"%s\")" % (walker, ident))


WALKERS = [("duplicated", "is_duplicated"), ("take_last", "is_take_last"), ("default", "can_default"),
           ("deserialize_with", "can_deserialize_with"), ("alias", "alias"), ("token", "binary_token")]


def scan_mode(lib, walker):
    comb, _ = ident_test(lib, walker, "jomini")
    if comb == "filter":
        return "DvScanAll"
    if comb == "find":
        return "DvScanFirst"
    raise TErr("translator cannot parse jomini_derive/src/lib.rs: %s selects the jomini attributes with `.%s(` (filter / find expected)" % (walker, comb))


def presence_test(lib, walker, ident):
    comb, _ = ident_test(lib, walker, ident)
    if comb not in ("filter", "find", "any"):
        raise TErr("translator cannot parse jomini_derive/src/lib.rs: %s tests the `%s` argument with `.%s(`" % (walker, ident, comb))


def first_semicolon(text):
    d, i = 0, 0
    while i < len(text):
        k = skip_literal(text, i)
        if k != i:
            i = k
            continue
        if text[i] in "([{":
            d += 1
        elif text[i] in ")]}":
            d -= 1
            if d < 0:
                return i
        elif text[i] == ";" and d == 0:
            return i
        i += 1
    return len(text)


def pick_mode(lib, walker, ident):
    comb, rest = ident_test(lib, walker, ident)
    if comb == "find":
        return "DvPickFirst"
    if comb == "rfind":
        return "DvPickLast"
    if comb == "filter":
        chain = rest[:first_semicolon(rest)]
        nx, ls = len(re.findall(r"\.\s*next\s*\(\s*\)", chain)), len(re.findall(r"\.\s*(?:last|next_back)\s*\(\s*\)", chain))
        if (nx, ls) == (1, 0):
            return "DvPickFirst"
        if (nx, ls) == (0, 1):
            return "DvPickLast"
    raise TErr("translator cannot parse jomini_derive/src/lib.rs: %s: which `%s` argument is taken (`.%s(` .. next()/last())" % (walker, ident, comb))


def option_facts(lib):
    """(default_before_option, option_test) of can_default"""
    need("can_default" in lib.fns, "fn can_default")
    body = lib.fns["can_default"][1]
    # --- where the type is tested for Option: literally, or through a helper whose closure names "Option"
    helper = None
    if '"Option"' in body:
        p_opt = body.index('"Option"')
        otext = body
    else:
        cands = [f for f in lib.calls(body) if '"Option"' in lib.fn_closure(f)[0]]
        if len(cands) != 1:
            raise TErr("translator cannot parse jomini_derive/src/lib.rs: can_default: the Option test (found helpers %s)" % cands)
        helper = cands[0]
        otext = lib.fn_closure(helper)[0]
        m = re.search(r"(?<![\w.])%s\s*\(" % re.escape(helper), body)
        p_opt = m.start()
        # `let v = helper(..);` : the test takes effect where v is used
        stmt_start = max(body.rfind(";", 0, p_opt), body.rfind("{", 0, p_opt), body.rfind("}", 0, p_opt)) + 1
        ml = re.match(r"\s*let\s+(\w+)\s*=\s*$", body[stmt_start:p_opt])
        if ml:
            mu = re.search(r"\b%s\b" % re.escape(ml.group(1)), body[p_opt + first_semicolon(body[p_opt:]):])
            need(mu, "can_default: use of `%s`" % ml.group(1))
            p_opt = p_opt + first_semicolon(body[p_opt:]) + mu.start()
    if otext.count('"Option"') != 1:
        raise TErr("translator cannot parse jomini_derive/src/lib.rs: can_default: \"Option\" occurs %d times" % otext.count('"Option"'))
    # --- where the attribute decides
    ps = [m.start() for m in re.finditer(r"DefaultFallback::Path\b", body)]
    if len(ps) != 1:
        raise TErr("translator cannot parse jomini_derive/src/lib.rs: can_default: DefaultFallback::Path constructed %d times" % len(ps))
    before = ps[0] < p_opt
    # --- which segments are tested
    if re.search(r"segments\s*\.\s*len\s*\(\s*\)\s*==\s*1\b", otext):
        test = "DvOptSingleSegment"
    elif re.search(r"segments\s*\.\s*last\s*\(\s*\)", otext) and not re.search(r"segments\s*\.\s*iter\s*\(", otext):
        test = "DvOptLastSegment"
    elif (re.search(r"\bfor\s+\w+\s+in\s+[\w.&\s]*segments\b", otext)
          or re.search(r"segments\s*\.\s*iter\s*\(\s*\)\s*\.\s*any\s*\(", otext)):
        test = "DvOptAnySegment"
    else:
        raise TErr("translator cannot parse jomini_derive/src/lib.rs: can_default: which path segments are compared with \"Option\"")
    need(re.search(r"\.\s*ident\s*==", otext), "can_default: segment.ident == Option")
    return before, test


# ------------------------------------------------------------------------------------------ the blocks of `derive`
def let_block(body, name, item):
    m = need(re.search(r"\blet\s+(?:mut\s+)?%s\s*(?::[^=;]+)?=(?!=)" % re.escape(name), body), "%s: `let %s = ..`" % (item, name))
    rest = body[m.end():]
    return rest[:first_semicolon(rest)]


def find_ifs(text):
    """the `if` expressions of text, outermost first in source order: (start, cond, then, else or None, end)"""
    out, i = [], 0
    while True:
        m = re.compile(r"\bif\b").search(text, i)
        if not m:
            return out
        j, d = m.end(), 0
        while j < len(text):
            k = skip_literal(text, j)
            if k != j:
                j = k
                continue
            if text[j] in "([":
                d += 1
            elif text[j] in ")]":
                d -= 1
            elif text[j] == "{" and d == 0:
                break
            j += 1
        if j >= len(text):
            return out
        cond = text[m.end():j].strip()
        e = balanced(text, j, "if block")
        then = text[j + 1:e - 1]
        els, end = None, e
        me = re.match(r"\s*else\b\s*", text[e:])
        if me:
            k = e + me.end()
            if text[k] == "{":
                end = balanced(text, k, "else block")
                els = text[k + 1:end - 1]
            elif text.startswith("if", k):
                sub = find_ifs(text[k:])
                if sub:
                    end = k + sub[0][4]
                    els = text[k:end]
        out.append((m.start(), cond, then, els, end))
        i = m.end()       # nested ifs are listed as well


def subst_flag_lets(text):
    """`let d = is_duplicated(f);` .. `if !d {` -> the call is written back into the conditions"""
    for m in list(re.finditer(r"\blet\s+(\w+)\s*=\s*(!?\s*is_(?:duplicated|take_last)\s*\(\s*\w+\s*\))\s*;", text)):
        v, call = m.group(1), m.group(2)
        text = text[:m.start()] + " " * (m.end() - m.start()) + re.sub(r"\b%s\b" % re.escape(v), "(" + call + ")", text[m.end():])
    return text


def walker_cond(cond):
    """('is_duplicated'|'is_take_last', polarity) of a condition that is exactly one (possibly negated, parenthesised) walker call"""
    c = re.sub(r"\s+", "", cond)
    neg = False
    while True:
        if c.startswith("!"):
            neg = not neg
            c = c[1:]
        elif c.startswith("(") and balanced(c, 0) == len(c):
            c = c[1:-1]
        else:
            break
    m = re.fullmatch(r"(is_duplicated|is_take_last)\(&?\w+\)", c)
    return (m.group(1), not neg) if m else None


def builder_table(text):
    """action of the generated `match __key` arm for each (duplicated, take_last)"""
    text = subst_flag_lets(text)

    def leaf(t, where):
        push, dup, over = ".push(" in re.sub(r"\s+", "", t), "duplicate_field" in t, re.search(r"=\s*Some\s*\(", t)
        guarded = re.search(r"\bNone\s*=>", t)      # `match slot { None => slot = Some(..), _ => .. }`
        if dup and over and guarded and not push:
            return "DvDupError"
        if push and not dup and not over:
            return "DvPush"
        if over and not dup and not push and not guarded:
            return "DvOverwrite"
        raise TErr("translator cannot parse jomini_derive/src/lib.rs: builder_fields: the arm generated for %s (push / `= Some(` / duplicate_field)" % where)

    def walk(t, env, where):
        for (_s, cond, then, els, _e) in find_ifs(t):
            wc = walker_cond(cond)
            if wc is None:
                if re.search(r"\bis_(duplicated|take_last)\s*\(", cond):
                    raise TErr("translator cannot parse jomini_derive/src/lib.rs: builder_fields: condition `%s`" % cond.strip())
                continue
            w, pos = wc
            if w in env:
                raise TErr("translator cannot parse jomini_derive/src/lib.rs: builder_fields: %s tested twice" % w)
            if els is None:
                raise TErr("translator cannot parse jomini_derive/src/lib.rs: builder_fields: `if %s` without else" % cond.strip())
            val = env_val[w]
            branch = then if val == pos else els
            return walk(branch, dict(env, **{w: val}), where)
        if re.search(r"\bis_(duplicated|take_last)\s*\(", t) and len(env) < 2 and re.search(r"\bmatch\b[^{]*\bis_(duplicated|take_last)\s*\(", t):
            raise TErr("translator cannot parse jomini_derive/src/lib.rs: builder_fields: walkers tested by a `match`")
        return leaf(t, where), list(env)

    res, orders = {}, {}
    for d in (True, False):
        for l in (True, False):
            env_val = {"is_duplicated": d, "is_take_last": l}
            where = "duplicated=%s take_last=%s" % (d, l)
            res[(d, l)], orders[(d, l)] = walk(text, {}, where)
    if not any("is_duplicated" in o for o in orders.values()):
        raise TErr("translator cannot parse jomini_derive/src/lib.rs: builder_fields never tests is_duplicated")
    return res


def match_arms(text, scrutinee_re, item):
    m = need(re.search(r"\bmatch\s+%s\s*\{" % scrutinee_re, text), item)
    e = balanced(text, m.end() - 1, item)
    body = text[m.end():e - 1]
    heads = list(re.finditer(r"DefaultFallback::(\w+)\s*(?:\([^)]*\))?\s*=>", body))
    out = {}
    for k, h in enumerate(heads):
        arm = body[h.end():heads[k + 1].start() if k + 1 < len(heads) else len(body)]
        if h.group(1) in out:
            raise TErr("translator cannot parse jomini_derive/src/lib.rs: %s: arm %s twice" % (item, h.group(1)))
        out[h.group(1)] = arm
    if re.search(r"(?<![\w:])_\s*=>", body):
        raise TErr("translator cannot parse jomini_derive/src/lib.rs: %s: wildcard arm" % item)
    return out


def extract_action(arm, where):
    a = [k for k, pat in (("DvUnwrapOrElse", "unwrap_or_else("), ("DvUnwrapOrDefault", "unwrap_or_default("), ("DvMissingField", "missing_field"))
         if pat in re.sub(r"\s+", "", arm)]
    if len(a) != 1:
        raise TErr("translator cannot parse jomini_derive/src/lib.rs: field_extract: the code generated for DefaultFallback::%s" % where)
    return a[0]


VISIT = {"visit_str": "DvVisitStr", "visit_bytes": "DvVisitBytes", "visit_u8": "DvVisitU8", "visit_u16": "DvVisitU16",
         "visit_u32": "DvVisitU32", "visit_u64": "DvVisitU64", "visit_i8": "DvVisitI8", "visit_i16": "DvVisitI16",
         "visit_i32": "DvVisitI32", "visit_i64": "DvVisitI64"}

PRELUDE = """(* jomini_derive/src/lib.rs: structural facts of the proc-macro, read off the source by tools/derive_facts.py
   (consumed by DeriveCode.code_facts) *)
Inductive dv_scan := DvScanAll | DvScanFirst.
Inductive dv_pick := DvPickFirst | DvPickLast.
Inductive dv_opt_test := DvOptAnySegment | DvOptSingleSegment | DvOptLastSegment.
Inductive dv_act := DvPush | DvOverwrite | DvDupError.
Inductive dv_extract := DvUnwrapOrElse | DvUnwrapOrDefault | DvMissingField.
Inductive dv_visit := DvVisitStr | DvVisitBytes | DvVisitU8 | DvVisitU16 | DvVisitU32 | DvVisitU64 | DvVisitI8 | DvVisitI16 | DvVisitI32 | DvVisitI64 | DvVisitOther.
Inductive dv_hint := DvHintU16 | DvHintIdentifier | DvHintOther.
Inductive dv_arm := DvArmAliasElseName | DvArmName."""


def facts(src):
    lib = Lib(src)
    F = []
    add = lambda name, ty, val: F.append((name, ty, val))
    b = lambda x: "true" if x else "false"

    # ---- the six walkers
    for ident, walker in WALKERS:
        add("dv_scan_" + ident, "dv_scan", scan_mode(lib, walker))
    presence_test(lib, "is_duplicated", "duplicated")
    presence_test(lib, "is_take_last", "take_last")
    add("dv_pick_alias", "dv_pick", pick_mode(lib, "alias", "alias"))
    add("dv_pick_token", "dv_pick", pick_mode(lib, "binary_token", "token"))
    add("dv_pick_default", "dv_pick", pick_mode(lib, "can_default", "default"))
    before, test = option_facts(lib)
    add("dv_default_before_option", "bool", b(before))
    add("dv_option_test", "dv_opt_test", test)

    # ---- derive(): the blocks are found through the places where the generated code splices them in
    need("derive" in lib.fns, "fn derive")
    dbody = lib.fns["derive"][1]
    stop = [w for _, w in WALKERS] + ["ungroup", "derive"]

    def block(var, item):
        return lib.closure(let_block(dbody, var, item), stop)[0]

    m = need(re.search(r"match\s+__key\s*\{\s*#\(\s*#(\w+)\s*\)\s*,\s*\*\s*,\s*_\s*=>\s*\{([^{}]*)\}", dbody), "visit_map: `match __key { #(#arms),* , _ => {..} }`")
    ignore_consumes = bool(re.search(r"next_value\s*::\s*<\s*(::)?serde::de::IgnoredAny\s*>", m.group(2)))
    tbl = builder_table(block(m.group(1), "builder_fields"))
    add("dv_builder_duplicated", "dv_act", tbl[(True, False)])
    add("dv_builder_take_last", "dv_act", tbl[(False, True)])
    add("dv_builder_both", "dv_act", tbl[(True, True)])
    add("dv_builder_plain", "dv_act", tbl[(False, False)])
    add("dv_unknown_value_consumed", "bool", b(ignore_consumes))

    m = need(re.search(r"#\(\s*#(\w+)\s*\)\s*;\s*\*\s*;?\s*Ok\s*\(\s*#\w+\s*\{", dbody), "visit_map: `#(#extract);* ; Ok(#struct { .. })`")
    ex = block(m.group(1), "field_extract")
    if re.search(r"\.\s*filter\s*\(\s*\|\s*(\w+)\s*\|\s*!\s*is_duplicated\s*\(\s*&?\1\s*\)\s*\)", ex):
        skips = True
    elif "is_duplicated" not in ex:
        skips = False
    else:
        raise TErr("translator cannot parse jomini_derive/src/lib.rs: field_extract: how duplicated fields are left out")
    add("dv_extract_skips_duplicated", "bool", b(skips))
    arms = match_arms(ex, r"can_default\s*\(\s*&?\w+\s*\)", "field_extract: match can_default(f)")
    if sorted(arms) != ["No", "Path", "Yes"]:
        raise TErr("translator cannot parse jomini_derive/src/lib.rs: field_extract: arms %s" % sorted(arms))
    add("dv_extract_path", "dv_extract", extract_action(arms["Path"], "Path"))
    add("dv_extract_yes", "dv_extract", extract_action(arms["Yes"], "Yes"))
    add("dv_extract_no", "dv_extract", extract_action(arms["No"], "No"))

    # ---- __FieldVisitor
    m = need(re.search(r"\bfor\s+__FieldVisitor\s*\{", dbody), "impl Visitor for __FieldVisitor")
    fv = dbody[m.end():balanced(dbody, m.end() - 1, "impl Visitor for __FieldVisitor") - 1]
    methods = re.findall(r"\bfn\s+(visit_\w+)", fv)
    need(methods, "__FieldVisitor: visit methods")
    add("dv_field_visitor_methods", "list dv_visit", "[" + "; ".join(VISIT.get(x, "DvVisitOther") for x in methods) + "]")
    m = need(re.search(r"enum\s+__Field\s*\{\s*#\(\s*#\w+\s*\)\s*,\s*\*\s*,\s*(\w+)\s*,?\s*\}", dbody), "enum __Field { #(#fields),* , __ignore }")
    ignore_variant = m.group(1)

    def visit_fn(name, sep_re):
        mm = re.search(r"\bfn\s+%s\b" % name, fv)
        if not mm:
            return None, None
        k = fv.index("{", fv.index(")", mm.end()))
        body = fv[k:balanced(fv, k, name)]
        m2 = need(re.search(r"match\s+__value\s*\{\s*#\(\s*#(\w+)\s*\)\s*%s\s*_\s*=>\s*(.*?)\s*,?\s*\}" % sep_re, body, re.S), "__FieldVisitor::%s: `match __value { #(#arms).. _ => .. }`" % name)
        return m2.group(1), bool(re.fullmatch(r"Ok\s*\(\s*__Field::%s\s*\)" % re.escape(ignore_variant), m2.group(2).strip()))

    svar, sign = visit_fn("visit_str", r",\s*\*\s*,")
    tvar, tign = visit_fn("visit_u16", r"\*")
    need(svar, "__FieldVisitor::visit_str")
    add("dv_str_fallthrough_ignore", "bool", b(sign))
    add("dv_u16_fallthrough_ignore", "bool", b(bool(tign)))
    sarm = block(svar, "field_enum_match")
    ma = re.search(r"\blet\s+(\w+)\s*=\s*alias\s*\(\s*&?\w+\s*\)\s*\.\s*unwrap_or(_else)?\s*\(", sarm)
    if ma:
        # the arm must be exactly `#<that string> => Ok(#field)`: no second pattern beside it
        need(re.search(r"quote!\s*\{\s*#%s\s*=>\s*Ok\s*\(\s*#\w+\s*\)\s*,?\s*\}" % re.escape(ma.group(1)), sarm),
             "field_enum_match: the arm `#%s => Ok(#field)`" % ma.group(1))
        arm = "DvArmAliasElseName"
    elif not re.search(r"(?<![\w.])alias\s*\(", sarm):
        arm = "DvArmName"
    else:
        raise TErr("translator cannot parse jomini_derive/src/lib.rs: field_enum_match: how alias(f) and the field name form the match arm")
    add("dv_str_arm", "dv_arm", arm)
    if tvar is not None:
        need(re.search(r"(?<![\w.])binary_token\s*\(", block(tvar, "field_enum_token_match")) or re.search(r"filter_map\s*\(\s*binary_token\s*\)", block(tvar, "field_enum_token_match")),
             "field_enum_token_match: binary_token(f)")

    # ---- key hint and the all-or-nothing rule
    m = need(re.search(r"\bfor\s+__Field\s*\{", dbody), "impl Deserialize for __Field")
    fd = dbody[m.end():balanced(dbody, m.end() - 1, "impl Deserialize for __Field") - 1]
    m = need(re.search(r"\{\s*#(\w+)\s*\}", fd), "__Field::deserialize: `{ #request }`")
    req = let_block(dbody, m.group(1), "deser_request")

    def hint_of(t):
        hs = set(re.findall(r"\bdeserialize_(\w+)\s*\(", t))
        if len(hs) != 1:
            raise TErr("translator cannot parse jomini_derive/src/lib.rs: deser_request: key hint (found %s)" % sorted(hs))
        h = hs.pop()
        return {"u16": "DvHintU16", "identifier": "DvHintIdentifier"}.get(h, "DvHintOther")

    count_vars = []
    for mm in re.finditer(r"\blet\s+(?:mut\s+)?(\w+)\s*(?::[^=;]+)?=(?!=)", dbody):
        rest = dbody[mm.end():]
        init = rest[:first_semicolon(rest)].strip()
        if "binary_token" in init and re.search(r"\.\s*count\s*\(\s*\)$", init):
            count_vars.append(mm.group(1))
    ifs = find_ifs(req)[:1]
    if not ifs:
        add("dv_hint_with_tokens", "dv_hint", hint_of(req))
        add("dv_hint_without_tokens", "dv_hint", hint_of(req))
    else:
        _s, cond, then, els, _e = ifs[0]
        c = re.sub(r"\s+", "", cond)
        need(els is not None, "deser_request: else branch")
        pos = [v for v in count_vars if c in (v + ">0", v + "!=0", v + ">=1", "0<" + v, "0!=" + v)]
        neg = [v for v in count_vars if c in (v + "==0", "0==" + v, v + "<1")]
        if pos:
            add("dv_hint_with_tokens", "dv_hint", hint_of(then))
            add("dv_hint_without_tokens", "dv_hint", hint_of(els))
        elif neg:
            add("dv_hint_with_tokens", "dv_hint", hint_of(els))
            add("dv_hint_without_tokens", "dv_hint", hint_of(then))
        else:
            raise TErr("translator cannot parse jomini_derive/src/lib.rs: deser_request: condition `%s` (token count variables: %s)" % (cond, count_vars))
    rejected = None
    for (_s, cond, then, els, _e) in find_ifs(dbody):
        if "panic!" not in then or not any(re.search(r"\b%s\b" % re.escape(v), cond) for v in count_vars):
            continue
        c = re.sub(r"\s+", "", cond)
        ok = False
        for v in count_vars:
            lo = [v + ">0", v + "!=0", "0<" + v, v + ">=1"]
            parts = c.split("&&")
            if len(parts) == 2 and any(p in lo for p in parts):
                other = [p for p in parts if p not in lo]
                if len(other) == 1 and re.fullmatch(re.escape(v) + r"<[\w.]+\.len\(\)|[\w.]+\.len\(\)>" + re.escape(v) + r"|" + re.escape(v) + r"!=[\w.]+\.len\(\)", other[0]):
                    ok = True
        if not ok:
            raise TErr("translator cannot parse jomini_derive/src/lib.rs: the all-or-nothing token rule: condition `%s`" % cond)
        rejected = True
    add("dv_partial_tokens_rejected", "bool", b(bool(rejected)))
    return F


def emit(repo):
    src = open(os.path.join(repo, "jomini_derive", "src", "lib.rs")).read()
    lines = [PRELUDE]
    for name, ty, val in facts(src):
        lines.append("Definition %s : %s := %s." % (name, ty, val))
    lines.append("")
    return lines


if __name__ == "__main__":
    import sys
    try:
        print("\n".join(emit(sys.argv[1] if len(sys.argv) > 1 else "/repo")))
    except TErr as e:
        print(str(e), file=sys.stderr)
        sys.exit(2)
