#!/usr/bin/env python3
"""lead-side helper: record in seeded/<ID>_<n>/meta.json what was confirmed and which checks detected it,
then remove the scratch worktree.   usage: tools/finish_mutant.py <ID> <n> <check>=<result> ... [--keep]"""
import json, sys, subprocess, os
ROOT = os.path.dirname(os.path.dirname(os.path.abspath(__file__)))
a = [x for x in sys.argv[1:] if x != "--keep"]
pid, n, res = a[0], a[1], dict(x.split("=", 1) for x in a[2:])
p = os.path.join(ROOT, "seeded", f"{pid}_{n}", "meta.json")
m = json.load(open(p))
m["breaks_property"] = pid
m["confirmed_by_lead"] = {"how": f"tools/confirm_mutant.sh in the scratch worktree /tmp/mut_{pid}: clean tree demo passes; with patch.diff applied the unedited suite passes, demo fails", "log": "see seeded/CONFIRM.log"}
m["detected_by"] = res
m["ran"] = f"tools/mutant.py seeded/{pid}_{n} " + " ".join(res) + " (git -C /repo apply; ./check ...; git -C /repo checkout -- .)"
json.dump(m, open(p, "w"), indent=1)
if "--keep" not in sys.argv:
    subprocess.run(["git", "-C", "/repo", "worktree", "remove", "--force", f"/tmp/mut_{pid}"])
    subprocess.run(["git", "-C", "/repo", "branch", "-D", "-q", f"mut-{pid}"])
