#!/usr/bin/env python3
"""Self-test helper (not a MANIFEST command): run every seeded change against the check of the property it breaks, in
parallel lanes.  Each lane is a scratch copy of /verif plus its own scratch git worktree of /repo (VERIF_REPO), so /repo
itself is never touched.  Results go to seeded/SWEEP.json.   usage: tools/mutant_sweep.py [lanes=4] [ids...]"""
import os, sys, json, subprocess, shutil, glob, time
from concurrent.futures import ThreadPoolExecutor
ROOT = os.path.dirname(os.path.dirname(os.path.abspath(__file__)))
BASE = "/tmp/sweep"


def sh(cmd, **kw):
    return subprocess.run(cmd, stdout=subprocess.PIPE, stderr=subprocess.STDOUT, **kw)


def lane_setup(k):
    d = "%s/lane%d" % (BASE, k)
    os.makedirs(d, exist_ok=True)
    sh(["rsync", "-a", "--delete", "--exclude", ".git", "--exclude", "replays", ROOT + "/", d + "/verif/"])
    if not os.path.exists(d + "/repo"):
        sh(["git", "-C", "/repo", "worktree", "add", "--detach", "-f", d + "/repo", "HEAD"])
    sh(["git", "-C", d + "/repo", "checkout", "--detach", "-q", sh(["git", "-C", "/repo", "rev-parse", "HEAD"]).stdout.decode().strip()])
    sh(["git", "-C", d + "/repo", "checkout", "--", "."])
    return d


def run_one(lane, sid):
    d = "%s/lane%d" % (BASE, lane)
    meta = json.load(open(os.path.join(ROOT, "seeded", sid, "meta.json")))
    pid = os.environ.get("SWEEP_PROP") or meta.get("breaks_property") or sid.split("_")[0]
    patch = os.path.join(ROOT, "seeded", sid, "patch.diff")
    r = sh(["git", "-C", d + "/repo", "apply", patch])
    if r.returncode != 0:
        return sid, {"property": pid, "result": "patch does not apply", "detail": r.stdout.decode()[-300:]}
    t0 = time.time()
    try:
        r = sh([d + "/verif/check", pid], cwd=d + "/verif", env=dict(os.environ, VERIF_REPO=d + "/repo"), timeout=3000)
        out = r.stdout.decode()
        v = [l for l in out.split("\n") if l.startswith("VIOLATION")]
        res = {"property": pid, "exit": r.returncode, "violation": v[:1], "wall_s": round(time.time() - t0),
               "result": ("VIOLATION+replay" if v and "no-failing-input-found" not in v[0] else "VIOLATION no-failing-input-found" if v else "MISSED")}
    except subprocess.TimeoutExpired:
        res = {"property": pid, "result": "TIMEOUT"}
    finally:
        sh(["git", "-C", d + "/repo", "checkout", "--", "."])
        # a failed translation leaves the previous Tables.v in place: regenerate from the clean tree between changes
        sh(["python3", d + "/verif/tools/gen_tables.py", d + "/repo", d + "/verif/coq/theories/Tables.v"])
    return sid, res


def main():
    a = sys.argv[1:]
    lanes = int(a[0]) if a and a[0].isdigit() else 4
    ids = [x for x in a if not x.isdigit()] or sorted(os.path.basename(p) for p in glob.glob(os.path.join(ROOT, "seeded", "C??_*")))
    for k in range(lanes):
        lane_setup(k)
    queues = [ids[k::lanes] for k in range(lanes)]
    results = {}

    def work(k):
        for sid in queues[k]:
            s, r = run_one(k, sid)
            results[s] = r
            print(s, r.get("result"), r.get("violation", [""])[:1], flush=True)
    with ThreadPoolExecutor(max_workers=lanes) as ex:
        list(ex.map(work, range(lanes)))
    outp = os.path.join(ROOT, "seeded", "SWEEP.json")
    old = json.load(open(outp)) if os.path.exists(outp) else {}
    old.update(results)
    json.dump({"verif_commit": sh(["git", "-C", ROOT, "rev-parse", "--short", "HEAD"]).stdout.decode().strip(), **{k: old[k] for k in sorted(old) if k != "verif_commit"}}, open(outp, "w"), indent=1)
    for k in range(lanes):
        d = "%s/lane%d" % (BASE, k)
        sh(["git", "-C", "/repo", "worktree", "remove", "--force", d + "/repo"])
    shutil.rmtree(BASE, ignore_errors=True)
    missed = [s for s, r in results.items() if r.get("result") != "VIOLATION+replay"]
    print("swept %d, not VIOLATION+replay: %s" % (len(results), missed))


if __name__ == "__main__":
    main()
