#!/bin/sh
# lead-side helper: take a sub-agent's delivery /tmp/mut_<ID>/OUT/<n>, keep it as seeded/<ID>_<n>,
# confirm it in the scratch worktree and run the named checks against it.
# usage: tools/process_mutant.sh <ID> <n> <check> [<check> ...]
id=$1; n=$2; shift 2
root=$(cd "$(dirname "$0")/.." && pwd)
d=$root/seeded/${id}_$n
mkdir -p "$d"
cp /tmp/mut_$id/OUT/$n/patch.diff /tmp/mut_$id/OUT/$n/demo.rs /tmp/mut_$id/OUT/$n/meta.json "$d"/
( echo "== ${id}_$n $(date -u +%H:%M)"; sh "$root/tools/confirm_mutant.sh" /tmp/mut_$id "$d" ) | tee -a "$root/seeded/CONFIRM.log"
python3 "$root/tools/mutant.py" "seeded/${id}_$n" "$@" | grep -v '^{'
