#!/usr/bin/env python3
"""lead-side helper: resolve a merge conflict in known_findings.json by taking the union of both sides
(entries keyed by (property, key); 'fixed' lines keyed by text; entries deleted on our side since the merge base stay deleted)."""
import json, subprocess
def show(stage):
    return json.loads(subprocess.run(["git", "show", ":%d:known_findings.json" % stage], stdout=subprocess.PIPE, check=True).stdout)
base, ours, theirs = show(1), show(2), show(3)
kb = {(k["property"], k["key"]) for k in base["known"]}
ko = {(k["property"], k["key"]) for k in ours["known"]}
kt = {(k["property"], k["key"]) for k in theirs["known"]}
out = [k for k in ours["known"] if (k["property"], k["key"]) in kt or (k["property"], k["key"]) not in kb]  # drop what theirs deleted
for k in theirs["known"]:
    key = (k["property"], k["key"])
    if key not in ko and key not in kb:
        out.append(k)
fixed = list(ours["fixed"]) + [f for f in theirs["fixed"] if f not in ours["fixed"]]
json.dump({"known": out, "fixed": fixed}, open("known_findings.json", "w"), indent=1, ensure_ascii=False)
print("known:", len(out), "fixed:", len(fixed))
