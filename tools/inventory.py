#!/usr/bin/env python3
"""Prints a markdown inventory of the pinned theorems per property (from coq/theories/Props/*.v)."""
import os, re, sys, glob
ROOT = os.path.dirname(os.path.dirname(os.path.abspath(__file__)))
sys.path.insert(0, os.path.join(ROOT, "tools"))
import vlib
for i in range(1, 21):
    pid = "C%02d" % i
    names = []
    for m in vlib.props_files(pid):
        txt = open(os.path.join(vlib.COQ, "theories", "Props", m + ".v")).read()
        txt = re.sub(r"\(\*.*?\*\)", "", txt, flags=re.S)
        for mm in re.finditer(r"^\s*Theorem\s+([A-Za-z0-9_']+)\s*:(.*?)\.\s*\n\s*Proof", txt, re.M | re.S):
            st = " ".join(mm.group(2).split())
            names.append((m, mm.group(1), st))
    print("**%s** — %d theorems: %s" % (pid, len(names), ", ".join("`%s`" % n for _, n, _ in names)))
    print()
