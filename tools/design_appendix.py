#!/usr/bin/env python3
"""Regenerates the machine-derived parts of DESIGN.md (between the AUTOGEN markers): theorem inventory per property,
seeded-change table, known findings, fix commits."""
import os, re, sys, json, glob, subprocess
ROOT = os.path.dirname(os.path.dirname(os.path.abspath(__file__)))
sys.path.insert(0, os.path.join(ROOT, "tools"))
import vlib

def inventory():
    out = ["### 11.4 Theorem inventory (generated from coq/theories/Props/*.v by tools/design_appendix.py)", ""]
    total = 0
    for i in range(1, 21):
        pid = "C%02d" % i
        names = []
        for m in vlib.props_files(pid):
            txt = open(os.path.join(vlib.COQ, "theories", "Props", m + ".v")).read()
            txt = re.sub(r"\(\*.*?\*\)", "", txt, flags=re.S)
            names += re.findall(r"^\s*Theorem\s+([A-Za-z0-9_']+)", txt, re.M)
        total += len(names)
        part = [n for n in names if n.endswith("_partial")]
        ref = [n for n in names if "refuted" in n]
        out.append("* **%s** (%d; %d `_partial`, %d `_refuted`/witness): %s" % (pid, len(names), len(part), len(ref), ", ".join("`%s`" % n for n in names)))
    out.append("")
    out.append("Total: %d pinned theorems.  Every one is closed by `exact <lemma>` (or an instance of one) and is followed by `Print Assumptions`; the check re-runs `Print Assumptions` on each and compares against the allow-list." % total)
    return "\n".join(out)

def mutants():
    out = ["### 11.5 Seeded changes (from fresh sub-agents that saw only the property text) and which checks catch them", ""]
    sw = {}
    try:
        sw = json.load(open(os.path.join(ROOT, "seeded", "SWEEP.json")))
    except Exception:
        pass
    if sw:
        res = {k: v for k, v in sw.items() if isinstance(v, dict)}
        good = sorted(k for k, v in res.items() if v.get("result") == "VIOLATION+replay")
        rest = sorted(k for k in res if k not in good)
        out += ["Last full sweep (`tools/mutant_sweep.py`: every change against the quick check of the property it breaks, in scratch copies, "
                "framework commit `%s`): %d of %d reported as `VIOLATION ... replay=` with a concrete failing input; others: %s." %
                (sw.get("verif_commit", "?"), len(good), len(res), ", ".join("%s (%s)" % (k, res[k].get("result")) for k in rest) or "none"),
                "A `MISSED` entry whose meta.json has a `status` is a change that a later `fix:` commit neutralised (it no longer breaks the property).", ""]
    out += ["| id | breaks | what it needs to manifest | detected by |", "|---|---|---|---|"]
    for d in sorted(glob.glob(os.path.join(ROOT, "seeded", "C*_*"))):
        try:
            m = json.load(open(os.path.join(d, "meta.json")))
        except Exception:
            continue
        det = "; ".join("%s: %s" % (k, v) for k, v in (m.get("detected_by") or {}).items())
        if m.get("status"):
            det += " — NOW: " + m["status"]
        if m.get("rebased"):
            det += " — patch rebased onto the repaired tree"
        need = (m.get("needs_to_manifest") or m.get("summary") or "")
        need = " ".join(str(need).split())[:260]
        out.append("| %s | %s | %s | %s |" % (os.path.basename(d), m.get("breaks_property", "?"), need.replace("|", "/"), det.replace("|", "/")))
    return "\n".join(out)

def findings():
    kf = json.load(open(os.path.join(ROOT, "known_findings.json")))
    out = ["### 11.6 Known findings (known_findings.json) and fix commits", "", "Known (recorded, printed as KNOWN-FINDING when re-found):", ""]
    for k in kf["known"]:
        out.append("* **%s** `%s` — %s" % (k["property"], k["key"], " ".join(k["what"].split())[:400]))
    out += ["", "Fixed (`fix:` commits in /repo; a fixed entry suppresses nothing):", ""]
    for f in kf["fixed"]:
        out.append("* " + " ".join(f.split())[:400])
    log = subprocess.run(["git", "-C", "/repo", "log", "--format=%h %s"], stdout=subprocess.PIPE).stdout.decode().strip().split("\n")
    out += ["", "/repo history on top of the pinned snapshot:", ""] + ["* `%s`" % l for l in log if not l.endswith("snapshot")]
    return "\n".join(out)

def main():
    p = os.path.join(ROOT, "DESIGN.md")
    s = open(p).read()
    body = "\n\n".join([inventory(), mutants(), findings()])
    b, e = "<!-- AUTOGEN BEGIN -->", "<!-- AUTOGEN END -->"
    if b in s:
        s = s[:s.index(b)] + b + "\n" + body + "\n" + e + s[s.index(e) + len(e):]
    else:
        s += "\n" + b + "\n" + body + "\n" + e + "\n"
    open(p, "w").write(s)
    print("DESIGN.md autogen sections updated")

main()
