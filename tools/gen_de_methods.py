"""Translator part (engineer w_fwd, wave 5): the per-deserializer METHOD TABLES of the serde `Deserializer` impls of
src/binary/de.rs and src/text/de.rs.

For every `impl .. de::Deserializer<'de> for X` it extracts
  * the explicitly implemented `deserialize_*` methods (also those produced by a local one-argument item macro such as
    `deserialize_scalar!(deserialize_i8);`),
  * the list inside `forward_to_deserialize_any! { .. }`,
  * for each explicit method a coarse classification of its body:
        kind 0 FORWARD   the body is exactly `self.deserialize_<m>(..)`                               fb = m
        kind 1 BASE      the body is exactly the deserializer's base routine `self.deser(visitor)` / `visit_key(..)`
        kind 2 DISPATCH  deserialize_any with its own dispatch on the token (visits = the direct visit calls in it)
        kind 3 DIRECT    visit call(s) on the visitor and no fall-back call (visits, skip)
        kind 4 COND      visit call(s) on the visitor that depend on the token, otherwise a fall-back call
                         (visits, skip, fb = method code | 254 for the base routine)
        kind 5 REFUSE    no visit, no fall-back: answers Err
    skip = the body calls a `skip*(` function (`skip_container`, `skip_value`: moves the reader over the value first).
Anything else (an unknown item in the impl, an unknown method / visit name, a new macro, two different fall-backs, a new
`Deserializer` impl, a missing one) raises TErr: the translator fails loudly instead of guessing.  Formatting (white
space, comments, attributes, `where` clauses, delimiters of the forward macro, order of items) is irrelevant.
"""
import re, os

METHODS = ["any", "bool", "i8", "i16", "i32", "i64", "i128", "u8", "u16", "u32", "u64", "u128", "f32", "f64", "char", "str", "string",
           "bytes", "byte_buf", "option", "unit", "unit_struct", "newtype_struct", "seq", "tuple", "tuple_struct", "map", "struct", "enum",
           "identifier", "ignored_any"]
VISITS = ["bool", "i8", "i16", "i32", "i64", "i128", "u8", "u16", "u32", "u64", "u128", "f32", "f64", "char", "str", "bytes", "none", "some",
          "unit", "newtype_struct", "seq", "map", "enum", "property_map"]
VISIT_ALIAS = {"borrowed_str": "str", "string": "str", "borrowed_bytes": "bytes", "byte_buf": "bytes"}
FB_BASE, FB_NONE = 254, 255
K_FORWARD, K_BASE, K_DISPATCH, K_DIRECT, K_COND, K_REFUSE = range(6)

# (file, reference kind, type identifier) -> deserializer code of coq/theories/DeMethods.v
DESERIALIZERS = {
    ("binary", "&mut", "BinaryReaderDeserializer"): 0,
    ("binary", "", "BinaryReaderTokenDeserializer"): 1,
    ("binary", "&mut", "OndemandBinaryDeserializer"): 2,
    ("binary", "", "OndemandTokenDeserializer"): 3,
    ("binary", "&", "BinaryDeserializer"): 4,
    ("binary", "", "KeyDeserializer"): 5,
    ("binary", "", "ValueDeserializer"): 6,
    ("text", "&mut", "TextReaderDeserializer"): 10,
    ("text", "", "TextReaderTokenDeserializer"): 11,
    ("text", "&", "TextDeserializer"): 12,
    ("text", "", "ValueDeserializer"): 13,
    ("text", "", "StaticDeserializer"): 14,
    ("text", "", "OperatorDeserializer"): 15,
}
# macros that may occur inside a method body without changing its class
HARMLESS_MACROS = {"matches", "format", "unreachable", "debug_assert", "assert", "vec", "panic", "addr_of"}


def strip_comments(src):
    """comments -> one space; string / char literals kept"""
    out, j, n = [], 0, len(src)
    while j < n:
        c = src[j]
        if src.startswith("//", j):
            k = src.find("\n", j)
            j = n if k < 0 else k
            out.append(" ")
            continue
        if src.startswith("/*", j):
            k = src.find("*/", j + 2)
            j = n if k < 0 else k + 2
            out.append(" ")
            continue
        if c == '"':
            k = j + 1
            while k < n and src[k] != '"':
                k += 2 if src[k] == "\\" else 1
            out.append(src[j:k + 1])
            j = k + 1
            continue
        if c == "'":
            mm = re.match(r"'(\\x[0-9a-fA-F]{2}|\\u\{[0-9a-fA-F]+\}|\\.|[^\\'])'", src[j:])
            if mm:
                out.append(mm.group(0))
                j += mm.end()
                continue
        out.append(c)
        j += 1
    return "".join(out)


def matching(src, i, TErr, item):
    """index of the bracket closing the one at src[i] (comments already stripped; strings skipped)"""
    op = src[i]
    cl = {"{": "}", "(": ")", "[": "]"}[op]
    depth, j, n = 0, i, len(src)
    while j < n:
        c = src[j]
        if c == '"':
            j += 1
            while j < n and src[j] != '"':
                j += 2 if src[j] == "\\" else 1
            j += 1
            continue
        if c == "'":
            mm = re.match(r"'(\\x[0-9a-fA-F]{2}|\\u\{[0-9a-fA-F]+\}|\\.|[^\\'])'", src[j:])
            if mm:
                j += mm.end()
                continue
        if c == op:
            depth += 1
        elif c == cl:
            depth -= 1
            if depth == 0:
                return j
        j += 1
    raise TErr("translator cannot parse %s (unbalanced %s)" % (item, op))


def item_macros(src, TErr, fname):
    """local `macro_rules! name { ($x:ident) => { fn $x<V>(self, visitor: V) .. { BODY } }; }`: (position, name, body)"""
    res = []
    for m in re.finditer(r"macro_rules!\s*(\w+)\s*\{", src):
        end = matching(src, m.end() - 1, TErr, "%s:macro_rules! %s" % (fname, m.group(1)))
        res.append((m.start(), m.group(1), src[m.end():end]))
    return res


def split_args(s):
    out, depth, cur = [], 0, ""
    for c in s:
        if c in "(<[":
            depth += 1
        elif c in ")>]":
            depth -= 1
        if c == "," and depth == 0:
            out.append(cur.strip())
            cur = ""
        else:
            cur += c
    if cur.strip():
        out.append(cur.strip())
    return out


def classify(name, args, body, TErr, item):
    """-> (kind, visits, skip, fb)"""
    if not args or not re.fullmatch(r"(mut\s+)?self", args[0]):
        raise TErr("translator cannot parse %s (first parameter is not self)" % item)
    vis = [a.split(":")[0].strip() for a in args[1:] if re.fullmatch(r"\w+\s*:\s*V", a)]
    if len(vis) != 1:
        raise TErr("translator cannot parse %s (no single `visitor: V` parameter)" % item)
    vname = vis[0]
    flat = re.sub(r"\s+", " ", body).strip()
    for mac in re.findall(r"\b(\w+)!\s*[\(\[\{]", flat):
        if mac in HARMLESS_MACROS or mac == "visit_str" or (name == "any" and mac == "deserialize_any_value"):
            continue
        raise TErr("translator cannot parse %s (macro %s! in the body)" % (item, mac))
    fwd = []
    for x in re.findall(r"\bself\s*\.\s*deserialize_(\w+)\s*\(", flat):
        if x not in METHODS:
            raise TErr("translator cannot parse %s (forwards to unknown method deserialize_%s)" % (item, x))
        if x not in fwd:
            fwd.append(x)
    if re.search(r"\bDeserializer\s*::\s*deserialize_\w+\s*\(", flat):
        raise TErr("translator cannot parse %s (path call of a deserialize method)" % item)
    base = bool(re.search(r"\bself\s*\.\s*deser\s*\(|\bvisit_key\s*\(", flat))
    visits = []
    for x in re.findall(r"\b%s\s*\.\s*visit_(\w+)\s*\(" % re.escape(vname), flat):
        x = VISIT_ALIAS.get(x, x)
        if x not in VISITS:
            raise TErr("translator cannot parse %s (unknown visit_%s)" % (item, x))
        if x not in visits:
            visits.append(x)
    if re.search(r"\bvisit_str!\s*\(", flat) and "str" not in visits:
        visits.append("str")
    if '"_internal_jomini_property"' in flat:
        # visit_map that depends on the NAME of the struct (Property<T>), not on the token
        if name != "struct" or "map" not in visits:
            raise TErr("translator cannot parse %s (property name test outside deserialize_struct / without visit_map)" % item)
        visits = ["property_map" if v == "map" else v for v in visits]
    # the visitor handed to anything else than a visit call / a fall-back call: cannot be classified
    uses = len(re.findall(r"\b%s\b" % re.escape(vname), flat))
    accounted = (len(re.findall(r"\b%s\s*\.\s*visit_\w+\s*\(" % re.escape(vname), flat))
                 + len(re.findall(r"\bself\s*\.\s*deserialize_\w+\s*\((?:[^()]*,\s*)?%s\s*\)" % re.escape(vname), flat))
                 + len(re.findall(r"\bself\s*\.\s*deser\s*\(\s*%s\s*\)" % re.escape(vname), flat))
                 + len(re.findall(r"\bvisit_key\s*\([^()]*,\s*%s\s*\)" % re.escape(vname), flat))
                 + len(re.findall(r"\bvisit_str!\s*\([^;]*?,\s*%s\s*\)" % re.escape(vname), flat))
                 + len(re.findall(r"\bdeserialize_any_value!\s*\([^;]*?,\s*%s\s*\)" % re.escape(vname), flat)))
    if uses != accounted:
        raise TErr("translator cannot parse %s (the visitor is used %d times, %d of them in visit / fall-back calls)" % (item, uses, accounted))
    skip = bool(re.search(r"\bskip\w*\s*\(", flat))
    pure_fwd = re.fullmatch(r"(?:return\s+)?self\s*\.\s*deserialize_(\w+)\s*\([^()]*\)\s*;?", flat)
    pure_base = re.fullmatch(r"(?:return\s+)?(?:self\s*\.\s*deser|visit_key)\s*\([^()]*\)\s*;?", flat)
    if pure_fwd:
        if pure_fwd.group(1) == name:
            raise TErr("translator cannot parse %s (forwards to itself)" % item)
        return (K_FORWARD, [], False, METHODS.index(pure_fwd.group(1)))
    if pure_base:
        return (K_BASE, [], False, FB_NONE)
    if name == "any":
        if not visits and not fwd and not base:
            if not re.search(r"\bErr\s*\(", flat):
                raise TErr("translator cannot parse %s (neither visit, fall-back nor Err)" % item)
            return (K_REFUSE, [], False, FB_NONE)
        return (K_DISPATCH, visits, skip, FB_BASE if base else FB_NONE)
    fbs = [METHODS.index(x) for x in fwd] + ([FB_BASE] if base else [])
    if len(fbs) > 1:
        raise TErr("translator cannot parse %s (two different fall-backs: %s)" % (item, fbs))
    if not visits and not fbs:
        if not re.search(r"\bErr\s*\(", flat):
            raise TErr("translator cannot parse %s (neither visit, fall-back nor Err)" % item)
        return (K_REFUSE, [], False, FB_NONE)
    if not visits:
        # a fall-back call wrapped in something: not a pure forward
        raise TErr("translator cannot parse %s (a fall-back call that is not the whole body, and no visit)" % item)
    if not fbs:
        return (K_DIRECT, visits, skip, FB_NONE)
    return (K_COND, visits, skip, fbs[0])


def parse_impl(src, start, macros, TErr, item):
    """src[start] is the `{` of the impl.  -> (explicit: {name: class}, forwarded: [names])"""
    end = matching(src, start, TErr, item)
    body = src[start + 1:end]
    i, n = 0, len(body)
    explicit, forwarded, nfw = {}, [], 0

    def add(name, args, fbody):
        if not name.startswith("deserialize_") or name[len("deserialize_"):] not in METHODS:
            raise TErr("translator cannot parse %s (unexpected method %s)" % (item, name))
        short = name[len("deserialize_"):]
        if short in explicit:
            raise TErr("translator cannot parse %s (method %s twice)" % (item, name))
        explicit[short] = classify(short, args, fbody, TErr, "%s::%s" % (item, name))

    while i < n:
        m = re.compile(r"\s+").match(body, i)
        if m:
            i = m.end()
            continue
        m = re.compile(r"#\s*\[").match(body, i)
        if m:
            i = matching(body, m.end() - 1, TErr, item + " attribute") + 1
            continue
        m = re.compile(r"type\s+Error\s*=\s*[\w:]+\s*;").match(body, i)
        if m:
            i = m.end()
            continue
        m = re.compile(r"fn\s+(\w+)\s*(?:<[^>(]*>)?\s*\(").match(body, i)
        if m:
            pe = matching(body, m.end() - 1, TErr, item + " fn " + m.group(1))
            args = split_args(body[m.end():pe])
            b0 = body.find("{", pe)
            semi = body.find(";", pe)
            if b0 < 0 or (0 <= semi < b0):
                raise TErr("translator cannot parse %s (fn %s without a body)" % (item, m.group(1)))
            be = matching(body, b0, TErr, item + " fn " + m.group(1))
            add(m.group(1), args, body[b0 + 1:be])
            i = be + 1
            continue
        m = re.compile(r"(?:(?:::)?serde\s*::\s*)?forward_to_deserialize_any!\s*([\{\(\[])").match(body, i)
        if m:
            fe = matching(body, m.end() - 1, TErr, item + " forward_to_deserialize_any!")
            words = body[m.end():fe].split()
            if any(w.startswith("<") for w in words):
                raise TErr("translator cannot parse %s (forward_to_deserialize_any! with explicit generics)" % item)
            for w in words:
                if w not in METHODS or w == "any":
                    raise TErr("translator cannot parse %s (forward_to_deserialize_any! lists unknown method %s)" % (item, w))
                if w in forwarded:
                    raise TErr("translator cannot parse %s (forward_to_deserialize_any! lists %s twice)" % (item, w))
                forwarded.append(w)
            nfw += 1
            i = fe + 1
            mm = re.compile(r"\s*;").match(body, i)
            if mm:
                i = mm.end()
            continue
        m = re.compile(r"(\w+)!\s*\(\s*(\w+)\s*\)\s*;").match(body, i)
        if m:
            # a local item macro with one identifier argument: the nearest definition before the impl
            defs = [d for d in macros if d[1] == m.group(1) and d[0] < start]
            if not defs:
                raise TErr("translator cannot parse %s (item macro %s! has no local definition)" % (item, m.group(1)))
            mb = defs[-1][2]
            mh = re.search(r"\(\s*\$(\w+)\s*:\s*ident\s*\)\s*=>\s*\{", mb)
            if not mh:
                raise TErr("translator cannot parse %s (item macro %s!: pattern is not one identifier)" % (item, m.group(1)))
            ae = matching(mb, mh.end() - 1, TErr, item + " macro arm")
            arm = mb[mh.end():ae]
            fm = re.search(r"fn\s+\$%s\s*(?:<[^>(]*>)?\s*\(" % mh.group(1), arm)
            if not fm or len(re.findall(r"\bfn\b", arm)) != 1:
                raise TErr("translator cannot parse %s (item macro %s! does not define exactly one fn $%s)" % (item, m.group(1), mh.group(1)))
            pe = matching(arm, fm.end() - 1, TErr, item + " macro fn")
            b0 = arm.find("{", pe)
            be = matching(arm, b0, TErr, item + " macro fn body")
            add(m.group(2), split_args(arm[fm.end():pe]), arm[b0 + 1:be])
            i = m.end()
            continue
        raise TErr("translator cannot parse %s (unexpected item at `%s`)" % (item, re.sub(r"\s+", " ", body[i:i + 60])))
    if nfw > 1:
        raise TErr("translator cannot parse %s (more than one forward_to_deserialize_any!)" % item)
    both = [w for w in forwarded if w in explicit]
    if both:
        raise TErr("translator cannot parse %s (%s both explicit and forwarded)" % (item, both))
    if "any" not in explicit:
        raise TErr("translator cannot parse %s (no deserialize_any)" % item)
    return explicit, forwarded


def tables(repo, TErr, strip_tests):
    res = {}
    for fam, path in (("binary", "src/binary/de.rs"), ("text", "src/text/de.rs")):
        src = strip_comments(strip_tests(open(os.path.join(repo, path)).read()))
        macros = item_macros(src, TErr, path)
        for m in re.finditer(r"\bimpl\b[^{;]*?\bDeserializer\s*<\s*'de\s*>\s+for\s+([^{]*?)\s*(?:\bwhere\b[^{]*)?\{", src, re.S):
            ty = re.sub(r"\s+", " ", m.group(1)).strip()
            mm = re.fullmatch(r"(&\s*(?:'\w+\s+)?(mut\s+)?)?(\w+)\s*(<.*>)?", ty, re.S)
            if not mm:
                raise TErr("translator cannot parse %s: Deserializer impl for `%s`" % (path, ty))
            ref = "" if not mm.group(1) else ("&mut" if mm.group(2) else "&")
            key = (fam, ref, mm.group(3))
            if key not in DESERIALIZERS:
                raise TErr("translator cannot parse %s: a Deserializer impl the model does not know (`%s`)" % (path, ty))
            code = DESERIALIZERS[key]
            if code in res:
                raise TErr("translator cannot parse %s: two Deserializer impls for `%s`" % (path, ty))
            res[code] = (ty, path) + parse_impl(src, m.end() - 1, macros, TErr, "%s:impl Deserializer for %s" % (path, mm.group(3)))
    missing = sorted(set(DESERIALIZERS.values()) - set(res))
    if missing:
        raise TErr("translator cannot parse de.rs: Deserializer impls not found (codes %s)" % missing)
    return res


def emit_tables(repo, emit, TErr, strip_tests):
    res = tables(repo, TErr, strip_tests)
    emit("(* serde Deserializer impls of src/binary/de.rs and src/text/de.rs (tools/gen_de_methods.py): per deserializer the")
    emit("   explicitly implemented deserialize_* methods with the class of their body, and the forward_to_deserialize_any! list.")
    emit("   methods: %s *)" % " ".join("%d=%s" % (i, x) for i, x in enumerate(METHODS)))
    emit("(* visits: %s ; kinds: 0 forward 1 base 2 dispatch 3 direct 4 cond 5 refuse ; fb: method | 254 base routine | 255 none *)"
         % " ".join("%d=%s" % (i, x) for i, x in enumerate(VISITS)))
    emit("Definition de_method_count : N := %d." % len(METHODS))
    rows = []
    for code in sorted(res):
        ty, path, explicit, forwarded = res[code]
        ents = []
        for name in METHODS:
            if name in explicit:
                k, vs, sk, fb = explicit[name]
                ents.append("(%d, %d, [%s], %s, %d)" % (METHODS.index(name), k, "; ".join(str(VISITS.index(v)) for v in vs), "true" if sk else "false", fb))
        emit("(* %d = %s (%s) *)" % (code, ty, path))
        emit("Definition de_explicit_%d : list (N * N * list N * bool * N) :=\n  [%s]." % (code, ";\n   ".join(ents)))
        emit("Definition de_forwarded_%d : list N := [%s]." % (code, "; ".join(str(METHODS.index(w)) for w in forwarded)))
        rows.append("(%d, (de_explicit_%d, de_forwarded_%d))" % (code, code, code))
    emit("Definition de_tables : list (N * (list (N * N * list N * bool * N) * list N)) :=\n  [%s]." % ";\n   ".join(rows))
    emit("")
