#!/bin/sh
# Debug helper: show the goal state of a .v file (relative to coq/) after the given line.
# usage: coqgoal.sh theories/proofs/X.v LINE [max output lines]
root=$(cd "$(dirname "$0")/.." && pwd)
f=$1; n=$2
d=$root/.cache/dbg; mkdir -p "$d"
b=$(basename "$f" .v)
head -n "$n" "$root/coq/$f" > "$d/Dbg_$b.v"
echo "Show. " >> "$d/Dbg_$b.v"
cd "$d" && timeout 300 coqc -Q "$root/coq/theories" JV -noglob "Dbg_$b.v" 2>&1 | head -${3:-60}
