"""C18, size part (wave 6, s_c18): ladder streams -- ONE size dimension at a time on an otherwise small document.

Ladder 0 1 2 3 7 8 9 15 16 17 31 32 33 63 64 65 127 128 129 255 256 257 300 1023 1024 1025 4095 4096 4097 (65535 65536 65537) over
  fields    number of fields of the derived struct (N1 N2 N17 N33 N65 T33 T65 of harness/src/fam_derive3.rs): per field index
            "everything once", "everything but field i", "field i twice", "the required fields and field i"
  mult      occurrences of one field (duplicated / take_last / plain), contiguous and interleaved
  unknowns  number of unknown fields around / between the known ones; the two occurrences of a plain field that far apart
  depth     nesting depth of an unknown field's value (arrays, objects, mixed)
  keylen    alias lengths 1 .. 65535 (DLen), field names 1 .. 1025 (DNm); unknown keys one byte shorter / longer / different
  tokens    token ids over the u16 range as field keys (T65) and as unknown keys next to them (low byte / high byte / byte swap /
            sign bit neighbours); resolver ids over the range for a struct without tokens
  lists     1 .. 3 `#[jomini(..)]` lists on one field (DL3 DL3T), random documents
  nest      derived structs nested in themselves (DR DRT): chains through the optional / duplicated / take_last child
  values    length of a String field / of an unknown field's string, number of elements of a Vec field
Oracle of every case: the field semantics of the property text from the attribute table read off the source (C18_attrs.expected2) --
independent of the implementation.  Streams: sizes_paths (all seven deserializer paths, no model), sizes_model
(DeriveMacro.visit_attrs and DeriveCode.visit_raw, extracted), sizes_big (65535+ occurrences / unknowns: oracle only, the extracted
model is quadratic there).
"""
import sys
from props import dedoc as D
from props.dedoc import hx
from props import C18_sizes_gen as G

LAD = [0, 1, 2, 3, 7, 8, 9, 15, 16, 17, 31, 32, 33, 63, 64, 65, 127, 128, 129, 255, 256, 257, 300, 1023, 1024, 1025, 4095, 4096, 4097]
BIG = [65535, 65536, 65537]
DEPTHS = [1, 2, 3, 7, 8, 9, 15, 16, 17, 31, 32, 33, 63, 64, 65, 127, 128, 129, 130, 255, 256, 257, 300, 1023, 1024, 1025]
LEXEMES = {1, 3, 4, 0x0c, 0x0d, 0x0e, 0x0f, 0x14, 0x17, 0x167, 0x243, 0x29c, 0x317}
MODEL_MAX = 4200          # occurrences / unknowns up to which the extracted model runs as well
TPATHS = ["slice", "tape", "objreader", "reader"]
BPATHS = ["tape", "slice", "reader"]


class Acc:
    def __init__(self, ctx, C18, A):
        self.ctx, self.C18, self.A = ctx, C18, A
        self.T = A.tables()
        self.p, self.pm = [], []          # path cases and (expectation, dimension, path)
        self.m = []                       # model cases
        self.big, self.bigm = [], []
        self._attrs, self._raw = {}, {}

    def attrs(self, inst):
        if inst not in self._attrs:
            self._attrs[inst] = self.T.attrs_arg(inst)
            self._raw[inst] = self.T.raw_arg(inst)
        return self._attrs[inst], self._raw[inst]

    def add(self, dim, inst, fields, ids, rng, model=True, big=False, tpaths=TPATHS, bpaths=BPATHS, style=None, env=None, sched=None, text=True, binary=True, skip_unfit=False):
        A, ctx = self.A, self.ctx
        doc = {"t": "obj", "f": fields, "ghost": []}
        enc, fl, known, strat = env or A.env_of(rng, ids)
        res = D.resolver_spec(ids, known, rng.choice(["map", "lines"]))
        mt = D.max_token_len(doc, enc)
        Mt, Mb = A.mode("text", enc=enc), A.mode("bin", flavor=fl, strategy=strat, known=known, ids=ids)
        et, eb = A.exp_str(inst, doc, Mt), A.exp_str(inst, doc, Mb)
        if ("unfit" in et or "unfit" in eb) and skip_unfit:
            return          # a deliberately ill-typed value of the random generator that the specification does not rank
        if "unfit" in et or "unfit" in eb:
            raise RuntimeError("ladder document does not fit its struct: " + inst)
        ctx.count("sz_%s_docs" % dim)
        ctx.count("sz_expect_" + (et[:8] if et.startswith("ERR") else "value"))
        sc = sched or rng.choice(["-", "1*", "3,5*"])
        pc, pm = (self.big, self.bigm) if big else (self.p, self.pm)
        if text:
            txt = D.render_text(doc, rng, enc, style=style)
            for p in tpaths:
                pp = "reader:%d:%s" % (rng.choice([mt, 64 + mt, max(32768, mt + 1)]), sc) if p == "reader" else p
                pc.append("\t".join(["dw.text", pp, enc, inst, hx(txt)]))
                pm.append((et, dim, p))
        if binary:
            b = D.render_bin(doc, fl)
            for p in bpaths:
                pp = "reader:%d:%s" % (rng.choice([max(32, mt + 4), 64 + mt, max(32768, mt + 5)]), sc) if p == "reader" else p
                pc.append("\t".join(["dw.bin", pp, strat, res, fl, inst, hx(b)]))
                pm.append((eb, dim, "bin-" + p))
        if model and not big:
            at, raw = self.attrs(inst)
            kt, kb = A.model_kvs2(inst, doc, Mt), A.model_kvs2(inst, doc, Mb)
            dc = rng.random() < 0.5
            if text and kt is not None:
                self.m.append("\t".join(["dc.text.m" if dc else "dw.text.m", "slice", enc, inst, hx(txt), raw if dc else at, kt]))
            if binary and kb is not None:
                self.m.append("\t".join(["dw.bin.m" if dc else "dc.bin.m", "tape", strat, res, fl, inst, hx(b), at if dc else raw, kb]))

    def flush(self):
        ctx = self.ctx
        nt = lambda c, i: i.startswith("(struct")
        for stream, cases, meta in (("sizes_paths", self.p, self.pm), ("sizes_big", self.big, self.bigm)):
            impl, _ = ctx.correspond(stream, cases, nontrivial=nt, model=False)
            base = len(impl) - len(cases)
            for k, (exp, dim, p) in enumerate(meta):
                o = impl[base + k]
                if o != exp:
                    f = cases[k].split("\t")
                    ctx.fail("size-%s-%s" % (dim, p), "ladder `%s`: %s path on %s (%d bytes) returns %s, the field semantics of the attribute table read off the source say %s"
                             % (dim, p, f[-2], len(f[-1]) // 2, o[:200], exp[:200]), [cases[k]], [o], exp[:2000])
        ctx.correspond("sizes_model", self.m, nontrivial=nt)


# ------------------------------------------------------------------------------------------ document pieces
def val_j(rng, C18, sh, st, j):
    """the j-th value of a field: distinct per occurrence where the shape allows (order / last-ness is visible)"""
    k = sh[0] if isinstance(sh, tuple) else sh
    if k == "opt":
        return val_j(rng, C18, sh[1], st, j)
    if k in ("u", "i") and j < 2 ** min(sh[1] - 1, 31):
        return {"t": "int", "v": j, "b": D.int_btok(rng, j, False)}
    if k == "str":
        return {"t": "str", "v": "s%d" % j, "q": rng.random() < 0.3, "b": rng.choice(["Q", "U"])}
    return C18.gen_fit(rng, sh, st, 0.0)


def kf(rng, C18, S, f, st, j=None, kb=None, val=None):
    """an occurrence of the declared field f"""
    if val is None:
        val = C18.gen_fit(rng, f["sh"], st, 0.0) if j is None else val_j(rng, C18, f["sh"], st, j)
    kb = kb or rng.choice(["ID", "ID", "Q", "U"])
    fld = {"k": f["key"], "kq": rng.random() < 0.1, "kb": kb, "op": "=", "v": val}
    if kb == "ID":
        fld["kid"] = f["token"] if S[0]["token"] is not None else D.tok_id(rng, f["key"], st)
    return fld


def nest(kind, d, leaf=None):
    """a value nested d containers deep"""
    v = leaf or {"t": "int", "v": 1, "b": "I32"}
    for lvl in range(d):
        k = kind if kind != "mixed" else ("arr" if lvl % 2 else "obj")
        if k == "arr":
            v = {"t": "arr", "v": [v]}
        else:
            v = {"t": "obj", "f": [{"k": "a", "kq": False, "kb": "U", "op": "=", "v": v}], "ghost": []}
    return v


def uf(rng, S, st, key=None, val=None, kb=None, kid=None):
    """an unknown field"""
    keys = set(f["key"] for f in S)
    while key is None or key in keys:
        key = D.gen_ident(rng)
    if val is None:
        val = rng.choice([{"t": "int", "v": rng.randrange(100), "b": "I32"}, {"t": "str", "v": "x", "q": True, "b": "Q"}, {"t": "bool", "v": True},
                          {"t": "arr", "v": []}, nest("obj", 1), nest("arr", 2)])
    tokened = S[0]["token"] is not None
    kb = kb or (rng.choice(["ID", "Q", "U"]) if not key[0].isdigit() else rng.choice(["Q", "U"]))
    fld = {"k": key, "kq": False, "kb": kb, "op": "=", "v": val}
    if kb == "ID":
        if kid is None:
            while True:
                kid = D.tok_id(rng, key, st)
                if not tokened or kid not in [f["token"] for f in S]:
                    break
                del st["ids"][key]
        fld["kid"] = kid
    return fld


def once_all(rng, C18, S, st, skip=(), kb=None):
    """every non-skipped field once, declaration order"""
    return [kf(rng, C18, S, f, st, kb=kb) for i, f in enumerate(S) if i not in skip]


def required(S):
    return [i for i, f in enumerate(S) if f["dup"] != "dup" and f["miss"] == "req"]


def spread(rng, a, b):
    """b's elements inserted at random positions of a, both orders kept"""
    marks = [0] * len(a) + [1] * len(b)
    rng.shuffle(marks)
    ia, ib = iter(a), iter(b)
    return [next(ib) if m else next(ia) for m in marks]


def new_st():
    return {"ids": {}, "ops": False, "allow_escape": False, "i64": False}


# ------------------------------------------------------------------------------------------ the ladders
def lad_fields(acc, rng, C18, A):
    for inst in ["N1", "N2", "N17", "N33", "N65", "T33", "T65"]:
        S = A.fields(inst)
        n = len(S)
        req = set(required(S))
        for kb in (None, "ID", "U"):           # mixed key forms; every key a token id; every key a string
            for order in ("decl", "rev", "shuf"):
                st = new_st()
                fs = once_all(rng, C18, S, st, kb=kb)
                if order == "rev":
                    fs.reverse()
                elif order == "shuf":
                    rng.shuffle(fs)
                acc.add("fields", inst, fs, st["ids"], rng)
        for i in range(n):
            kb = rng.choice([None, "ID", "U"])
            # everything but field i
            st = new_st()
            fs = once_all(rng, C18, S, st, skip=(i,), kb=kb)
            rng.shuffle(fs)
            acc.add("fields", inst, fs, st["ids"], rng, tpaths=[rng.choice(TPATHS)], bpaths=[rng.choice(BPATHS)])
            # field i twice, everything else once
            st = new_st()
            fs = once_all(rng, C18, S, st, kb=kb)
            extra = kf(rng, C18, S, S[i], st, j=7, kb=kb)
            where = rng.choice(["first", "last", "any"])
            if where == "first":
                fs.insert(0, extra)
            elif where == "last":
                fs.append(extra)
            else:
                rng.shuffle(fs)
                fs.insert(rng.randrange(len(fs) + 1), extra)
            acc.add("fields", inst, fs, st["ids"], rng, tpaths=[rng.choice(TPATHS)], bpaths=[rng.choice(BPATHS)])
            # the required fields and field i
            st = new_st()
            fs = [kf(rng, C18, S, S[k], st, kb=kb) for k in sorted(req | {i})]
            rng.shuffle(fs)
            acc.add("fields", inst, fs, st["ids"], rng, tpaths=[rng.choice(TPATHS)], bpaths=[rng.choice(BPATHS)])


MULT_TARGETS = [("DE", "n"), ("DE", "t"), ("DA", "cores"), ("DA", "checksum"), ("DA", "fourth"), ("DB", "items"), ("DB", "last"), ("DB", "field1"),
                ("N2", "f00"), ("N2", "f01"), ("DD", "b"), ("T65", "f04"), ("T65", "f64"), ("N65", "f63")]


def lad_mult(acc, rng, C18, A):
    for inst, fname in MULT_TARGETS:
        S = A.fields(inst)
        ti = next(i for i, f in enumerate(S) if f["name"] == fname)
        others = [i for i in required(S) if i != ti]
        for m in LAD + BIG:
            if m > 300 and (inst, fname) not in (("DE", "n"), ("DA", "checksum"), ("DD", "b"), ("DB", "items")):
                continue
            if m > 4097 and not ((inst, fname) in (("DE", "n"), ("DD", "b")) or m == 65536):
                continue
            for variant in ("block", "spread"):
                if variant == "spread" and m > 300:
                    continue
                st = new_st()
                kb = rng.choice([None, None, "ID", "U"])
                occ = [kf(rng, C18, S, S[ti], st, j=j, kb=kb) for j in range(m)]
                rest = [kf(rng, C18, S, S[k], st) for k in others]
                if variant == "block":
                    pos = rng.randrange(len(rest) + 1)
                    fs = rest[:pos] + occ + rest[pos:]
                else:
                    fillers = [uf(rng, S, st) for _ in range(rng.choice([1, 2, m // 2 + 1]))]
                    fs = spread(rng, occ, spread(rng, rest, fillers))
                big = m > MODEL_MAX
                if big:
                    acc.add("mult", inst, fs, st["ids"], rng, big=True, style="compact", sched="-",
                            tpaths=["tape", "reader"] if m > 4097 else TPATHS, bpaths=["slice", "reader"] if m > 4097 else BPATHS)
                else:
                    few = m > 65
                    acc.add("mult", inst, fs, st["ids"], rng, tpaths=[rng.choice(TPATHS)] if few and variant == "spread" else TPATHS,
                            bpaths=[rng.choice(BPATHS)] if few and variant == "spread" else BPATHS, style="compact" if m > 300 else None)


def lad_unknowns(acc, rng, C18, A):
    for inst in ["DD", "DA", "DB", "N17"]:
        S = A.fields(inst)
        plain = next(i for i, f in enumerate(S) if f["dup"] == "once" and f["miss"] == "req")
        for u in LAD + [65536]:
            if u > 300 and inst not in ("DD", "DB"):
                continue
            if u > 4097 and inst != "DD":
                continue
            for layout in ("between", "ends-dup", "front", "back"):
                if u > 300 and layout in ("front", "back"):
                    continue
                st = new_st()
                known = once_all(rng, C18, S, st)
                rng.shuffle(known)
                # many unknown token ids make the resolver table as long: beyond 300 the unknown keys are strings only
                unk = [uf(rng, S, st, key="u%d%s" % (j, rng.choice(["", "_x", "q"])), kb=None if u <= 300 else rng.choice(["Q", "U"])) for j in range(u)]
                if layout == "between":
                    fs = spread(rng, known, unk)
                elif layout == "front":
                    fs = unk + known
                elif layout == "back":
                    fs = known + unk
                else:
                    # the plain field at both ends: a duplicate, however far apart
                    known = [x for x in known if x["k"] != S[plain]["key"]]
                    fs = [kf(rng, C18, S, S[plain], st, j=1)] + spread(rng, known, unk) + [kf(rng, C18, S, S[plain], st, j=2)]
                if u > MODEL_MAX:
                    acc.add("unknowns", inst, fs, st["ids"], rng, big=True, style="compact", sched="-", tpaths=["slice", "reader"] if u > 4097 else TPATHS,
                            bpaths=["tape", "reader"] if u > 4097 else BPATHS)
                else:
                    acc.add("unknowns", inst, fs, st["ids"], rng, style="compact" if u > 300 else None)


def lad_depth(acc, rng, C18, A):
    import random
    for inst in ["DD", "DB"]:
        S = A.fields(inst)
        for d in DEPTHS:
            for kind in ("arr", "obj", "mixed"):
                st = new_st()
                known = once_all(rng, C18, S, st)
                rng.shuffle(known)
                unk = [uf(rng, S, st, val=nest(kind, d))]
                if rng.random() < 0.5:
                    unk.append(uf(rng, S, st, val=nest(rng.choice(["arr", "obj", "mixed"]), max(1, d - 1))))
                acc.add("depth", inst, spread(rng, known, unk), st["ids"], rng, style=rng.choice(["compact", "spaced"]) if d > 130 else None)


def lad_keylen(acc, rng, C18, A):
    # ---- aliases (DLen): every alias alone, next to its neighbours, and unknown keys of nearly the same spelling
    S = A.fields("DLen")
    text = G.ALIAS_TEXT
    for idx, f in enumerate(S):
        L = len(f["key"])
        for rep in range(2 if L < 4000 else 1):
            st = new_st()
            m = {"once": 1, "last": rng.choice([1, 2, 3]), "dup": rng.choice([1, 2, 3])}[f["dup"]]
            fs = [kf(rng, C18, S, f, st, j=j + 1) for j in range(m)]
            near = []
            if f["name"] != "hi":
                for L2 in (L - 1, L + 1):
                    if 1 <= L2 <= 65535 and L2 not in G.LADDER_LEN:
                        near.append(text[:L2])
                flip = lambda s, i: s[:i] + ("A" if s[i] != "A" else "B") + s[i + 1:]
                near += [flip(text[:L], L - 1), flip(text[:L], 0), flip(text[:L], L // 2)]
                if L + 1 <= 65535:
                    near.append(text[:L] + "Z")
            else:
                near = ["caf_ü", "café_u", "cafe_ü", "café_ü2"]
            rng.shuffle(near)
            unk = [uf(rng, S, st, key=k) for k in near[:rng.choice([2, 3, len(near)])]]
            nb = [kf(rng, C18, S, S[k], st, j=9) for k in (idx - 1, idx + 1) if 0 <= k < len(S) and rng.random() < 0.5]
            acc.add("keylen", "DLen", spread(rng, fs + nb, unk), st["ids"], rng, model=(rep == 0 and L < 300) or L in (1024, 65535), sched="-" if L > 4000 else None)
    # every alias in one document; text only: an unknown key longer than a binary string can be
    st = new_st()
    fs = [kf(rng, C18, S, f, st, j=3) for f in S]
    rng.shuffle(fs)
    acc.add("keylen", "DLen", fs, st["ids"], rng, model=False, sched="-")
    for L2 in (65536, 65537, 70000):
        st = new_st()
        fs = [kf(rng, C18, S, S[-2], st, j=5, kb="U"), uf(rng, S, st, key=(text * 2)[:L2], kb="U"), kf(rng, C18, S, S[0], st, j=6, kb="U")]
        acc.add("keylen", "DLen", fs, st["ids"], rng, model=False, binary=False, sched="-")
    # ---- field names (DNm)
    S = A.fields("DNm")
    text = G.NAME_TEXT
    for idx, f in enumerate(S):
        L = len(f["key"])
        for rep in range(3):
            st = new_st()
            m = {"once": 1, "last": rng.choice([1, 2, 3]), "dup": rng.choice([1, 2, 3])}[f["dup"]]
            fs = [kf(rng, C18, S, f, st, j=j + 1) for j in range(m)]
            near = [text[:L2] for L2 in (L - 1, L + 1) if 1 <= L2 and L2 not in G.NAME_LEN]
            near += [text[:L - 1] + "Z", "Z" + text[1:L], text[:L] + "Z"]
            rng.shuffle(near)
            unk = [uf(rng, S, st, key=k) for k in near[:rng.choice([2, 3, len(near)])]]
            nb = [kf(rng, C18, S, S[k], st, j=9) for k in (idx - 1, idx + 1) if 0 <= k < len(S) and rng.random() < 0.5]
            acc.add("keylen", "DNm", spread(rng, fs + nb, unk), st["ids"], rng)
    st = new_st()
    fs = [kf(rng, C18, S, f, st, j=3) for f in S]
    rng.shuffle(fs)
    acc.add("keylen", "DNm", fs, st["ids"], rng)


def lad_tokens(acc, rng, C18, A):
    # ---- unknown token ids that look like a field's token (T65: tokens over the whole u16 range)
    for inst in ["T65", "T33", "DG"]:
        S = A.fields(inst)
        toks = set(f["token"] for f in S)
        for i, f in enumerate(S):
            t = f["token"]
            cand = {t ^ 0x8000, t ^ 0x0100, t ^ 1, ((t << 8) | (t >> 8)) & 0xffff, (t + 1) & 0xffff, (t - 1) & 0xffff, t & 0xff, (t << 8) & 0xffff, t >> 8,
                    t ^ 0x00ff, t ^ 0xff00, 0xffff - t}
            cand = sorted(c for c in cand if c not in toks and c not in LEXEMES)
            st = new_st()
            for c in cand:
                st["ids"]["u%04x" % c] = c          # before any other id is drawn: the resolver table stays a function
            known = once_all(rng, C18, S, st, kb="ID")
            rng.shuffle(known)
            unk = [uf(rng, S, st, key="u%04x" % c, kb="ID", kid=c, val={"t": "int", "v": 77, "b": "I32"}) for c in cand]
            # right in front of the field they resemble, and anywhere
            pos = next(k for k, x in enumerate(known) if x["kid"] == t)
            fs = spread(rng, known[:pos], unk[1::2]) + unk[0::2] + known[pos:]
            acc.add("tokens", inst, fs, st["ids"], rng, text=(i % 8 == 0), tpaths=["tape"], bpaths=BPATHS if i % 4 == 0 else [rng.choice(BPATHS)])
    # ---- resolver ids over the range for structs WITHOUT tokens: the id only matters through the resolver
    special = [i for i in list(range(0, 0x18)) + [0x18, 0xff, 0x100, 0x166, 0x168, 0x242, 0x244, 0x29b, 0x29d, 0x316, 0x318, 0x7fff, 0x8000, 0x8001, 0xfffe, 0xffff]
               if i not in LEXEMES]
    for inst in ["DA", "N17", "DD"]:
        S = A.fields(inst)
        for rep in range(12):
            st = new_st()
            ids = rng.sample(special, len(S) + 2)
            for f, i in zip(S, ids):
                st["ids"][f["key"]] = i
            for j in (0, 1):
                st["ids"]["zz%d" % j] = ids[len(S) + j]
            fs = once_all(rng, C18, S, st, kb="ID")
            rng.shuffle(fs)
            for j in (0, 1):
                key = "zz%d" % j
                fs.insert(rng.randrange(len(fs) + 1), uf(rng, S, st, key=key, kb="ID", kid=ids[len(S) + j]))
            acc.add("tokens", inst, fs, st["ids"], rng, text=False)


def lad_lists(acc, rng, C18, A):
    for inst in ["DL3", "DL3T", "N1", "N2"]:
        C18.ALL[inst] = A.fields(inst)
        S = A.fields(inst)
        for mult in A.vectors(acc.ctx, rng, S, 60, 90):
            for order in C18.orders(rng, mult, 2):
                doc, ids = A.make_doc(C18, rng, inst, order, rng.choice([0, 0, 1, 2, 3]), 0.02)
                doc["ghost"] = []
                if A.numeric_unknown(S, doc):
                    continue
                acc.add("lists", inst, doc["f"], ids, rng, skip_unfit=True)


def chain(rng, C18, S, st, d, via, leaf_extra=True):
    """a DR / DRT value nested d structs deep through the fields named in `via` (cycled)"""
    by = {f["name"]: f for f in S}
    node = None
    for lvl in range(d):
        fs = []
        if "id" in by and (lvl % 3 != 1):
            fs.append(kf(rng, C18, S, by["id"], st, j=lvl))
        if "req" in by:
            fs.append(kf(rng, C18, S, by["req"], st))
        if node is not None:
            f = by[via[lvl % len(via)]]
            reps = 1 if f["dup"] == "once" else rng.choice([1, 1, 2])
            for r in range(reps):
                # take_last: the LAST occurrence is the deep one; duplicated: all of them are kept
                leaf = {"t": "obj", "f": [kf(rng, C18, S, by["req"], st)] if "req" in by else [], "ghost": []}
                v = node if (r == reps - 1) else (leaf if f["dup"] == "last" or "req" in by else {"t": "obj", "f": [kf(rng, C18, S, by["id"], st, j=1000 + r)], "ghost": []})
                fs.append(kf(rng, C18, S, f, st, val=v))
        if rng.random() < 0.3:
            fs.insert(rng.randrange(len(fs) + 1), uf(rng, S, st))
        if lvl % 2:
            fs.reverse()
        node = {"t": "obj", "f": fs, "ghost": []}
    return node


def lad_nest(acc, rng, C18, A):
    for inst, vias in (("DR", (["child"], ["kids"], ["last"], ["child", "kids", "last"])), ("DRT", (["child"], ["kids"], ["child", "kids"]))):
        S = A.fields(inst)
        for d in DEPTHS:
            if d > 300:
                continue
            for via in vias:
                st = new_st()
                doc = chain(rng, C18, S, st, d, via)
                few = d > 65
                acc.add("nest", inst, doc["f"], st["ids"], rng, tpaths=[rng.choice(TPATHS)] if few else TPATHS, bpaths=[rng.choice(BPATHS)] if few else BPATHS,
                        model=d <= 130, style=rng.choice(["compact", "spaced"]) if few else None)


def lad_values(acc, rng, C18, A):
    S = A.fields("DA")
    by = {f["name"]: f for f in S}
    VL = [0, 1, 2, 3, 7, 8, 9, 15, 16, 17, 31, 32, 33, 63, 64, 65, 127, 128, 129, 255, 256, 257, 1023, 1024, 1025, 4095, 4096, 4097, 65533, 65534, 65535]
    fill = lambda n: (G.ALIAS_TEXT * 2)[:n]
    for n in VL + [65536, 65537]:
        for where in ("field", "unknown", "dup"):
            st = new_st()
            sv = {"t": "str", "v": fill(n), "q": n == 0 or rng.random() < 0.5, "b": rng.choice(["Q", "U"])}
            fs = once_all(rng, C18, S, st, skip=(5,) if where == "field" else ())
            if where == "field":
                fs.append(kf(rng, C18, S, by["checksum"], st, val=sv))
            elif where == "dup":
                fs += [kf(rng, C18, S, by["cores"], st, val=sv), kf(rng, C18, S, by["cores"], st, j=2)]
            else:
                fs.append(uf(rng, S, st, val=sv))
            rng.shuffle(fs)
            acc.add("values", "DA", fs, st["ids"], rng, binary=n <= 65535, sched="-" if n > 4000 else None, model=n <= 4097)
    for n in LAD:
        for where in ("field", "unknown"):
            st = new_st()
            av = {"t": "arr", "v": [{"t": "str", "v": "e%d" % j, "q": rng.random() < 0.3, "b": rng.choice(["Q", "U"])} for j in range(n)]}
            fs = once_all(rng, C18, S, st, skip=(4,) if where == "field" else ())
            fs.append(kf(rng, C18, S, by["names"], st, val=av) if where == "field" else uf(rng, S, st, val=av if n else {"t": "arr", "v": []}))
            rng.shuffle(fs)
            acc.add("values", "DA", fs, st["ids"], rng, style="compact" if n > 300 else None, model=n <= MODEL_MAX)


def run(ctx, C18, A):
    old = sys.getrecursionlimit()
    sys.setrecursionlimit(100000)          # the specification and the renderers recurse over the nesting depth
    try:
        acc = Acc(ctx, C18, A)
        rng = ctx.rng
        for lad in (lad_fields, lad_mult, lad_unknowns, lad_depth, lad_keylen, lad_tokens, lad_lists, lad_nest, lad_values):
            lad(acc, rng, C18, A)
        acc.flush()
    finally:
        sys.setrecursionlimit(old)
