"""C12 String decoding always yields valid UTF-8 equal to the reference mapping."""
import itertools
from vlib import hexs, unhex

RULE = ("all byte strings of length <= 2 over all 256 values, all strings of length <= 3 (4 thorough) over 32 class representatives "
        "(every UTF-8 lead/continuation range edge, the five ASCII whitespace bytes, 0x0b, backslash), each through both decoders; "
        "templates of length 0..40 (ASCII, trailing whitespace, escapes, 2/3/4-byte UTF-8, high bytes) with every single-byte "
        "perturbation from a 14-value set at every offset (8-byte chunk edges); valid and invalid UTF-8 (truncations, overlongs, "
        "surrogates, > U+10FFFF, stray continuations) with backslashes inserted also inside sequences; random strings; the 256-entry "
        "table and char encoding boundaries; wave 4 (props/C12_routes.py): every length 0..40 x every position of a 2/3/4-byte character and of "
        "23 ill-formed forms x backslash before / inside / after / at the next chunk edge, every pair (first backslash, first high byte), "
        "every run 0..9 of every whitespace byte and 8 look-alikes after every length, lengths 41..200 / 250..263 / 510..520 / ~4096 / ~65536, "
        "14 call routes (trait method, new, Default, clone, &T, &&T, &dyn, Box<T>, Box<dyn>, ...), sub-slices at alignments 0..8 with hostile "
        "neighbours and the address of the borrowed str, Scalar's Display, document -> read_str / &str / String / Cow fields; wave 6 (props/C12_sizes.py): one size dimension at a time over the ladder 0 1 2 3 7 8 9 15..17 31..33 63..65 127..129 255..257 1023..1025 4095..4097 65533..65536 (+ powers of two, 65537): total length x one special byte x position class (offsets from both ends, edges of the last 8/16/32/64/128-byte block; every offset of 63..65 / 127..129 / 255..257), numbers of backslashes / high bytes with 2- and 3-byte images / invalid bytes / 2-3-4-byte characters at every chunk phase, trailing / leading / interior whitespace runs, a character cut at every split by every boundary 8k (k <= 40, ladder to 65536) x the first backslash, the slice at 29 absolute addresses modulo 128, the long strings through the 14 routes / Display / documents; release and debug builds; strings beyond 300 bytes are judged by the oracles alone. non-trivial = the output is not the input verbatim, or the input is longer than 8 bytes")
TRUSTED = ["String::from_utf8_lossy / str::from_utf8 / char::encode_utf8 (std) are modelled by Utf8.lossy / valid_utf8 / encode_utf8 and "
           "compared against std directly on every run (streams std_*)",
           "oracle: own Windows-1252 table (Python cp1252 codec for assigned bytes, C1 controls for 0x81 0x8d 0x8f 0x90 0x9d); "
           "bytes.decode('utf-8', errors='replace') (maximal-subpart rule)"]
ASSUMPTIONS = ["bytes are < 256 (wf_bytes)"]
PROFILES = ["release", "debug"]   # the size ladders (props/C12_sizes.py) also run on the debug build

WS = b" \t\n\x0c\r"
REP = [0x00, 0x09, 0x0a, 0x0b, 0x0c, 0x0d, 0x20, 0x41, 0x5c, 0x7f, 0x80, 0x8f, 0x90, 0x9f, 0xa0, 0xbf, 0xc0, 0xc1, 0xc2, 0xdf,
       0xe0, 0xe1, 0xec, 0xed, 0xee, 0xef, 0xf0, 0xf1, 0xf3, 0xf4, 0xf5, 0xff]
PERT = [0x5c, 0x80, 0xff, 0x20, 0x0a, 0xc3, 0xe2, 0xf0, 0x00, 0x0b, 0x0c, 0xa9, 0xbf, 0x41]


def w1252_char(b):
    try:
        return bytes([b]).decode("cp1252")
    except UnicodeDecodeError:
        return chr(b)          # 0x81 0x8d 0x8f 0x90 0x9d -> C1 controls


TABLE = [w1252_char(b) for b in range(256)]


_TRANS = {b: TABLE[b] for b in range(256)}


def trim_naive(d):
    n = len(d)
    while n and d[n - 1] in WS:
        n -= 1
    return d[:n]


def trim(d):
    """the maximal suffix of the five ASCII whitespace bytes removed (C speed: the size ladders decode 64 KiB strings)"""
    return bytes(d).rstrip(WS)


def unescape(d):
    return bytes(d).replace(b"\\", b"")


def ref_w1252(d):
    return unescape(trim(d)).decode("latin-1").translate(_TRANS).encode("utf-8")


def ref_utf8(d):
    return unescape(trim(d)).decode("utf-8", errors="replace").encode("utf-8")


def _self_check():
    """the C-speed reference functions against their byte-by-byte definitions"""
    import random
    r = random.Random(12)
    for _ in range(3000):
        d = bytes(r.choice(b" \t\n\x0c\r\x0b\\a\x80\xff\xe9\x00") for _ in range(r.randrange(12)))
        assert trim(d) == trim_naive(d)
        assert unescape(d) == bytes(x for x in d if x != 0x5c)
        assert ref_w1252(d) == "".join(TABLE[b] for b in unescape(trim(d))).encode("utf-8")


_self_check()


def is_valid(b):
    try:
        b.decode("utf-8")
        return True
    except UnicodeDecodeError:
        return False


class _Short(bytes):
    """a byte string whose %r is abbreviated in messages (the size ladders decode 64 KiB strings; the replay carries the whole case)"""
    def __repr__(self):
        if len(self) <= 160:
            return bytes.__repr__(self)
        return "<%d bytes: %s ... %s>" % (len(self), bytes.__repr__(self[:60]), bytes.__repr__(self[-40:]))


def check_decode(ctx, c, out, rep=None, note=""):
    """rep: the case line to put in the replay when the decoder was reached through another kind (wave 4)"""
    rc = [rep or c]
    kind, h = c.split("\t")[:2]
    d = _Short(unhex(h))
    name = ("Windows1252Encoding" if kind == "enc.w1252" else "Utf8Encoding") + note
    if out in ("PANIC", "ABORT", "HANG") or out[:2] not in ("B:", "O:"):
        ctx.fail("decode-panic", "%s::decode(%r) -> %s" % (name, d, out) + note, rc, [out], "a string")
        return
    borrowed = out[0] == "B"
    got = _Short(unhex(out[2:]))
    t = trim(d)
    exp = _Short(ref_w1252(d) if kind == "enc.w1252" else ref_utf8(d))
    if not is_valid(got):
        ctx.fail("invalid-utf8", "%s::decode(%r) is not valid UTF-8: %s" % (name, d, got.hex() if len(got) <= 160 else repr(got)), rc, [out], "valid UTF-8")
    if got != exp:
        ctx.fail("reference", "%s::decode(%r) = %r, reference mapping (trim, unescape, %s) = %r" % (
            name, d, got, "code page" if kind == "enc.w1252" else "lossy", exp), rc, [out], ("O:" if not borrowed else "B:") + hexs(exp))
    plain = t.isascii() and 0x5c not in t
    if plain and not borrowed:
        ctx.fail("not-borrowed", "%s::decode(%r): escape-free ASCII input was not returned borrowed" % (name, d), rc, [out], "B:" + hexs(t))
    if borrowed and got != t:
        ctx.fail("borrowed-differs", "%s::decode(%r) is borrowed but is not the trimmed input" % (name, d), rc, [out], "B:" + hexs(t))
    if borrowed and kind == "enc.w1252" and not plain:
        ctx.fail("borrowed-nonascii", "%s::decode(%r) borrowed a non-ASCII / escaped input" % (name, d), rc, [out], "O:" + hexs(exp))


def run_decoders(ctx, stream, strs, both=True):
    strs = list(strs)
    cases = []
    for s in strs:
        h = hexs(s)
        cases.append("enc.w1252\t" + h)
        cases.append("enc.utf8\t" + h)
    nt = lambda c, i: len(c) > 26 or i[2:] != c.split("\t")[1]
    impl, _ = ctx.correspond(stream, cases, nontrivial=nt)
    base = len(impl) - len(cases)
    allc = ctx.corpus(stream) if base else []
    ctx.corpus_cases -= len(allc)
    for idx, c in enumerate(allc + cases):
        if c.startswith("enc."):
            check_decode(ctx, c, impl[idx])
    ctx.count(stream, len(strs))


def encode_cp(cp):
    """UTF-8 style encoding of any code point < 2^21, also surrogates / > 10FFFF (to build invalid input)"""
    if cp < 0x80:
        return bytes([cp])
    if cp < 0x800:
        return bytes([0xc0 | cp >> 6, 0x80 | cp & 63])
    if cp < 0x10000:
        return bytes([0xe0 | cp >> 12, 0x80 | (cp >> 6) & 63, 0x80 | cp & 63])
    return bytes([0xf0 | (cp >> 18) & 7, 0x80 | (cp >> 12) & 63, 0x80 | (cp >> 6) & 63, 0x80 | cp & 63])


CP_EDGES = [0, 0x41, 0x5c, 0x7f, 0x80, 0xe5, 0x7ff, 0x800, 0xfff, 0x1000, 0xcfff, 0xd000, 0xd7ff, 0xd800, 0xdfff, 0xe000, 0xfffd, 0xffff,
            0x10000, 0x3ffff, 0x40000, 0xfffff, 0x100000, 0x10ffff, 0x110000, 0x1fffff, 0x20ac, 0x1f600]


def templates(ctx, rng):
    out = []
    text = b"Captain Joe Rogers of the Seven Provinces 1444"
    multi = ("Jåhkåmåhkke €… \U0001f600\U00010000 ퟿ naïve café").encode("utf-8")
    for n in range(0, 41):
        out.append(text[:n])
        out.append((text[:max(0, n - 2)] + b" \n")[:n])
        out.append(bytes(0x61 + (i % 26) for i in range(n)))
        out.append(multi[:n])
        out.append(bytes(0xa0 + (i * 7) % 0x5f for i in range(n)))
        if n >= 3:
            k = rng.randrange(n - 1)
            out.append(text[:k] + b"\\\"" + text[k + 2:n])
    return out


def perturbations(ctx, rng):
    out = set()
    for t in templates(ctx, rng):
        out.add(t)
        for off in range(len(t)):
            for v in PERT:
                b = bytearray(t)
                b[off] = v
                out.add(bytes(b))
        for v in PERT:                      # one byte appended / prepended
            out.add(t + bytes([v]))
            out.add(bytes([v]) + t)
    return out


def utf8_strings(ctx, rng):
    out = set()
    for _ in range(ctx.scale(6000, 100000)):
        n = rng.randrange(1, 10)
        parts = []
        for _ in range(n):
            r = rng.random()
            if r < 0.35:
                parts.append(bytes([rng.randrange(0x20, 0x7f)]))
            elif r < 0.8:
                cp = rng.choice([rng.choice(CP_EDGES), rng.randrange(0x80, 0x800), rng.randrange(0x800, 0x10000), rng.randrange(0x10000, 0x110000)])
                parts.append(encode_cp(cp))
            elif r < 0.86:                  # overlong forms
                cp = rng.choice([0x2f, 0x5c, 0x7f, 0x80, 0x7ff])
                parts.append(rng.choice([bytes([0xc0 | cp >> 6, 0x80 | cp & 63]), bytes([0xe0, 0x80 | (cp >> 6) & 63, 0x80 | cp & 63]),
                                         bytes([0xf0, 0x80, 0x80 | (cp >> 6) & 63, 0x80 | cp & 63])]))
            else:
                parts.append(bytes([rng.choice([0x80, 0xbf, 0xc0, 0xc1, 0xf5, 0xff, 0xfe, 0xed, 0xa0, 0xf4, 0x90])]))
        b = bytearray(b"".join(parts))
        r = rng.random()
        if r < 0.3 and b:
            del b[rng.randrange(len(b))]                       # drop a byte (truncation in the middle)
        elif r < 0.45:
            b = b[:rng.randrange(len(b) + 1)]                  # truncate
        if rng.random() < 0.35:
            for _ in range(rng.randrange(1, 3)):
                b.insert(rng.randrange(len(b) + 1), 0x5c)       # backslash, possibly inside a sequence
        if rng.random() < 0.25:
            b += bytes(rng.choice(WS + b"\x0b") for _ in range(rng.randrange(1, 4)))
        out.add(bytes(b))
    return out


def random_strings(ctx, rng):
    out = set()
    for _ in range(ctx.scale(5000, 100000)):
        n = rng.randrange(0, 25)
        al = rng.choice([REP, list(range(256)), list(range(0x20, 0x80)) + [0x5c, 0x0a]])
        out.add(bytes(rng.choice(al) for _ in range(n)))
    return out


def run(ctx):
    rng = ctx.rng
    # 0. the std functions the model trusts: lossy / validity / char encoding, against std and against Python
    small = [bytes(t) for n in range(0, 3) for t in itertools.product(REP, repeat=n)] + sorted(utf8_strings(ctx, rng))
    cases = []
    for s in small:
        cases.append("utf8.lossy\t" + hexs(s))
        cases.append("utf8.valid\t" + hexs(s))
    impl, _ = ctx.correspond("std_lossy_valid", cases, nontrivial=lambda c, i: i.startswith("O:") or i == "true")
    base = len(impl) - len(cases)
    for k, c in enumerate(cases):
        s = unhex(c.split("\t")[1]); o = impl[base + k]
        if c.startswith("utf8.lossy"):
            exp = s.decode("utf-8", errors="replace").encode()
            if unhex(o[2:]) != exp or (o[0] == "B") != is_valid(s):
                ctx.fail("std-lossy", "String::from_utf8_lossy(%r) = %s, Python says %r" % (s, o, exp), [c], [o], hexs(exp))
        elif o != str(is_valid(s)).lower():
            ctx.fail("std-valid", "str::from_utf8(%r).is_ok() = %s" % (s, o), [c], [o], str(is_valid(s)).lower())
    cps = sorted(set(CP_EDGES + [rng.randrange(0, 0x110000) for _ in range(ctx.scale(2000, 40000))] + list(range(0, 0x100))))
    cases = ["utf8.encode\t%d" % cp for cp in cps]
    impl, _ = ctx.correspond("std_encode", cases, nontrivial=lambda c, i: i != "none")
    base = len(impl) - len(cases)
    for k, cp in enumerate(cps):
        ok = cp < 0xd800 or 0xe000 <= cp < 0x110000
        exp = hexs(chr(cp).encode("utf-8")) if ok else "none"
        if impl[base + k] != exp:
            ctx.fail("std-encode", "char %d encodes to %s, expected %s" % (cp, impl[base + k], exp), [cases[k]], [impl[base + k]], exp)
    # 0b. the SWAR helpers of util.rs, per function through the hooks, against their byte-wise meaning
    words = []
    for _ in range(ctx.scale(4000, 60000)):
        r = rng.random()
        if r < 0.3:
            b = bytearray(rng.randrange(256) for _ in range(8))
        elif r < 0.6:
            b = bytearray(rng.choice(b"\t\n\x08\x0b \\{}a\x00\x01\x80\xff\x0a\x09") for _ in range(8))
        else:
            k = rng.randrange(9)
            b = bytearray([rng.choice(b"\t\n")] * k + [rng.choice(b"\x08\x0b a\x00\x0c\x89\x8a\xff{")] * (8 - k))
        if rng.random() < 0.3:
            b[rng.randrange(8)] = rng.choice([0, 1, 0x7f, 0x80, 0xff, 0x5c, 0x5d, 0x5b, 0xdc])
        words.append(bytes(b))
    cases, meta = [], []
    for w in words:
        v = int.from_bytes(w, "little")
        c = rng.choice([0x5c, 0x7b, 0x7d, 0x00, 0xff, 0x80, w[rng.randrange(8)]])
        cases += ["util.czb\t%d" % v, "util.czb\t%d" % (v ^ int.from_bytes(bytes([c]) * 8, "little")), "util.cc\t%d\t%d" % (v, c), "util.lw\t%d" % v]
        lead = 0
        while lead < 8 and w[lead] in (9, 10):
            lead += 1
        meta += [str(0 in w).lower(), str(c in w).lower(), str(w.count(c)), str(lead)]
    impl, _ = ctx.correspond("swar", cases, nontrivial=lambda c, i: i not in ("false", "0"))
    base = len(impl) - len(cases)
    for k, c in enumerate(cases):
        if impl[base + k] != meta[k]:
            ctx.fail("swar", "%s = %s, byte-wise meaning %s" % (c.replace("\t", " "), impl[base + k], meta[k]), [c], [impl[base + k]], meta[k])
    # 1. the 256-entry table (through the hook) against the own table
    cases = ["data.w1252\t%d" % b for b in range(256)]
    impl, _ = ctx.correspond("table", cases, nontrivial=lambda c, i: True)
    base = len(impl) - len(cases)
    for b in range(256):
        if impl[base + b] != str(ord(TABLE[b])):
            ctx.fail("table", "WINDOWS_1252[%d] = %s, code page says U+%04X" % (b, impl[base + b], ord(TABLE[b])), [cases[b]], [impl[base + b]], str(ord(TABLE[b])))
    # 2. exhaustive small strings
    ex = [bytes(t) for n in range(0, 3) for t in itertools.product(range(256), repeat=n)]
    run_decoders(ctx, "exhaustive_le2", ex)
    seen = set(ex)
    ex3 = [bytes(t) for n in range(3, ctx.scale(3, 4) + 1) for t in itertools.product(REP, repeat=n)]
    run_decoders(ctx, "exhaustive_classes", ex3)
    # 3. perturbed templates (chunk edges)
    run_decoders(ctx, "perturbations", sorted(perturbations(ctx, rng)))
    # 4. valid / invalid UTF-8
    run_decoders(ctx, "utf8_sequences", sorted(utf8_strings(ctx, rng)))
    # 5. random
    run_decoders(ctx, "random", sorted(random_strings(ctx, rng)))
    # >>> a_c12 (wave 4): routes to the decoders (trait / &T / Box / dyn / new / Default / Scalar Display / document -> &str),
    #     sub-slices with hostile neighbours + address of the borrowed str, feature grids, trailing whitespace, long strings
    import sys
    from props import C12_routes
    C12_routes.run(ctx, sys.modules[__name__])
    # <<<
    # >>> s_c12 (wave 6): size / boundary ladders (lengths to 65537, counts, whitespace runs, straddled 8k boundaries, alignment mod 128),
    #     release and debug builds
    from props import C12_sizes
    C12_sizes.run(ctx, sys.modules[__name__])
    # <<<


def search(ctx):
    import random
    ctx.rng = random.Random(ctx.seed + 1)
    old = ctx.tier
    ctx.tier = "thorough"
    try:
        run_decoders(ctx, "search_perturbations", sorted(perturbations(ctx, ctx.rng)))
        run_decoders(ctx, "search_utf8", sorted(utf8_strings(ctx, ctx.rng)))
        run_decoders(ctx, "search_random", sorted(random_strings(ctx, ctx.rng)))
        run_decoders(ctx, "search_classes", [bytes(t) for t in itertools.product(REP, repeat=4)])
    finally:
        ctx.tier = old


CLAIM = {
    "text": "Coq theorems over a faithful Gallina model of encoding.rs (trim_ascii_end, the eject scan, windows_1252_create over the table regenerated from data.rs, the 8-byte SWAR chunk scan of decode_utf8 with contains_zero_byte and the high-bit mask, the remainder loop, utf8_create, the lossy fall-back, Borrowed/Owned): both decoders equal the reference mapping (trim, delete backslashes, code page / lossy) for every byte string, the output is always well-formed UTF-8, the two from_utf8_unchecked sites are only reached with well-formed bytes, Borrowed iff the trimmed input is escape-free ASCII (w1252) resp. escape-free valid UTF-8 (utf8) and then output = input; the 256 table entries are scalar values. The model is tied to the code by differential execution on exhaustive short strings, single-byte perturbations of templates of length 0..40 at every offset, valid/invalid UTF-8 and random strings; oracles (own code-page table, Python's replace decoder) are evaluated on the implementation's outputs",
    "note": "Trusted: Coq kernel, tools/gen_tables.py (WINDOWS_1252 arms, decode_utf8 constants), extraction, harness; String::from_utf8_lossy, str::from_utf8 and char::encode_utf8 are std functions modelled by Utf8.v and compared with std on every run.",
    "technique": "machine-checked proof in Coq over an executable model + model/implementation correspondence by extraction",
}
