"""C12, wave 6 (engineer s_c12): size / boundary ladders.  ONE size-like dimension at a time on an otherwise small input, each
over   0 1 2 3 7 8 9 15 16 17 31 32 33 63 64 65 127 128 129 255 256 257 1023 1024 1025 4095 4096 4097 65533 65534 65535 65536 :

  sz_len       total length x ONE special byte (backslash / invalid byte / stray continuation / lone lead / 2-3-4-byte character /
               surrogate / interior space / vertical tab) x position class (ladder offsets from the start and from the end, the edges
               of the last full 8/16/32/64/128-byte block); every offset of every length 63..65, 127..129, 255..257
  sz_count     k backslashes (alone, consecutive, alternating, one per 8-byte chunk in every lane), k high bytes with 2- and 3-byte
               images (beyond the capacity estimate of windows_1252_create / utf8_create), k invalid bytes, k 2/3/4-byte characters
               at every phase of the 8-byte chunks, k truncated sequences
  sz_ws        trailing whitespace run of k bytes (each kind, mixtures) after 12 bodies, runs protected by a look-alike / backslash,
               leading and interior runs; body length (position of the trimmed end modulo 8/16/64) x run length
  sz_straddle  a 2/3/4-byte character (and a surrogate) cut at every split by the boundary 8k, k = 1..40 and the ladder up to 65536,
               x the first backslash before / in / after chunk k, in the remainder, inserted at the boundary inside the character
  sz_align     the slice at absolute addresses 0..17 31 32 33 47 48 63 64 65 95 96 127 modulo 128 (kind enc.al) x length ladder to 4097
  sz_routes    the long strings through the 14 call routes, Scalar's Display, document -> read_str / &str / String / Cow fields

Strings of at most MODEL_MAX bytes also run on the extracted model; longer ones are judged by the oracles alone (own trim / unescape /
code page, Python's replace decoder, Borrowed iff nothing to change) -- the extracted model is quadratic in the length (12 ms at
1 KiB, 160 ms at 4 KiB).  Every string is decoded by the release AND the debug build (debug_assert!(from_utf8(..).is_ok()) in front
of the two unchecked sites, overflow checks)."""
from vlib import hexs, unhex

LADDER = [0, 1, 2, 3, 7, 8, 9, 15, 16, 17, 31, 32, 33, 63, 64, 65, 127, 128, 129, 255, 256, 257, 1023, 1024, 1025, 4095, 4096, 4097,
          65533, 65534, 65535, 65536]
MODEL_MAX = 300
MODEL_ALL = 140
WS5 = b" \t\n\x0c\r"
ROUTES = ["static", "new", "trait", "default", "clone", "ref", "refref", "dyn", "refdyn", "box", "boxdyn", "refboxdyn", "boxref", "unsized"]
_ALPHA = bytes(range(0x61, 0x7b))
_FILL = _ALPHA * ((1 << 16) // 26 + 8)


def filler(n, k=0):
    """= C12_routes.filler (0x61 + (i + k) % 26), at C speed"""
    k %= 26
    if k + n > len(_FILL):
        return (_ALPHA * ((k + n) // 26 + 2))[k:k + n]
    return _FILL[k:k + n]


def ws_run(k, r=0):
    """k whitespace bytes cycling through the five kinds, starting at kind r"""
    r %= 5
    return (WS5 * (k // 5 + 2))[r:r + k]


# the ladder of the brief jumps from 1025 to 4095 and from 4097 to 65533: the powers of two in between, for offsets and lengths
POW2 = [511, 512, 513, 2047, 2048, 2049, 8191, 8192, 8193, 16383, 16384, 16385, 32767, 32768, 32769]
PLADDER = sorted(LADDER + POW2)


def lengths(ctx):
    return sorted(LADDER + [511, 512, 513, 2047, 2048, 2049, 8192, 16384, 32768, 65537, 65544]) + ctx.scale([], [131071, 131072, 131073, 1 << 20, (1 << 20) + 1])


def put(base, p, f):
    s = bytearray(base)
    s[p:p + len(f)] = f
    return bytes(s)


# ------------------------------------------------------------------ 1. length x one special byte x position class
FEATS = [b"\\", b"\xff", b"\x80", b"\xc3", b"\xc3\xa5", b"\xe2\x82\xac", b"\xf0\x9f\x98\x80", b"\xed\xa0\x80", b" ", b"\x0b"]


def positions(L):
    P = {L // 2}
    for p in PLADDER:
        if p < L:
            P.add(p)
            P.add(L - 1 - p)
    for blk in (8, 16, 32, 64, 128):
        e = (L // blk) * blk                       # end of the last full block
        P.update({e - 1, e, e - blk, e - blk - 1, e - blk + 1})
    return sorted(p for p in P if 0 <= p < L)


def len_strings(ctx):
    out = []
    for L in lengths(ctx):
        base = filler(L, L)
        out.append(base)
        out.append(base + b" \t\r\n")
        pos = positions(L)
        if L > 5000:                                # 64 KiB: a thinner set of positions, two features per position in rotation
            keep = {0, 7, 8, 63, 64, 127, 128, 255, 256, 1023, 1024, 2047, 2048, 4095, 4096, 4097, 8191, 8192, 16383, 16384, 32767, 32768, L // 2}
            keep |= {L - 1 - p for p in (0, 1, 7, 8, 63, 64, 127, 128, 255, 256, 4095, 4096)}
            keep |= {(L // b) * b - d for b in (8, 64, 128) for d in (0, 1)}
            if L in (8192, 16384, 32768, 65533, 65534, 65544) or L > 100000:
                keep = {0, 64, 4096, L // 2, L - 1, L - 2, L - 9, L - 65, (L // 8) * 8 - 1, (L // 8) * 8, (L // 64) * 64 - 1, (L // 64) * 64}
            pos = [p for p in pos if p in keep]
        for i, p in enumerate(pos):
            feats = FEATS if L <= 5000 else [FEATS[j] for j in ((i + L) % 4, 4 + (i + L) % 2)] + ([FEATS[0]] if p % 64 in (0, 63) else [])
            for f in feats:
                if p + len(f) <= L:
                    out.append(put(base, p, f))
    for L in (63, 64, 65, 127, 128, 129, 255, 256, 257):             # every offset (one lane of one word of a block loop)
        base = filler(L, 5)
        for p in range(L):
            for f in (b"\\", b"\xff", b"\xc3\xa5"):
                if p + len(f) <= L:
                    out.append(put(base, p, f))
    return out


# ------------------------------------------------------------------ 2. counts of special bytes
def count_strings(ctx):
    out = []
    lane = [filler(8, i)[:i % 8] + b"\\" + filler(8, i)[i % 8 + 1:] for i in range(8)]
    for k in LADDER + [65537] + ctx.scale([], [1 << 20]):
        big = k > 4097
        out.append(b"\\" * k)                                      # nothing is left
        out.append(b"ab" + b"\\" * k + b"cd")
        out.append(b"\xe9" * k)                                    # w1252: 2-byte images; utf8: k invalid leads
        out.append(b"\x80" * k)                                    # w1252: 3-byte images (1.5 x the capacity estimate); utf8: k stray continuations
        out.append(b"\xff" * k)
        out.append(b"\xc3\xa5" * k)                                # utf8: valid, borrowed
        out.append(b"\\" + b"\xc3\xa5" * k)                        # the same through utf8_create
        if not big or k == 65536:
            out.append(b"a\\" * k)
            out.append(b"\\\xff" * k)
            out.append(b"a" + b"\xc3\xa5" * k)                     # odd phase: a character straddles every 8-byte boundary
            out.append(b"a" + b"\xc3\xa5" * k + b"\\")
            out.append(b"\xe2\x82\xac" * k)                        # 3 is coprime to 8: every phase
            out.append(b"ab" + b"\xe2\x82\xac" * k + b"\\q")
            for ph in range(4):
                out.append(filler(ph) + b"\xf0\x9f\x98\x80" * k)
            out.append(b"abcdefg\\" * k)                           # one backslash per chunk
            out.append(b"".join(lane[i % 8] for i in range(k)))   # ... in every lane in turn
            out.append(b"\xe2\x82" * k)                            # k truncated sequences
            out.append(b"\xe2\x82" * k + b"\\")
            out.append(b"x\xff" * k + b"  ")
    return out


# ------------------------------------------------------------------ 3. whitespace runs
def ws_strings(ctx):
    out = []
    bodies = [b"", b"a", filler(7), filler(8), filler(9), filler(64, 3), b"caf\xe9", b"J\xc3\xa5", b"q\\", b"\\q", b"x\x0b", b"\xe2\x82"]
    for k in LADDER + [65537] + ctx.scale([], [1 << 20]):
        big = k > 4097
        for bi, body in enumerate(bodies):
            if big and bi not in (0, 1, 3, 6, 8):
                continue
            out.append(body + b" " * k)
            out.append(body + ws_run(k, k + bi))
            if bi < 3:
                for w in b"\t\n\x0c\r":
                    out.append(body + bytes([w]) * k)
        out.append(b" " * k + b"x")                                # leading run: kept
        out.append(b"x" + ws_run(k, 1) + b"y")                     # interior run: kept
        out.append(b"x" + b" " * k + b"\x0b")                      # a look-alike protects the run
        out.append(b"x" + b"\n" * k + b"\x0b" + b"\t" * (k % 7))
        out.append(b"x" + b" " * k + b"\\")                        # trim first: a trailing backslash protects the run, then goes
        out.append(b"x\xa0" + b" " * k + b"\x85")
    # the trimmed end at every position of the 8 / 16-byte blocks and at the 64-byte edge, x the run length
    for n in list(range(0, 18)) + [31, 32, 33, 63, 64, 65]:
        for k in [1, 7, 8, 9, 15, 16, 17, 31, 32, 33, 63, 64, 65, 127, 128, 129, 255, 256, 257]:
            out.append(filler(n, k) + ws_run(k, n))
            if n:
                out.append(filler(n - 1, k) + b"\xe9" + b" " * k)
                out.append(b"\\" + filler(n - 1, k) + b"\n" * k)
    return out


# ------------------------------------------------------------------ 4. characters straddling the boundary 8k x the first backslash
CHARS = [b"\xc3\xa5", b"\xe2\x82\xac", b"\xf0\x9f\x98\x80", b"\xed\xa0\x80"]


def straddle_strings(ctx):
    out = []
    ladder_b = [8, 16, 24, 32, 56, 64, 72, 120, 128, 136, 248, 256, 264, 504, 512, 520, 1016, 1024, 1032, 4088, 4096, 4104, 65528, 65536]
    every_b = [8 * k for k in range(1, 41)]
    for B in sorted(set(ladder_b + every_b)):
        full = B in ladder_b
        far = B > 5000
        for ch in (CHARS[:2] if far else CHARS):
            for cut in range(1, len(ch)):                          # ch[:cut] lies before the boundary
                p = B - cut
                e = p + len(ch)
                for tail in ((4, 12) if far or not full else (1, 4, 8, 12, 20)):
                    L = max(B + tail, e)
                    base = put(filler(L, B), p, ch)
                    out.append(base)
                    qs = [e, L - 1, B - 8, B + 7] + ([0, e + 8, B - 1 - cut] if full else [])
                    for q in sorted(set(qs)):
                        if 0 <= q < L and not p <= q < e:
                            out.append(put(base, q, b"\\"))
                    out.append(base[:B] + b"\\" + base[B:])        # unescaping joins the two halves again
                    if full and not far:
                        out.append(put(base, e, b"\\") + b"  \n")
    return out


# ------------------------------------------------------------------ 5. absolute alignment of the slice
AL = list(range(0, 18)) + [31, 32, 33, 47, 48, 63, 64, 65, 95, 96, 127]
PRE = [b"", b"\\", b"\xff", b" ", b"\xc3", b"\"", b"a\\\\\\\\\\\\\\\\", b"\xe2\x82"]
POST = [b"\\\\\\\\\\\\\\\\", b"\xff\xfe\xff\xfe\xff\xfe\xff\xfe", b" \n \n \n \n", b"\xa5\x80\x80\x80", b"\"", b"\\", b"\x80", b"",
        b"\\" * 64, b"\xff" * 64, b" " * 64]


def align_cases(ctx):
    cases = []
    for L in [0, 1, 7, 8, 9, 15, 16, 17, 31, 32, 33, 63, 64, 65, 127, 128, 129, 255, 256, 257, 1024, 4097]:
        base = filler(L, L + 1)
        var = [base, base + ws_run(9, L)]
        for p in sorted({0, L - 1, L // 2, (L // 8) * 8 - 1, (L // 8) * 8, (L // 64) * 64 - 1, 15 % max(L, 1), 16 % max(L, 1)} & set(range(L))):
            for f in (b"\\", b"\xff", b"\xc3\xa5"):
                if p + len(f) <= L:
                    var.append(put(base, p, f))
        for al in AL:
            for vi, s in enumerate(var):
                if (L > 64 and (al + vi) % 2) or (L > 300 and (al + vi) % 6):
                    continue
                pre = PRE[(al + vi) % len(PRE)]
                post = POST[(al + vi + L) % len(POST)]
                for dec in "wu":
                    cases.append("enc.al\t%s\t%d\t%s\t%s\t%s" % (dec, al, hexs(pre), hexs(s), hexs(post)))
    return cases


# ------------------------------------------------------------------ 6. the long strings through the other routes
def route_strings(ctx):
    out = []
    for L in [x for x in lengths(ctx) if x >= 31 and x <= 70000]:
        base = filler(L, L + 2)
        out.append(base)
        out.append(put(base, L // 2, b"\\"))
        out.append(put(base, L - 1, b"\xff"))
        out.append(put(base, 0, b"\xe9") + ws_run(L if L < 5000 else 17, L))
        out.append(put(base, (L // 8) * 8 - 1, b"\xc3\xa5") if (L // 8) * 8 + 1 <= L else put(base, L - 2, b"\xc3\xa5"))
    return out


def quoted_scalar_ok(d):
    return b'"' not in d and not d.endswith(b"\\")


# ------------------------------------------------------------------ running
def run(ctx, c12):
    trim, unescape, ref_w, ref_u, is_valid = c12.trim, c12.unescape, c12.ref_w1252, c12.ref_utf8, c12.is_valid
    profiles = list(getattr(c12, "PROFILES", ["release"]))

    def leaf_cases(strs):
        return [k + "\t" + hexs(s) for s in strs for k in ("enc.w1252", "enc.utf8")]

    def oracle_only(stream, strs, profile):
        if not strs:
            return
        # neighbours in the list go to different shards (the harness processes get contiguous blocks): the few very long
        # strings (thorough tier: 1 MiB) must not pile up in one process (its output is capped at 256 MiB)
        strs = [x for r in range(16) for x in strs[r::16]]
        cases = leaf_cases(strs)
        impl, _ = ctx.correspond(stream, cases, nontrivial=lambda c, i: True, model=False, profile=profile)
        base = len(impl) - len(cases)
        note = "" if profile == "release" else "[%s build]" % profile
        for k, c in enumerate(cases):
            c12.check_decode(ctx, c, impl[base + k], note=note)
        ctx.count(stream, len(strs))

    def decoders(stream, strs):
        seen, uniq = set(), []
        for s in strs:
            if s not in seen:
                seen.add(s)
                uniq.append(s)
        # model + oracles: everything up to MODEL_ALL bytes, a third up to MODEL_MAX, a sample of the 1 KiB cases; the rest: oracles alone
        small = [s for k, s in enumerate(uniq) if len(s) <= MODEL_ALL or (len(s) <= MODEL_MAX and k % 3 == 0)]
        sm = set(small)
        big = [s for s in uniq if s not in sm]
        c12.run_decoders(ctx, stream, small)
        oracle_only(stream + "_big", big, "release")
        mid = [s for s in big if MODEL_MAX < len(s) <= 1100][::41]
        if mid:
            ctx.correspond(stream + "_mid", leaf_cases(mid), nontrivial=lambda c, i: True)
        if "debug" in profiles:                                    # every string up to 5000 bytes, every other 64 KiB string
            far = [s for s in uniq if len(s) > 5000]
            oracle_only(stream + "_debug", [s for s in uniq if len(s) <= 5000] + far[ctx.seed % 2::2], "debug")
        ctx.dist[stream + "_maxlen"] = max(len(s) for s in uniq)

    decoders("sz_len", len_strings(ctx))
    decoders("sz_count", count_strings(ctx))
    decoders("sz_ws", ws_strings(ctx))
    decoders("sz_straddle", straddle_strings(ctx))

    def as_leaf(dec, h):
        return ("enc.w1252" if dec == "w" else "enc.utf8") + "\t" + h

    def borrow_expected(dec, d):
        t = trim(d)
        if dec == "w":
            return t.isascii() and 0x5c not in t
        return 0x5c not in t and is_valid(t)

    # ---- alignment
    cases = align_cases(ctx)
    for stream, sub, model in (("sz_align", [c for c in cases if c.split("\t")[2] == "0" and len(c) <= 2 * MODEL_MAX + 200], True),   # the model ignores the address
                               ("sz_align_al", [c for c in cases if not (c.split("\t")[2] == "0" and len(c) <= 2 * MODEL_MAX + 200)], False)):
        for prof in profiles:
            impl, _ = ctx.correspond(stream if prof == "release" else stream + "_" + prof, sub, nontrivial=lambda c, i: True,
                                     model=model and prof == "release", profile=prof)
            base = len(impl) - len(sub)
            for k, c in enumerate(sub):
                _, dec, al, pre, h, post = c.split("\t")
                o = impl[base + k]
                d = unhex(h)
                if o.startswith("DIFF:"):
                    ctx.fail("route-differs", "inherent function and trait method disagree on %r at address %s mod 128: %s" % (d[:60], al, o[:200]), [c], [o], "one result")
                    continue
                body, _, ptr = o.partition("@")
                c12.check_decode(ctx, as_leaf(dec, h), body, rep=c, note="[slice at address %s mod 128, %s build]" % (al, prof))
                if body.startswith("B:"):
                    exp = "0:%d" % len(trim(d))
                    if ptr != exp:
                        ctx.fail("borrowed-ptr", "decode(%r...) at address %s mod 128 is Borrowed but the str is at @%s of the input slice, expected @%s" % (
                            d[:40], al, ptr, exp), [c], [o], body + "@" + exp)
            ctx.count(stream + ("" if prof == "release" else "_" + prof), len(sub))

    # ---- routes, Display, end to end
    strs = route_strings(ctx)
    cases = []
    for k, s in enumerate(strs):
        for dec in "wu":
            for r in ROUTES:
                if r == "trait" or (len(s) < 5000 and (k + ROUTES.index(r)) % 2 == 0) or (k + ROUTES.index(r)) % 5 == 0:
                    cases.append("enc.via\t%s\t%s\t%s" % (r, dec, hexs(s)))
    impl, _ = ctx.correspond("sz_routes", cases, nontrivial=lambda c, i: True, model=False)
    base = len(impl) - len(cases)
    for k, c in enumerate(cases):
        _, r, dec, h = c.split("\t")
        o = impl[base + k]
        if o.startswith("DIFF:"):
            ctx.fail("route-differs", "a copy / clone of the encoding decodes a %d-byte string differently: %s" % (len(unhex(h)), o[:200]), [c], [o], "one result")
            continue
        c12.check_decode(ctx, as_leaf(dec, h), o, rep=c, note="[via %s]" % r)
    ctx.count("sz_routes", len(cases))

    disp = strs + [filler(L, 1) for L in LADDER] + [filler(L, 1) + b"\xe9" for L in LADDER] + [filler(7) + b" " * L for L in LADDER]
    cases = ["enc.display\t" + hexs(s) for s in disp]
    impl, _ = ctx.correspond("sz_display", cases, nontrivial=lambda c, i: True, model=False)
    base = len(impl) - len(cases)
    for k, c in enumerate(cases):
        d = disp[k]
        o = impl[base + k]
        exp = "S:" + hexs(unescape(trim(d)) if d.isascii() else ("non-ascii string of %d length" % len(d)).encode())
        if o != exp:
            ctx.fail("display", "Scalar::new(<%d bytes: %r...>) displays as %s, expected %s (ASCII: trim, unescape; else the length message)" % (
                len(d), d[:30], o[:120], exp[:120]), [c], [o], exp)
    ctx.count("sz_display", len(cases))

    e2 = [s for s in strs if quoted_scalar_ok(s)]
    cases = ["enc.e2e\t%s\t%s" % (dec, hexs(s)) for s in e2 for dec in "wu"]
    impl, _ = ctx.correspond("sz_e2e", cases, nontrivial=lambda c, i: True, model=False)
    base = len(impl) - len(cases)
    for k, c in enumerate(cases):
        _, dec, h = c.split("\t")
        d = unhex(h)
        o = impl[base + k]
        exp = ref_w(d) if dec == "w" else ref_u(d)
        bor = borrow_expected(dec, d)
        cow = ("B:" if bor else "O:") + hexs(exp)
        ptr = "@0:%d" % len(exp) if bor else ""
        want = "R=%s%s|S=%s|D=%s|T=%s|C=%s" % (cow, ptr, hexs(exp), (hexs(exp) + ptr) if bor else "ERR", hexs(exp), cow)
        if o != want:
            ctx.fail("e2e", "a=\"<%d bytes: %r...>\" read as %s text: %s..., expected %s... (read_str / read_string / &str field / String field / Cow field)" % (
                len(d), d[:30], "Windows-1252" if dec == "w" else "UTF-8", o[:120], want[:120]), [c], [o], want)
    ctx.count("sz_e2e", len(cases))
