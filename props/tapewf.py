"""Python checker of the structural soundness of a text tape (oracle side of C06/C17):
container start at i has end e with i < e < len and tape[e] = E:i, proper nesting, no index 0,
scalars are sub-slices of the input in increasing start order."""


def parse_tape(s):
    if s == "-" or s == "":
        return []
    return s.split(" ")


def check_tape(toks, data=None):
    """returns None if sound, else a description"""
    n = len(toks)
    stack = []
    for i, t in enumerate(toks):
        if t[0] in "AO" and t[1] == ":":
            e = int(t.split(":")[1])
            if not (i < e < n):
                return "container at %d has end %d outside (%d, %d)" % (i, e, i, n)
            if toks[e] != "E:%d" % i:
                return "container at %d: tape[%d] = %s, not E:%d" % (i, e, toks[e], i)
            if i == 0 or e == 0:
                return "container/end carries index 0"
            stack.append((i, e))
        elif t.startswith("E:"):
            j = int(t[2:])
            if not stack or stack[-1] != (j, i):
                return "End at %d (-> %d) does not close the innermost open container %s" % (i, j, stack[-1:] )
            if j == 0:
                return "End carries index 0"
            stack.pop()
    if stack:
        return "unclosed containers %s" % stack
    if data is not None:
        pos = -1
        for t in toks:
            if t[0] in "UQHPN" and t[1] == ":":
                h = t[2:]
                b = b"" if h == "-" else bytes.fromhex(h)
                # each scalar must occur in the input at a start position after the previous scalar's start
                j = data.find(b, pos + 1) if b else pos + 1
                if j < 0:
                    return "scalar %r is not a sub-slice of the input after offset %d" % (b, pos)
                pos = j
    return None
