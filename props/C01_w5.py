"""C01, wave 5 (w_c01): streams for the two theorems added by this wave (audit/C01.md).

* mixed_docs     documents of TextDocMixed.v (wf_doc_mixed): containers INSIDE mixed regions (classes E2 / E3), nested to
                 depth 4, generated here; the extracted TextDocMixed.wfm_fields must accept every one of them (and says how many
                 lie beyond wf_doc), the extracted TextDoc.flatten / render must agree with props/textdoc.py, and the real parser
                 must return exactly Coq's flatten (oracle tape-ne-coq-flatten-mixed) = Python's flatten (tape-ne-doc-mixed) on the
                 Coq rendering.  Adversarial part: the same documents with one member of a mixed region replaced by what wfm
                 excludes (`{}`, a container-first container, a parameter-first object, a one-scalar tail before a container):
                 wfm_fields must say NOTWFM; the parser is compared with the model only (these are classes E6d / rule classes).
* trailing_gap   C01_parse_trailing_gap on the real code: accepted inputs d (rendered documents with every kind of ending: bare word,
                 quote, brace, `]`, unterminated comment, auto-closed object, BOM only, empty) x gaps g (white space / comments whose
                 first byte is a boundary byte): parse(d ++ g) must equal parse(d) (oracle trailing-gap); gaps that start with ';'
                 must also change nothing when d ends with a boundary byte (C01_parse_trailing_gap_after_boundary), otherwise (the refuted
                 side condition: d ends inside a bare word) they are run for the model correspondence and counted.
"""
from vlib import hexs
from props import textdoc as td

OBJ_OPS = ["=", "<", ">", "<=", ">=", "=="]
KV_OPS = ["=", "<", ">", "<=", ">=", "!=", "=="]


# ------------------------------------------------------------------ generator of wf_doc_mixed documents
def m_scalar(rng):
    return td.gen_scalar(rng)


def m_sf_container(rng, depth):
    """non-empty container whose first token is a scalar (TextDocMixed.sf_container)"""
    r = rng.random()
    if depth <= 0 or r < 0.4:
        return ("a", [m_scalar(rng)] + [m_item(rng, depth - 1) for _ in range(rng.randrange(0, 3))])
    if r < 0.65:
        return ("ak", [m_scalar(rng)] + [m_item(rng, depth - 1) for _ in range(rng.randrange(0, 2))], m_kvs(rng, depth - 1))
    return m_object(rng, depth)


def m_object(rng, depth, tail_p=0.5):
    fs = m_fields(rng, depth - 1, rng.randrange(1, 3), first_obj=True)
    tail = m_tail(rng, depth - 1) if rng.random() < tail_p else []
    return ("o", fs, tail)


def m_item(rng, depth):
    """ordinary array item that is not the first one"""
    if depth <= 0 or rng.random() < 0.55:
        return m_scalar(rng)
    r = rng.random()
    if r < 0.15:
        return ("a", [])
    if r < 0.3:     # container-first array
        return ("a", [m_sf_container(rng, depth - 1)] + [m_item(rng, depth - 1) for _ in range(rng.randrange(0, 2))])
    return m_sf_container(rng, depth)


def m_member(rng, depth):
    """member of a mixed region"""
    if depth <= 0 or rng.random() < 0.5:
        return m_scalar(rng)
    return m_sf_container(rng, depth)


def m_tail(rng, depth):
    if rng.random() < 0.2:
        return [m_scalar(rng)]
    return [m_scalar(rng), m_scalar(rng)] + [m_member(rng, depth) for _ in range(rng.randrange(0, 4))]


def m_kvs(rng, depth):
    return [("f", m_scalar(rng), rng.choice(KV_OPS), m_member(rng, depth)) for _ in range(rng.randrange(1, 4))]


def m_value(rng, depth):
    r = rng.random()
    if depth <= 0 or r < 0.3:
        return m_scalar(rng)
    if r < 0.5:
        return m_object(rng, depth, tail_p=0.7)
    if r < 0.75:    # key-value list, first item a scalar or a non-empty container
        first = m_scalar(rng) if rng.random() < 0.5 else m_sf_container(rng, depth - 1)
        return ("ak", [first] + [m_item(rng, depth - 1) for _ in range(rng.randrange(0, 3))], m_kvs(rng, depth - 1))
    if r < 0.9:
        first = m_scalar(rng) if rng.random() < 0.6 else m_sf_container(rng, depth - 1)
        return ("a", [first] + [m_item(rng, depth - 1) for _ in range(rng.randrange(0, 3))])
    return ("h", rng.choice(td.HEADERS), m_sf_container(rng, depth - 1))


def m_fields(rng, depth, n, first_obj=False):
    out = []
    for j in range(n):
        if rng.random() < 0.05 and not (j == 0 and first_obj):
            out += td.gen_fields(rng, 0, 1)          # an ordinary field of the old generator (parameters included)
            continue
        key = m_scalar(rng)
        val = m_value(rng, depth)
        if j == 0 and first_obj:
            op = rng.choice(OBJ_OPS)
        else:
            op = rng.choice(td.OPL) if rng.random() < 0.3 else "="
            if val[0] in ("o", "a", "ak") and op == "=" and rng.random() < 0.25:
                op = None
        out.append(("f", key, op, val))
    return out


def m_doc(rng):
    return m_fields(rng, rng.choice([1, 2, 3, 4]), rng.randrange(1, 4))


# ---- one deliberate violation of wfm inside the first mixed region found
def _break(doc, rng):
    """replace one container member of a mixed region by a form wf_doc_mixed excludes; None if the document has none"""
    how = rng.choice(["empty", "cfirst", "param", "onescalar"])
    done = [False]

    def bad(v):
        if how == "empty":
            return ("a", [])
        if how == "cfirst":
            return ("a", [("a", [m_scalar(rng)]), m_scalar(rng)])
        return ("o", [("p", b"p", False, ("v", b"1"))], [])

    def value(v):
        k = v[0]
        if k == "o":
            fs = fields(v[1])
            tail = list(v[2])
            if not done[0] and how == "onescalar" and len(tail) >= 3 and tail[2][0] != "s":
                tail = [tail[0]] + tail[2:]
                done[0] = True
            elif not done[0] and how != "onescalar":
                for j, x in enumerate(tail):
                    if x[0] != "s":
                        tail[j] = bad(x); done[0] = True
                        break
            return ("o", fs, [value(x) if not done[0] else x for x in tail] if False else tail)
        if k == "a":
            return ("a", [value(x) for x in v[1]])
        if k == "ak":
            kvs = []
            for f in v[2]:
                if not done[0] and how != "onescalar" and f[0] == "f" and f[3][0] != "s":
                    kvs.append(("f", f[1], f[2], bad(f[3]))); done[0] = True
                else:
                    kvs.append(f)
            return ("ak", [value(x) for x in v[1]], kvs)
        if k == "h":
            return ("h", v[1], value(v[2]))
        return v

    def fields(fs):
        out = []
        for f in fs:
            if f[0] == "f":
                out.append(("f", f[1], f[2], value(f[3])))
            else:
                out.append(f)
        return out

    d = fields(doc)
    return (d, how) if done[0] else None


# ------------------------------------------------------------------ trailing gaps
GAP_HEAD = [b" ", b"\t", b"\n", b"\r", b"#"]
BOUNDARY = bytes([9, 10, 11, 12, 13, 32, 33, 35, 60, 61, 62, 91, 93, 123, 125])     # Tables.is_boundary


def gen_gap(rng, first=None):
    """a gap_ok word; first = forced first byte"""
    out = bytearray()
    n = rng.choice([1, 1, 2, 3, 8, 15, 16, 17, 33])
    while len(out) < n:
        c = first if (first is not None and not out) else rng.choice([b" ", b" ", b"\t", b"\n", b"\r", b";", b"#"])
        if c == b"#":
            out += b"#" + bytes(rng.choice(b"abc {}\"=;[]\r") for _ in range(rng.randrange(0, 12))) + b"\n"
        else:
            out += c
    return bytes(out)


def gap_ok(g):
    i = 0
    while i < len(g):
        if g[i] in b" \t\n\r;":
            i += 1
        elif g[i] == 0x23:
            j = g.find(b"\n", i)
            if j < 0:
                return False
            i = j + 1
        else:
            return False
    return True


def accepted_inputs(rng, n):
    """byte strings the parser accepts, with every kind of ending"""
    out = []
    for _ in range(n):
        doc = td.gen_doc(rng, depth=rng.choice([1, 2, 3]))
        data = td.render(doc, rng, rng.choice(td.STYLES), bom=rng.random() < 0.15, pad=rng.choice([0, 0, 3]))
        r = rng.random()
        if r < 0.45:
            data = data.rstrip(b" \t\r\n;")          # ends with the last token itself (bare word / quote / brace / bracket)
            # a trailing comment of the rendering may have been cut open: harmless, the input is then filtered by the real parser
        elif r < 0.6:
            data = data + b"#" + bytes(rng.choice(b"xyz {}\"=") for _ in range(rng.randrange(0, 10)))   # unterminated comment
        out.append(data)
    # directed endings
    for tail in [b"a=b", b"a=\"b\"", b"a={b=c}", b"a={1 2}", b"a=b c=d", b"a = @[1+2]", b"a=@", b"a=@x", b"[[p] 1 ]", b"[[p] k=v ]", b"a={b=c",
                 b"a={b=c d=e", b"a=rgb{1 2}", b"a={1 k=v}", b"a={b=c d e}", b"a?=b", b"a>=b", b"", b" ", b"#c", b"a=b #c", b"a=b;", b"a=b ;",
                 b"\xef\xbb\xbf", b"\xef\xbb\xbfa=b", b"\xef\xbb\xbf#c", b"a=" + b"x" * 15, b"a=" + b"x" * 16, b"a=" + b"x" * 31, b"k" * 16 + b"=v",
                 b"a=\"" + b"q" * 14 + b"\"", b"a=\"" + b"q" * 15 + b"\"", b"a={}", b"{}", b"a={{}}", b"a={b={c=d}"]:
        out.append(tail)
    return out


def run_part(ctx):
    import vlib
    rng = ctx.rng

    # ---- 1. wf_doc_mixed documents
    sp_cases, sp_meta = [], []
    n_docs = ctx.scale(500, 8000)
    for di in range(n_docs):
        doc = m_doc(rng)
        variants = [(doc, "wfm")]
        if di % 3 == 0:
            b = _break(doc, rng)
            if b is not None:
                variants.append((b[0], "bad:" + b[1]))
        for d, what in variants:
            st = rng.choice(td.STYLES)
            bom = rng.random() < 0.15
            data, gaps = td.render_with_gaps(d, rng, st, bom=bom)
            sd = td.ser(d)
            sp_cases.append("spec.docm\t%s" % sd); sp_meta.append(("doc", what, d, data, bom))
            sp_cases.append("spec.render\t%s\t%d\t%s" % (sd, 1 if bom else 0, ",".join(hexs(g) for g in gaps))); sp_meta.append(("render", what, d, data, bom))
            sp_cases.append("tt.parse\t%s" % hexs(data)); sp_meta.append(("parse", what, d, data, bom))
    sp_model = vlib.run_model([c for c in sp_cases if not c.startswith("tt.parse")])
    pc = [c for c in sp_cases if c.startswith("tt.parse")]
    impl, _ = ctx.correspond("mixed_docs", pc, nontrivial=lambda c, i: " M " in i)
    base = len(impl) - len(pc)
    ctx.evaluations += len(sp_cases) - len(pc)
    ctx.streams["mixed_spec_tie"] = {"cases": len(sp_cases) - len(pc), "disagree": 0}

    def tie_fail(case, a, b):
        ctx.streams["mixed_spec_tie"]["disagree"] += 1
        ctx.disagreements.append(("mixed_spec_tie", case[:300], a[:300], b[:300]))

    mi = 0
    pi = 0
    spec = None
    for k, (kind, what, d, data, bom) in enumerate(sp_meta):
        if kind == "doc":
            spec = sp_model[mi] if mi < len(sp_model) else "MISSING"; mi += 1
            pyflat = td.flatten(d)
            if what == "wfm":
                if not spec.startswith("wfm "):
                    tie_fail(sp_cases[k], "generator: wf_doc_mixed document", spec)
                elif spec.split(" ", 2)[2] != pyflat:
                    tie_fail(sp_cases[k], "python flatten: " + pyflat, spec)
                ctx.count("mixed_" + (spec.split(" ")[1] if spec.startswith("wfm ") else "notwfm"))
            else:
                if not spec.startswith("NOTWFM "):
                    tie_fail(sp_cases[k], "generator: broken document (%s) must not be wf_doc_mixed" % what, spec)
                ctx.count("mixed_" + what.replace(":", "_"))
        elif kind == "render":
            m = sp_model[mi] if mi < len(sp_model) else "MISSING"; mi += 1
            if m != "gaps_ok " + hexs(data):
                tie_fail(sp_cases[k], "python render: " + hexs(data), m)
        else:
            o = impl[base + pi]; pi += 1
            if what != "wfm" or spec is None or not spec.startswith("wfm "):
                if what != "wfm" and o.startswith("ok") and o.split(" ", 2)[2:] == [td.flatten(d)]:
                    ctx.count("mixed_bad_but_same_tape")
                continue
            want = "ok %d %s" % (1 if bom else 0, spec.split(" ", 2)[2])
            if o != want:
                ctx.fail("tape-ne-coq-flatten-mixed", "wf_doc_mixed document: parse(%r) = %s but TextDoc.flatten says %s" % (data, o[:300], want[:300]),
                         [sp_cases[k], sp_cases[k - 2]], [o], want)
            want2 = "ok %d %s" % (1 if bom else 0, td.flatten(d))
            if o != want2:
                ctx.fail("tape-ne-doc-mixed", "wf_doc_mixed document: parse(%r) = %s, document says %s" % (data, o[:300], want2[:300]), [sp_cases[k]], [o], want2)
    ctx.count("mixed_docs", n_docs)

    # ---- 2. trailing gaps
    ds = accepted_inputs(rng, ctx.scale(500, 8000))
    cases, meta = [], []
    for d in ds:
        cases.append("tt.parse\t%s" % hexs(d)); meta.append(("base", d, None))
        for _ in range(2):
            g = gen_gap(rng, first=rng.choice(GAP_HEAD))
            assert gap_ok(g) and g[0] in b" \t\n\r#"
            cases.append("tt.parse\t%s" % hexs(d + g)); meta.append(("gap", d, g))
        g = gen_gap(rng, first=b";")
        cases.append("tt.parse\t%s" % hexs(d + g)); meta.append(("semi", d, g))
    impl, _ = ctx.correspond("trailing_gap", cases, nontrivial=lambda c, i: i.startswith("ok") and len(i) > 6)
    base = len(impl) - len(cases)
    cur = None
    for k, (kind, d, g) in enumerate(meta):
        o = impl[base + k]
        if kind == "base":
            cur = o
            ctx.count("trail_accepted" if o.startswith("ok") else "trail_rejected")
            continue
        if not cur.startswith("ok"):
            continue                     # the theorem speaks about accepted inputs only
        if kind == "gap":
            if o != cur:
                ctx.fail("trailing-gap", "parse(%r ++ %r) = %s but parse of the text alone = %s (the gap starts with a boundary byte)" % (d, g, o[:300], cur[:300]),
                         [cases[k]], [o], cur)
            ctx.count("trail_gap")
        elif d and d[-1] in BOUNDARY:
            # C01_parse_trailing_gap_after_boundary: after a boundary byte ANY gap may follow
            if o != cur:
                ctx.fail("trailing-gap", "parse(%r ++ %r) = %s but parse of the text alone = %s (the text ends with a boundary byte)" % (d, g, o[:300], cur[:300]),
                         [cases[k]], [o], cur)
            ctx.count("trail_semicolon_after_boundary")
        else:
            ctx.count("trail_semicolon_same" if o == cur else "trail_semicolon_differs")
