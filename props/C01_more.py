"""C01, wave 4 (a_c01): streams and oracles for the clauses the first build left open.

* layouts_adj   every construct of the abstract model (incl. headers over objects / nested arrays /
                quoted items, parameter blocks first in an object, arrays of objects) rendered with
                ADVERSARIAL gaps: a comment or ';' directly after an operator / a quote / a brace, a
                comment glued to a bare word, lone CR, an unterminated comment at the end of input,
                BOM + padding, 0..32 bytes of left padding, the `=` before `{` toggled on the same
                document, bare / quoted scalars of 15/16/17/31/32/33 bytes that END within the last
                16 bytes of the input.  Oracle: tape = textdoc.flatten(document) (independent of the
                model; the Python flatten is tied to TextDoc.flatten by C01's spec_tie stream).
* excluded      exactly the documents C01_parse_render's hypothesis wf_doc leaves out (audit/C01.md
                E1..E7): the oracle knows, per class, the reading the format's look-ahead rules give
                and reports (a) agreement with the document, (b) the known deviation (finding or
                documented rule), (c) anything else = violation.
* chain         2..6 documents parsed into ONE tape (rejected inputs, BOM documents, empty input in
                the pool); every step must equal the parse of that document into a fresh tape
                (implementation against implementation, no model involved).
* nonx86        the cfg(not(target_arch = "x86_64")) scanners (SWAR parse_quote_scalar, split_at_scalar
                = fallback) run under Miri for target i686 (when the nightly toolchain with Miri is
                there), compared with the byte-wise specifications and with the x86-64 results.
"""
import hashlib
import os
import subprocess
from vlib import hexs, unhex
import vlib
from props import textdoc as td

KEY_NE = "M-first-ne"
KEY_EXISTS = "Q-exists-op-lost"

BOUNDARY_START = set(b"\t\n\x0b\x0c\r !#<=>[]}{")
STRADDLE = [15, 16, 17, 31, 32, 33]


# ------------------------------------------------------------------ richer documents
def word(rng, n):
    return bytes(rng.choice(b"abcdefghijklmnopqrstuvwxyz0123456789_.-'|%:") for _ in range(n))


def qbody(rng, n):
    """quoted content of exactly n bytes (escapes count two)"""
    out = bytearray()
    while len(out) < n:
        r = rng.random()
        if r < 0.08 and len(out) + 2 <= n:
            out += b'\\"'
        elif r < 0.12 and len(out) + 2 <= n:
            out += b"\\\\"
        elif r < 0.3:
            out += bytes([rng.choice(b" {}=#[]<>!;\n\t\r")])
        elif r < 0.36:
            out += bytes([rng.choice([0xe9, 0xfc, 0x80, 0xff, 0xa2, 0xbd])])
        else:
            out += bytes([rng.choice(b"abcdefghijklmnopqrstuvwxyz0123456789_.")])
    return bytes(out)


def straddle_scalar(rng):
    n = rng.choice(STRADDLE)
    if rng.random() < 0.5:
        return ("s", "U", (b"@" if rng.random() < 0.2 else b"") + word(rng, n))
    return ("s", "Q", qbody(rng, n - 1))     # closing quote = byte n-1 of the haystack (15: last byte of a block)


def rich_value(rng, depth):
    """constructs the base generator does not (or rarely) produce"""
    r = rng.random()
    if r < 0.18:      # header over an object
        fs = td.gen_fields(rng, 0, rng.randrange(1, 4), params=False)
        f0 = fs[0]
        fs[0] = ("f", f0[1], rng.choice(["=", "<", ">", "<=", ">=", "=="]), f0[3])
        return ("h", rng.choice(td.HEADERS), ("o", fs, []))
    if r < 0.32:      # header over nested arrays / quoted items
        items = [rng.choice([td.gen_scalar(rng), ("a", [td.gen_scalar(rng) for _ in range(rng.randrange(1, 3))])]) for _ in range(rng.randrange(1, 4))]
        return ("h", rng.choice(td.HEADERS), ("a", items))
    if r < 0.4:       # header over an array that turns into a key-value list
        return ("h", rng.choice(td.HEADERS), ("ak", [td.gen_scalar(rng)], td.gen_fields(rng, 0, 1, ops=["=", "<", ">=", "!=", "=="])))
    if r < 0.55:      # parameter block first in an object
        name = rng.choice([b"p", b"scaled_skill", word(rng, rng.choice(STRADDLE))])
        if rng.random() < 0.5:
            p = ("p", name, rng.random() < 0.5, ("v", rng.choice([b"1", b"foo", word(rng, rng.choice(STRADDLE))])))
        else:
            pf = td.gen_fields(rng, 0, rng.randrange(1, 3), params=False)
            pf[0] = ("f", ("s", "U", rng.choice([b"if", b"k_1", word(rng, 16)])), pf[0][2] or "=", pf[0][3])
            p = ("p", name, rng.random() < 0.5, ("o", pf))
        return ("o", [p] + td.gen_fields(rng, 0, rng.randrange(0, 3), params=False), [])
    if r < 0.7:       # array of objects / of empty containers (not first)
        items = []
        for _ in range(rng.randrange(1, 4)):
            fs = td.gen_fields(rng, max(depth - 1, 0), rng.randrange(1, 3), params=False)
            f0 = fs[0]
            fs[0] = ("f", f0[1], rng.choice(["=", "<", ">"]), f0[3])
            items.append(("o", fs, []))
            if rng.random() < 0.3:
                items.append(("a", []))
        return ("a", items)
    if r < 0.85:      # scalars whose end straddles a block
        return straddle_scalar(rng)
    return ("a", [straddle_scalar(rng) for _ in range(rng.randrange(1, 4))])


def rich_doc(rng):
    doc = td.gen_doc(rng, depth=rng.choice([1, 2, 3]))
    for _ in range(rng.randrange(1, 4)):
        key = straddle_scalar(rng) if rng.random() < 0.3 else td.gen_scalar(rng)
        val = rich_value(rng, 2)
        op = rng.choice(td.OPL) if rng.random() < 0.4 else "="
        if val[0] in ("o", "a", "ak") and op == "=" and rng.random() < 0.4:
            op = None
        doc.insert(rng.randrange(0, len(doc) + 1), ("f", key, op, val))
    return doc


def toggle_eq(doc, rng):
    """the same document with `=` before `{` added / removed wherever the grammar allows both
    (not for the first member of a nested object: there the look-ahead decides the container kind)"""
    def fields(fs, nested):
        out = []
        for i, f in enumerate(fs):
            if f[0] == "p":
                pv = f[3]
                out.append(("p", f[1], f[2], pv if pv[0] == "v" else ("o", [pv[1][0]] + fields(pv[1][1:], False))))
                continue
            _, key, op, val = f
            val = value(val)
            if val[0] in ("o", "a", "ak") and op in ("=", None) and not (nested and i == 0) and rng.random() < 0.7:
                op = None if op == "=" else "="
            out.append(("f", key, op, val))
        return out

    def value(v):
        if v[0] == "o":
            return ("o", fields(v[1], True), v[2])
        if v[0] == "a":
            return ("a", [value(x) for x in v[1]])
        if v[0] == "ak":
            return ("ak", [value(x) for x in v[1]], v[2])
        if v[0] == "h":
            return ("h", v[1], value(v[2]))
        return v
    return fields(doc, False)


# ------------------------------------------------------------------ token stream + adversarial gaps
def tokens(doc):
    toks = []

    def sc(s):
        toks.append((b'"' + s[2] + b'"', "q") if s[1] == "Q" else (s[2], "u"))

    def fields(fs):
        for f in fs:
            if f[0] == "p":
                _, name, undefined, pv = f
                toks.append((b"[[" + (b"!" if undefined else b"") + name + b"]", "b"))
                if pv[0] == "v":
                    toks.append((pv[1], "u"))
                else:
                    fields(pv[1])
                toks.append((b"]", "b"))
                continue
            _, key, op, val = f
            sc(key)
            if op is not None:
                toks.append((op.encode(), "op"))
            value(val)

    def value(v):
        k = v[0]
        if k == "s":
            sc(v)
        elif k == "o":
            toks.append((b"{", "b")); fields(v[1]); [value(x) for x in v[2]]; toks.append((b"}", "b"))
        elif k == "a":
            toks.append((b"{", "b")); [value(x) for x in v[1]]; toks.append((b"}", "b"))
        elif k == "ak":
            toks.append((b"{", "b")); [value(x) for x in v[1]]; fields(v[2]); toks.append((b"}", "b"))
        elif k == "h":
            toks.append((v[1], "u")); value(v[2])
    fields(doc)
    return toks


COMMENT_BYTES = b"abc xyz{}\"=#[]<>!?;\\\r\t@" + bytes([0xe9, 0xef, 0xbb, 0xbf])


def comment(rng, terminated=True):
    n = rng.choice([0, 0, 1, 2, 6, 7, 8, 14, 15, 16, 17, rng.randrange(0, 40)])
    return b"#" + bytes(rng.choice(COMMENT_BYTES) for _ in range(n)) + (b"\n" if terminated else b"")


def ws_piece(rng):
    return rng.choice([b" ", b" ", b"\n", b"\r\n", b"\t", b"\r", b";", b";;", b" ; ", b"\n\t\t", b" " * rng.randrange(2, 18)])


def adv_gap(rng, prev_kind, must, pcomment=0.35):
    """a gap in which the FIRST byte is as hostile as the grammar allows: after a bare word a
    boundary byte ('#', white space; not ';' which would extend the word), after anything else also ';'"""
    r = rng.random()
    if r < pcomment:
        first = comment(rng)
    elif r < 0.55 and not must:
        first = b""
    else:
        first = ws_piece(rng)
        if prev_kind == "u":
            while first[:1] == b";":
                first = ws_piece(rng)
    out = first
    for _ in range(rng.choice([0, 0, 0, 1, 2, 3])):
        out += comment(rng) if rng.random() < 0.3 else ws_piece(rng)
    if must and not out:
        out = b" "
    if prev_kind == "u" and out[:1] == b";":
        out = rng.choice([b" ", b"\n", b"\t", b"#\n"]) + out
    return out


def render_adv(doc, rng, bom=False, pad=0, tail_comment=False, eof_dist=0, pcomment=0.35):
    toks = tokens(doc)
    out = bytearray(b"\xef\xbb\xbf" if bom else b"")
    for _ in range(pad):
        out += rng.choice([b" ", b"\n", b"\t", b"\r", b";"])
    for i, (b, kind) in enumerate(toks):
        out += b
        if i + 1 < len(toks):
            must = kind == "u" and toks[i + 1][0][0] not in BOUNDARY_START
            out += adv_gap(rng, kind, must, pcomment)
    last = toks[-1][1] if toks else "b"
    g = bytearray()
    for _ in range(eof_dist):
        g += rng.choice([b" ", b"\n", b"\t"])
    if last == "u" and g[:1] == b";":
        g = b" " + g
    out += g
    if tail_comment:
        out += comment(rng, terminated=False)
    return bytes(out)


# ------------------------------------------------------------------ the excluded classes
def sc_u(b):
    return ("s", "U", b)


def simple_scalar(rng):
    if rng.random() < 0.3:
        return ("s", "Q", qbody(rng, rng.choice([0, 1, 3, 14, 15, 16])))
    return sc_u(rng.choice([b"a", b"b4", b"1444.11.11", b"-1.000", b"yes", b"x" * 15, b"y" * 16, b"caf\xe9", b"@v"]))


def kv_fields(rng, n, ops=("=", "<", ">", "<=", ">=", "!=", "==")):
    return [("f", simple_scalar(rng), rng.choice(ops), simple_scalar(rng)) for _ in range(n)]


def sf_container(rng):
    """non-empty container whose first member is a scalar"""
    r = rng.random()
    if r < 0.5:
        return ("a", [simple_scalar(rng) for _ in range(rng.randrange(1, 4))])
    fs = kv_fields(rng, rng.randrange(1, 3), ops=("=", "<", ">"))
    return ("o", fs, [])


def excluded_case(rng):
    """(class, document, reading, verdict): `reading` = the document the look-ahead rules of the
    format turn the text into; verdict = 'same' (reading is the document), 'finding:<key>',
    'rule' (documented / unavoidable, not a finding)"""
    c = rng.choice(["E1a", "E1b", "E1c", "E2", "E2", "E3", "E3", "E3q", "E4", "E5", "E6a", "E6b", "E6c", "E6d", "E7a", "E7b", "E8"])
    k0 = sc_u(rng.choice([b"k", b"key", b"w" * 16]))
    outer = sc_u(rng.choice([b"a", b"outer", b"o" * 15]))
    rest = kv_fields(rng, rng.randrange(0, 3))

    def wrap(v, rv):
        pre = kv_fields(rng, rng.randrange(0, 2))
        post = kv_fields(rng, rng.randrange(0, 2))
        return pre + [("f", outer, "=", v)] + post, pre + [("f", outer, "=", rv)] + post

    if c == "E1a":      # first member `k { .. }` without '=': the text is ALSO the rendering of an array [k, {..}]
        inner = sf_container(rng)
        v = ("o", [("f", k0, None, inner)] + rest, [])
        rv = ("ak", [k0, inner], rest) if rest else ("a", [k0, inner])
        d, rd = wrap(v, rv)
        return c, d, rd, "rule"
    if c == "E1b":      # first operator `!=`
        f0 = ("f", k0, "!=", simple_scalar(rng))
        v = ("o", [f0] + rest, [])
        rv = ("ak", [], [f0] + rest)
        d, rd = wrap(v, rv)
        return c, d, rd, "finding:" + KEY_NE
    if c == "E1c":      # first operator `?=`: only recognised directly after an object key
        val = simple_scalar(rng)
        v = ("o", [("f", k0, "?=", val)] + rest, [])
        rv = ("ak", [k0], [("f", sc_u(b"?"), "=", val)] + rest)
        d, rd = wrap(v, rv)
        return c, d, rd, "finding:" + KEY_EXISTS
    if c == "E2":       # object whose bare-value tail contains containers
        tail = [simple_scalar(rng), simple_scalar(rng)]   # `s {` would read as a field: two scalars open the tail
        for _ in range(rng.randrange(1, 4)):
            tail.append(sf_container(rng) if rng.random() < 0.5 else simple_scalar(rng))
        v = ("o", kv_fields(rng, rng.randrange(1, 3), ops=("=", "<", ">", "==")), tail)
        d, rd = wrap(v, v)
        return c, d, rd, "same"
    if c == "E3":       # array -> key-value list with container values / container items first
        items = [sf_container(rng) if rng.random() < 0.4 else simple_scalar(rng) for _ in range(rng.randrange(1, 4))]
        kvs = []
        for _ in range(rng.randrange(1, 4)):
            kvs.append(("f", simple_scalar(rng), rng.choice(["=", "<", ">", "<=", ">=", "!=", "=="]), sf_container(rng) if rng.random() < 0.4 else simple_scalar(rng)))
        if items[-1][0] != "s":
            items.append(simple_scalar(rng))
        v = ("ak", items, kvs)
        d, rd = wrap(v, v)
        return c, d, rd, "same"
    if c == "E3q":      # `?=` in the key-value part of an array
        it = [simple_scalar(rng) for _ in range(rng.randrange(1, 3))]
        val = simple_scalar(rng)
        v = ("ak", it, [("f", k0, "?=", val)])
        rv = ("ak", it + [k0], [("f", sc_u(b"?"), "=", val)])
        d, rd = wrap(v, rv)
        return c, d, rd, "finding:" + KEY_EXISTS
    if c == "E4":       # header inside an array: the text is ALSO the rendering of [name, {..}]
        inner = ("a", [simple_scalar(rng) for _ in range(rng.randrange(1, 4))])
        pre = [simple_scalar(rng) for _ in range(rng.randrange(0, 3))]
        name = rng.choice(td.HEADERS)
        v = ("a", pre + [("h", name, inner)])
        rv = ("a", pre + [sc_u(name), inner])
        d, rd = wrap(v, rv)
        return c, d, rd, "rule"
    if c == "E5":       # header over `{}`: the empty pair after a value is the ghost-object rule
        name = rng.choice(td.HEADERS)
        d, rd = wrap(("h", name, ("a", [])), sc_u(name))
        return c, d, rd, "rule"
    if c == "E6a":      # leading `{}` items of an array are skipped
        n = rng.randrange(1, 3)
        more = [simple_scalar(rng) for _ in range(rng.randrange(0, 3))]
        d, rd = wrap(("a", [("a", [])] * n + more), ("a", more))
        return c, d, rd, "rule"
    if c == "E6b":      # `{}` in key position (ghost object) is skipped
        pre = kv_fields(rng, rng.randrange(0, 3))
        post = kv_fields(rng, rng.randrange(0, 3))
        return c, pre + [("ghost",)] + post, pre + post, "rule"
    if c == "E6c":      # leading `{}` then a field: the container is an object
        fs = kv_fields(rng, rng.randrange(1, 3), ops=("=", "<", ">"))
        d, rd = wrap(("ghostfirst", fs), ("o", fs, []))
        return c, d, rd, "rule"
    if c == "E6d":      # stale mixed flag: `{}` as the first nested container of a mixed region
        it = [simple_scalar(rng)]
        kvs = kv_fields(rng, 1, ops=("=", "<", ">"))
        kv2 = kv_fields(rng, rng.randrange(1, 3), ops=("=", "<", ">"))
        v = ("ak", it, kvs + [("f", sc_u(b"e"), "=", ("a", []))] + kv2)
        d, rd = wrap(v, v)
        return c, d, rd, "proj"
    if c == "E7a":      # parameter value / first key of a parameter object written with quotes: scanned as a bare word
        q = b'"' + rng.choice([b"q", b"abc", b"x" * 14]) + b'"'
        name = rng.choice([b"p", b"par_1"])
        und = rng.random() < 0.5
        d = kv_fields(rng, rng.randrange(0, 2)) + [("p", name, und, ("vq", q))]
        rd = d[:-1] + [("p", name, und, ("v", q))]
        return c, d, rd, "rule"
    if c == "E7b":      # parameter object whose first member has no '=' before its container
        name = rng.choice([b"p", b"par_1"])
        und = rng.random() < 0.5
        pf = [("f", sc_u(b"if"), None, sf_container(rng))] + kv_fields(rng, rng.randrange(0, 2), ops=("=",))
        d = kv_fields(rng, rng.randrange(0, 2)) + [("p", name, und, ("o", pf))]
        return c, d, d, "same"
    # E8: first member of a nested object is a header field / `k = { }` chains with quoted keys
    v = ("o", [("f", simple_scalar(rng), "=", ("h", rng.choice(td.HEADERS), ("a", [simple_scalar(rng)])))] + rest, [])
    d, rd = wrap(v, v)
    return c, d, rd, "same"


def tokens_x(doc):
    """tokens() extended with the pseudo members of the excluded classes"""
    toks = []
    for f in doc:
        if f == ("ghost",):
            toks += [(b"{", "b"), (b"}", "b")]
        elif f[0] == "f" and f[3][0] == "ghostfirst":
            toks += tokens([("f", f[1], f[2], ("a", []))])[:-1]
            toks += [(b"{", "b"), (b"}", "b")] + tokens(f[3][1]) + [(b"}", "b")]
        elif f[0] == "p" and f[3][0] == "vq":
            toks += [(b"[[" + (b"!" if f[2] else b"") + f[1] + b"]", "b"), (f[3][1], "u"), (b"]", "b")]
        else:
            toks += tokens([f])
    return toks


def render_tokens(toks, rng, style):
    lay = td.Layout(rng, style)
    out = bytearray()
    for i, (b, kind) in enumerate(toks):
        out += b
        if i + 1 < len(toks):
            out += lay.gap(kind == "u" and toks[i + 1][0][0] not in BOUNDARY_START)
    return bytes(out)


def projection(tape):
    """what every reading must preserve: scalars (kind + bytes), operators other than `=`, nesting"""
    out = []
    for t in ([] if tape in ("-", "") else tape.split(" ")):
        if t == "M" or t == "OP:6":
            continue
        if t[0] in "AO" and t[1] == ":":
            out.append("{")
        elif t.startswith("E:"):
            out.append("}")
        else:
            out.append(t)
    return " ".join(out)


# ------------------------------------------------------------------ Miri (non-x86-64 code paths)
MIRI_TARGET = "i686-unknown-linux-gnu"


def miri_run(cases, timeout=420):
    """run harness cases under `cargo +nightly miri` for a 32-bit x86 target, where
    cfg(not(target_arch = "x86_64")) selects the SWAR parse_quote_scalar and the plain
    split_at_scalar.  Returns (outputs | None, note)."""
    d = vlib.harness_dir()
    env = dict(vlib.ENV, RUSTFLAGS=vlib.RUSTFLAGS, MIRIFLAGS="-Zmiri-disable-isolation",
               CARGO_TARGET_DIR=os.path.join(vlib.CACHE, "target-miri"))
    base = ["cargo", "+nightly", "miri"]
    try:
        p = subprocess.run(base + ["--version"], cwd=d, env=env, stdout=subprocess.PIPE, stderr=subprocess.PIPE, timeout=60)
        if p.returncode != 0:
            return None, "cargo +nightly miri not available"
        p = subprocess.run(base + ["setup", "--target", MIRI_TARGET], cwd=d, env=env, stdout=subprocess.PIPE, stderr=subprocess.PIPE, timeout=timeout)
        if p.returncode != 0:
            return None, "miri sysroot for %s cannot be built offline" % MIRI_TARGET
        # build once (so that the shards do not race on the target directory)
        p = subprocess.run(base + ["run", "--offline", "-q", "--target", MIRI_TARGET], cwd=d, env=env, input=b"", stdout=subprocess.PIPE, stderr=subprocess.PIPE, timeout=timeout)
        if p.returncode != 0:
            return None, "harness does not build under miri: " + p.stderr.decode("utf-8", "replace")[-300:]
    except (OSError, subprocess.TimeoutExpired) as e:
        return None, "miri: %s" % e
    from concurrent.futures import ThreadPoolExecutor
    n = min(12, max(1, len(cases) // 8))
    size = (len(cases) + n - 1) // n
    chunks = [cases[k:k + size] for k in range(0, len(cases), size)]

    def one(ch):
        try:
            q = subprocess.run(base + ["run", "--offline", "-q", "--target", MIRI_TARGET], cwd=d, env=env,
                               input=("\n".join(ch) + "\n").encode(), stdout=subprocess.PIPE, stderr=subprocess.PIPE, timeout=timeout)
        except subprocess.TimeoutExpired:
            return ["MIRI-HANG"] * len(ch)
        lines = q.stdout.decode("utf-8", "replace").split("\n")
        if lines and lines[-1] == "":
            lines.pop()
        if q.returncode != 0:
            # undefined behaviour / abort: the case after the last printed line is the culprit
            lines = lines + ["MIRI-UB:" + q.stderr.decode("utf-8", "replace").strip().split("\n")[0][:160]]
        return (lines + ["MIRI-MISSING"] * len(ch))[:len(ch)]
    with ThreadPoolExecutor(max_workers=n) as ex:
        res = list(ex.map(one, chunks))
    return [x for r in res for x in r], "ok"


def quote_spec(d):
    pos = 1
    while pos < len(d):
        if d[pos] == 0x5c:
            pos += 2
        elif d[pos] == 0x22:
            return "%s %s" % (hexs(d[1:pos]), hexs(d[pos + 1:]))
        else:
            pos += 1
    return "ERR"


def split_spec(d):
    BOUND = set([9, 10, 11, 12, 13, 32, 33, 35, 60, 61, 62, 91, 93, 123, 125])
    idx = max(next((i for i, x in enumerate(d) if x in BOUND), len(d)), 1)
    return "%s %s" % (hexs(d[:idx]), hexs(d[idx:]))


# ------------------------------------------------------------------ the streams
def run_part(ctx):
    rng = ctx.rng

    # ---- 1. adversarial layouts
    cases, meta = [], []
    for di in range(ctx.scale(450, 7000)):
        doc = rich_doc(rng)
        exp = td.flatten(doc)
        variants = [doc, toggle_eq(doc, rng)]
        for vi in range(3):
            d = variants[vi % 2]
            bom = rng.random() < 0.2
            pad = rng.choice([0, 0, 1, 3, 8, 15, 16, 17, 31, 32, rng.randrange(0, 33)])
            tailc = rng.random() < 0.3
            data = render_adv(d, rng, bom=bom, pad=pad, tail_comment=tailc, eof_dist=rng.choice([0, 0, 1, 2, 14, 15, 16, 17, rng.randrange(0, 20)]),
                              pcomment=rng.choice([0.1, 0.35, 0.7]))
            cases.append("tt.parse\t%s" % hexs(data)); meta.append((exp, bom, data, "toggled" if vi % 2 else "asis", tailc))
        ctx.count("adj_docs")
    # the empty document (and white space / comments only), with and without BOM
    for bom in (False, True):
        for j in range(7):
            data = render_adv([], rng, bom=bom, pad=rng.choice([0, 0, 1, 16, 33]) if j else 0, tail_comment=(rng.random() < 0.4 if j > 1 else j == 1), eof_dist=rng.choice([0, 0, 3]) if j > 1 else 0)
            cases.append("tt.parse\t%s" % hexs(data)); meta.append(("-", bom, data, "empty", False))
    # scalars that end exactly 0..16 bytes before the end of input (the SIMD loop / tail switch), one field each
    for n in STRADDLE + [47, 48, 49]:
        for dist in range(0, 18):
            for kind in ("U", "Q", "K"):
                w = word(rng, n)
                if kind == "U":
                    doc = [("f", sc_u(b"k"), "=", sc_u(w))]
                elif kind == "Q":
                    doc = [("f", sc_u(b"k"), "=", ("s", "Q", qbody(rng, n)))]
                else:
                    doc = [("f", sc_u(w), rng.choice(td.OPL), sc_u(b"v"))]
                data = render_adv(doc, rng, pad=rng.randrange(0, 4), eof_dist=0, pcomment=0.0)
                if kind == "K":
                    data += b" " * max(0, dist - 2)
                else:
                    data += rng.choice([b" ", b"\n"]) * dist
                cases.append("tt.parse\t%s" % hexs(data)); meta.append((td.flatten(doc), False, data, "eofdist", False))
    impl, _ = ctx.correspond("layouts_adj", cases, nontrivial=lambda c, i: (" A:" in i or " O:" in i or " OP:" in i))
    base = len(impl) - len(cases)
    for k, (exp, bom, data, how, tailc) in enumerate(meta):
        want = "ok %d %s" % (1 if bom else 0, exp)
        if impl[base + k] != want:
            ctx.fail("tape-ne-doc-adj", "adversarial layout (%s%s): parse(%r) = %s, document says %s" % (how, ", unterminated trailing comment" if tailc else "", data, impl[base + k][:400], want[:400]),
                     [cases[k]], [impl[base + k]], want)
        ctx.count("adj_" + how)
        if tailc:
            ctx.count("adj_tail_comment")
    fresh = {cases[k].split("\t")[1]: impl[base + k] for k in range(len(cases))}

    # ---- 1b. Operator::symbol / name / Display of the operator tokens (src/text/operator.rs)
    NAMES = ["LESS_THAN", "LESS_THAN_EQUAL", "GREATER_THAN", "GREATER_THAN_EQUAL", "NOT_EQUAL", "EXACT", "EQUAL", "EXISTS"]
    oc, om = [], []
    for k in range(0, len(cases), max(1, len(cases) // ctx.scale(300, 3000))):
        ops = [int(t[3:]) for t in meta[k][0].split(" ") if t.startswith("OP:")]
        oc.append("tt.ops\t" + cases[k].split("\t")[1]); om.append(ops)
    oimpl, _ = ctx.correspond("operators", oc, nontrivial=lambda c, i: len(i) > 4)
    obase = len(oimpl) - len(oc)
    for k, ops in enumerate(om):
        want = "ok " + (" ".join("%d:%s:%s:%s" % (o, hexs(td.OPL[o].encode()), NAMES[o], hexs(td.OPL[o].encode())) for o in ops) or "-")
        if oimpl[obase + k] != want:
            ctx.fail("operator-symbol", "symbol()/name()/Display of the tape's operator tokens differ from the operators of the document: %s, expected %s" % (oimpl[obase + k][:200], want[:200]), [oc[k]], [oimpl[obase + k]], want)

    # ---- 2. the classes wf_doc excludes
    cases, meta = [], []
    for _ in range(ctx.scale(1400, 20000)):
        cls, doc, reading, verdict = excluded_case(rng)
        data = render_tokens(tokens_x(doc), rng, rng.choice(td.STYLES))
        if rng.random() < 0.3:
            data += b" " * rng.choice([1, 15, 16, 17])
        try:
            said = td.flatten([f for f in doc if f != ("ghost",)]) if cls not in ("E6c", "E7a") else None
        except Exception:
            said = None
        cases.append("tt.parse\t%s" % hexs(data)); meta.append((cls, said, td.flatten(reading), verdict, data))
    impl, _ = ctx.correspond("excluded", cases, nontrivial=lambda c, i: i.startswith("ok"))
    base = len(impl) - len(cases)
    for k, (cls, said, read, verdict, data) in enumerate(meta):
        o = impl[base + k]
        ctx.count("excl_" + cls)
        if verdict == "proj":
            # stale mixed flag (DESIGN 7 watch list): only what every reading preserves is demanded
            if not o.startswith("ok 0 ") or projection(o[5:]) != projection(read):
                ctx.fail("excluded-proj", "class %s: parse(%r) = %s loses or reorders scalars / operators / nesting of %s" % (cls, data, o[:300], read[:300]), [cases[k]], [o], projection(read))
            continue
        if o != "ok 0 " + read:
            ctx.fail("excluded-reading", "class %s: parse(%r) = %s, the format's look-ahead rules give %s" % (cls, data, o[:300], read[:300]), [cases[k]], [o], "ok 0 " + read)
        elif verdict.startswith("finding:") and said is not None and o != "ok 0 " + said:
            ctx.fail(verdict[8:], "class %s: parse(%r) = %s, the document says %s" % (cls, data, o[:300], said[:300]), [cases[k]], [o], "ok 0 " + said)
        elif verdict == "same" and said is not None and o != "ok 0 " + said:
            ctx.fail("excluded-reading", "class %s: reading and document differ (generator bug?)" % cls, [cases[k]], [o], "ok 0 " + said)

    # ---- 3. chains of parses into one tape
    pool = list(fresh.keys())
    bad = [hexs(x) for x in (b"", b"a={", b'a="x', b"a=}", b"a=@[x", b"[[x", b"\xef\xbb\xbf", b"\xef\xbb\xbfa=b", b"\xef\xbb\xbfa={", b"\xef\xbb\xbf{", b"a = b",
                             b"}", b"a={b}} c=d", b"\xef\xbb", b"a={1 2 =}", b"x" * 40 + b'="' + b"y" * 40)]
    bom_pool = [h for h in pool if h.startswith("efbbbf")][:200]
    cc = []
    for _ in range(ctx.scale(700, 8000)):
        n = rng.randrange(2, 7)
        docs = []
        for _ in range(n):
            r = rng.random()
            docs.append(rng.choice(bad) if r < 0.35 else (rng.choice(bom_pool) if r < 0.5 and bom_pool else rng.choice(pool)))
        cc.append("tt.chain\t" + "\t".join(docs))
    single = sorted(set(h for c in cc for h in c.split("\t")[1:]) - set(pool))
    simpl = vlib.run_impl(["tt.parse\t" + h for h in single])
    ctx.evaluations += len(single)
    ref = dict(fresh)
    ref.update({h: o for h, o in zip(single, simpl)})
    cimpl, _ = ctx.correspond("chain", cc, nontrivial=lambda c, i: " | ok" in i or i.startswith("ok"))
    cbase = len(cimpl) - len(cc)
    for k, c in enumerate(cc):
        want = " | ".join(ref[h] for h in c.split("\t")[1:])
        if cimpl[cbase + k] != want:
            ctx.fail("reuse-chain", "a document parsed into a used tape (after rejected inputs / BOM documents) differs from its parse into a fresh tape, or parse_slice differs from parse_slice_into_tape",
                     [c], [cimpl[cbase + k][:600]], want[:600])

    # ---- 4. the code paths of other architectures, under Miri
    mc = []
    for n in list(range(0, 20)) + [23, 24, 25, 31, 32, 33]:
        for pos in list(range(n)) + [None]:
            b = bytearray(rng.choice(b"abcxyz {}=#\xe9") for _ in range(n))
            if pos is not None:
                b[pos] = 0x22
            if rng.random() < 0.3 and n > 0:
                b[rng.randrange(n)] = 0x5c
            mc.append("tt.quote\t%s" % hexs(b'"' + bytes(b)))
    for n in (1, 2, 7, 8, 9, 15, 16, 17, 18, 33):
        for pos in list(range(0, n, 1 if n < 10 else 3)) + [None]:
            b = bytearray(rng.choice(b"abcxyz019_.-\x80\xe9\"'@?;:") for _ in range(n))
            if pos is not None:
                b[pos] = rng.choice([9, 10, 11, 12, 13, 32, 33, 35, 60, 61, 62, 91, 93, 123, 125])
            mc.append("tt.split\t%s" % hexs(b))
    docs = [h for h in pool if len(h) < 400]
    rng.shuffle(docs)
    mc += ["tt.parse\t" + h for h in docs[:ctx.scale(60, 600)]]
    # >>> s_c01 (wave 6): the ladder lengths 63 .. 1025 for the SWAR / plain scanners (own generator state: the streams that follow keep their inputs)
    import random
    from props import C01_sizes
    own = random.Random(ctx.seed ^ 0x6d697269)
    mc += C01_sizes.miri_cases(own)
    own.shuffle(mc)          # miri_run cuts mc into contiguous shards: spread the long cases
    # <<< s_c01
    if os.environ.get("VERIF_NO_MIRI"):
        out, note = None, "disabled by VERIF_NO_MIRI"
    else:
        out, note = miri_run(mc)
    ctx.streams["nonx86"] = {"cases": len(mc) if out else 0, "disagree": 0, "note": note}
    if out is None:
        ctx.notes.append("C01 nonx86 stream skipped: " + note)
    else:
        ctx.evaluations += len(mc)
        # model side: TextTapeMore.parse_quote_scalar_swar / split_at_scalar_plain (the theorems of Props/C01_more.v section 6)
        mm = vlib.run_model([c.replace("tt.quote\t", "tt.quote8\t").replace("tt.split\t", "tt.split_plain\t") for c in mc])
        # a Miri process that ran out of its time budget (interpreter speed depends on the machine's load) is "not run",
        # never an observation of the code: counted in the evidence, no disagreement, no failure
        skipped = {c for c, o in zip(mc, out) if o in ("MIRI-HANG", "MIRI-MISSING")}
        if skipped:
            ctx.count("miri_cases_not_run", len(skipped))
            ctx.notes.append("nonx86: %d of %d Miri cases did not finish within the time budget and were not judged" % (len(skipped), len(mc)))
        for c, o, m in zip(mc, out, mm):
            if c in skipped:
                continue
            if o != m:
                ctx.streams["nonx86"]["disagree"] += 1
                ctx.disagreements.append(("nonx86", c, o, m))
        for c, o in zip(mc, out):
            kind, h = c.split("\t")
            d = unhex(h)
            want = quote_spec(d) if kind == "tt.quote" else split_spec(d) if kind == "tt.split" else fresh.get(h)
            if c in skipped:
                continue
            if o != want:
                ctx.fail("nonx86", "non-x86-64 build (Miri, %s): %s(%r) = %s, expected %s" % (MIRI_TARGET, kind, d, o[:300], str(want)[:300]), [c], [o], want)
            ctx.nontrivial.add(hashlib.md5(("miri\x00" + c + "\x00" + o).encode()).digest()[:8])
        ctx.count("miri_cases", len(mc))
