"""Abstract Clausewitz text documents, their expected tape (`flatten`, the SPEC side of C01) and
layout-parametrised renderings.

doc    := [field]                                   (top level = implicit object body)
field  := ("f", key, op, value)                     op in OPS or None (None = key directly followed by a container)
        | ("p", name, undefined, pvalue)            parameter: pvalue = ("v", scalar) | ("o", [field])
value  := ("s", kind, bytes)                        kind 'U' unquoted, 'Q' quoted (bytes = raw content between the quotes)
        | ("o", [field], tail)                      object; tail = list of bare values (object->array mixed container) or []
        | ("a", [item])                             array; item = value  (scalars, containers)
        | ("ak", [item], [field])                   array that turns into a key-value list (array->kv mixed container)
        | ("h", name, value)                        header: unquoted name + container value ("o" or "a")
"""

OPS = {"<": 0, "<=": 1, ">": 2, ">=": 3, "!=": 4, "==": 5, "=": 6, "?=": 7}
OPL = list(OPS.keys())

UWORDS = [b"a", b"b4", b"foo", b"bar_baz", b"1444.11.11", b"-1.000", b"yes", b"no", b"core", b"x" * 13, b"y" * 15, b"z" * 16,
          b"w" * 17, b"v" * 31, b"u" * 32, b"t" * 35, b"caf\xe9", b"\xc3\xa9t\xc3\xa9", b"k.1", b"A-B", b"0", b"-5", b"@var", b"@[1+2]",
          b"@[a b]", b"1.000", b"tag:ENG", b"a|b", b"x'y", b"q/w", b"p%", b"50%", b"x\xa2y", b"\xc3\xa2ge", b"p\xfbq", b"\xbd\xa0"]
HEADERS = [b"rgb", b"hsv", b"hsv360", b"LIST", b"hex"]


def hexs(b):
    return bytes(b).hex() if len(b) else "-"


# ------------------------------------------------------------------ generation
def gen_scalar(rng, allow_quoted=True):
    if allow_quoted and rng.random() < 0.3:
        n = rng.choice([0, 1, 3, 7, 8, 14, 15, 16, 17, 30, 31, 32, rng.randrange(0, 40)])
        out = bytearray()
        for _ in range(n):
            r = rng.random()
            if r < 0.1:
                out += b'\\"'
            elif r < 0.15:
                out += b"\\\\"
            elif r < 0.3:
                out += bytes([rng.choice(b" {}=#[]<>!;\n\t")])
            elif r < 0.35:
                out += bytes([rng.choice([0xe9, 0xfc, 0x80, 0xff, 0xa2, 0xdc, 0xfb, 0xfd, 0xa3, 0xbd, 0x8a, 0x89, 0xa0])])
            else:
                out += bytes([rng.choice(b"abcdefghijklmnopqrstuvwxyz0123456789_.")])
        return ("s", "Q", bytes(out))
    w = rng.choice(UWORDS)
    if rng.random() < 0.2:
        w = bytes(rng.choice(b"abcdefghijklmnopqrstuvwxyz0123456789_.-") for _ in range(rng.choice([12, 13, 14, 15, 16, 17, 18, 30, 31, 32, 33, 34, 35])))
    return ("s", "U", w)


def gen_key(rng):
    k = gen_scalar(rng)
    return k


def gen_value(rng, depth):
    r = rng.random()
    if depth <= 0 or r < 0.5:
        return gen_scalar(rng)
    if r < 0.68:
        fields = gen_fields(rng, depth - 1, rng.randrange(0, 4))
        tail = []
        if fields and rng.random() < 0.12:
            tail = [gen_scalar(rng) for _ in range(rng.randrange(1, 4))]
        if not fields and not tail:
            return ("a", [])          # `{}` is an empty array on the tape
        # the container kind is decided by what follows the first scalar: only = < > make it an object
        f0 = fields[0]
        if f0[0] == "f" and (f0[2] is None or f0[2] in ("!=", "?=")):
            fields[0] = ("f", f0[1], rng.choice(["=", "<", ">", "<=", ">=", "=="]), f0[3])
        return ("o", fields, tail)
    if r < 0.9:
        items = []
        for _ in range(rng.randrange(0, 5)):
            if depth > 1 and rng.random() < 0.3:
                v = gen_value(rng, depth - 1)
                if v[0] == "s":
                    items.append(v)
                elif v[0] in ("o", "a", "ak"):
                    if v[0] == "a" and not v[1] and not items:
                        continue          # `{}` as first element is ghost-skipped by the parser: not generated here
                    items.append(v)
            else:
                items.append(gen_scalar(rng))
        if items and items[0][0] == "s" and rng.random() < 0.12:
            kv = gen_fields(rng, 0, rng.randrange(1, 3), ops=["=", "<", ">", ">=", "<=", "!=", "=="])
            return ("ak", items, kv)
        return ("a", items)
    name = rng.choice(HEADERS)
    inner = ("a", [gen_scalar(rng, allow_quoted=False) for _ in range(rng.randrange(1, 5))])
    return ("h", name, inner)


def gen_fields(rng, depth, n, ops=None, params=True):
    out = []
    for _ in range(n):
        if params and ops is None and rng.random() < 0.04:
            name = rng.choice([b"p", b"param_1", b"x" * 14])
            if rng.random() < 0.5:
                out.append(("p", name, rng.random() < 0.4, ("v", rng.choice([b"1", b"foo", b"y" * 15]))))
            else:
                pf = gen_fields(rng, 0, rng.randrange(1, 3), params=False)
                # the first key of a parameter object is scanned as an unquoted scalar by the parser
                pf[0] = ("f", ("s", "U", rng.choice([b"k", b"key_1", b"z" * 16])), pf[0][2] or "=", pf[0][3])
                out.append(("p", name, rng.random() < 0.4, ("o", pf)))
            continue
        key = gen_key(rng)
        val = gen_value(rng, depth)
        op = rng.choice(ops) if ops else (rng.choice(OPL) if rng.random() < 0.35 else "=")
        if val[0] == "h" and key[1] != "U":
            pass
        if val[0] in ("o", "a", "ak") and op == "=" and rng.random() < 0.3 and ops is None:
            op = None   # `key {` without '='
        out.append(("f", key, op, val))
    return out


def gen_doc(rng, depth=3, n=None):
    return gen_fields(rng, depth, n if n is not None else rng.randrange(1, 6))


# ------------------------------------------------------------------ spec: the expected tape
def _scalar_tok(s):
    return "%s:%s" % (s[1], hexs(s[2]))


def flatten(doc):
    """canonical tape string (same syntax as the harness prints)"""
    toks = []

    def emit_fields(fields, mixed=False):
        for f in fields:
            if f[0] == "p":
                _, name, undefined, pv = f
                toks.append(("N:" if undefined else "P:") + hexs(name))
                if pv[0] == "v":
                    toks.append("U:" + hexs(pv[1]))
                else:
                    i = len(toks)
                    toks.append(None)
                    emit_fields(pv[1])
                    toks[i] = "O:%d:0" % len(toks)
                    toks.append("E:%d" % i)
                continue
            _, key, op, val = f
            toks.append(_scalar_tok(key))
            if op is not None and (op != "=" or mixed):
                toks.append("OP:%d" % OPS[op])
            emit_value(val)

    def emit_value(v):
        k = v[0]
        if k == "s":
            toks.append(_scalar_tok(v))
        elif k == "o":
            i = len(toks)
            toks.append(None)
            emit_fields(v[1])
            if v[2]:
                toks.append("M")
                for x in v[2]:
                    emit_value(x)
            toks[i] = "O:%d:%d" % (len(toks), 1 if v[2] else 0)
            toks.append("E:%d" % i)
        elif k == "a":
            i = len(toks)
            toks.append(None)
            for x in v[1]:
                emit_value(x)
            toks[i] = "A:%d:0" % len(toks)
            toks.append("E:%d" % i)
        elif k == "ak":
            i = len(toks)
            toks.append(None)
            for x in v[1]:
                emit_value(x)
            toks.append("M")
            emit_fields(v[2], mixed=True)
            toks[i] = "A:%d:1" % len(toks)
            toks.append("E:%d" % i)
        elif k == "h":
            toks.append("H:" + hexs(v[1]))
            emit_value(v[2])

    emit_fields(doc)
    return " ".join(toks) if toks else "-"


# ------------------------------------------------------------------ rendering with a layout
class Layout:
    """gap(must) yields the bytes between two tokens; `must` = a separator is required."""

    def __init__(self, rng, style):
        self.rng = rng
        self.style = style

    def gap(self, must):
        r = self.rng
        st = self.style
        if st == "minimal":
            return b" " if must else b""
        if st == "spaced":
            return b" "
        if st == "crlf":
            return r.choice([b"\r\n", b" ", b"\r\n\t"])
        if st == "tabs":
            return r.choice([b"\n\t\t\t", b"\t", b"\n\t"])
        if st == "comments":
            x = r.random()
            if x < 0.35:
                return b" #" + bytes(r.choice(b"abc {}\"=#[]") for _ in range(r.randrange(0, 20))) + b"\n"
            return r.choice([b" ", b"\n"])
        if st == "semi":
            return r.choice([b" ; ", b" ;", b" "]) if must else r.choice([b"", b" ; ", b" "])
        # wild: anything goes
        x = r.random()
        if x < 0.25:
            return b" " * r.randrange(1, 20)
        if x < 0.4:
            return b"\n" + b"\t" * r.randrange(0, 6)
        if x < 0.5:
            return b"\r\n"
        if x < 0.6:
            return b" #" + bytes(r.choice(b"xyz {}\"=") for _ in range(r.randrange(0, 18))) + b"\n"
        if x < 0.65:
            return b" ; "
        return b" " if must else b""

STYLES = ["minimal", "spaced", "crlf", "tabs", "comments", "semi", "wild", "wild"]


def render(doc, rng, style="wild", bom=False, pad=0, eq_before_brace=None):
    lay = Layout(rng, style)
    out = bytearray()
    if bom:
        out += b"\xef\xbb\xbf"
    out += rng.choice([b" ", b"\n", b"\t"]) * pad if pad else b""
    # token stream: (bytes, kind) kind 'u' = unquoted-like (needs separator from a following non-boundary start), else 'b'
    toks = []

    def sc(s):
        if s[1] == "Q":
            toks.append((b'"' + s[2] + b'"', "q"))
        else:
            toks.append((s[2], "u"))

    def fields(fs, closer=None):
        for f in fs:
            if f[0] == "p":
                _, name, undefined, pv = f
                toks.append((b"[[" + (b"!" if undefined else b"") + name + b"]", "b"))
                if pv[0] == "v":
                    toks.append((pv[1], "u"))
                else:
                    fields(pv[1])
                toks.append((b"]", "b"))
                continue
            _, key, op, val = f
            sc(key)
            if op is not None:
                toks.append((op.encode(), "op"))
            value(val)

    def value(v):
        k = v[0]
        if k == "s":
            sc(v)
        elif k == "o":
            toks.append((b"{", "b"))
            fields(v[1])
            for x in v[2]:
                value(x)
            toks.append((b"}", "b"))
        elif k == "a":
            toks.append((b"{", "b"))
            for x in v[1]:
                value(x)
            toks.append((b"}", "b"))
        elif k == "ak":
            toks.append((b"{", "b"))
            for x in v[1]:
                value(x)
            fields(v[2])
            toks.append((b"}", "b"))
        elif k == "h":
            toks.append((v[1], "u"))
            value(v[2])

    fields(doc)
    BOUNDARY_START = set(b"\t\n\x0b\x0c\r !#<=>[]}{")
    for i, (b, kind) in enumerate(toks):
        out += b
        if i + 1 < len(toks):
            nb = toks[i + 1][0]
            must = kind == "u" and nb[0] not in BOUNDARY_START
            # a '?' is not a boundary: "a?=b" would extend the key
            out += lay.gap(must)
    out += lay.gap(False)
    return bytes(out)


# ------------------------------------------------------------------ serialisation for the Coq spec (TextDoc.v)
def ser(doc):
    """prefix encoding of a document, parsed by ocaml/fam_spec.ml into TextDoc.doc"""
    out = []

    def sv(v):
        k = v[0]
        if k == "s":
            out.extend(["S", v[1], hexs(v[2])])
        elif k == "o":
            out.extend(["O", str(len(v[1]))]); [sf(f) for f in v[1]]
            out.append(str(len(v[2]))); [sv(x) for x in v[2]]
        elif k == "a":
            out.extend(["A", str(len(v[1]))]); [sv(x) for x in v[1]]
        elif k == "ak":
            out.extend(["K", str(len(v[1]))]); [sv(x) for x in v[1]]
            out.append(str(len(v[2]))); [sf(f) for f in v[2]]
        elif k == "h":
            out.extend(["H", hexs(v[1])]); sv(v[2])

    def sf(f):
        if f[0] == "p":
            _, name, undefined, pv = f
            if pv[0] == "v":
                out.extend(["PV", hexs(name), "1" if undefined else "0", hexs(pv[1])])
            else:
                out.extend(["PO", hexs(name), "1" if undefined else "0", str(len(pv[1]))]); [sf(x) for x in pv[1]]
        else:
            _, key, op, val = f
            out.extend(["F", key[1], hexs(key[2]), "-" if op is None else str(OPS[op])]); sv(val)

    out.append(str(len(doc)))
    for f in doc:
        sf(f)
    return " ".join(out)


def render_with_gaps(doc, rng, style="wild", bom=False):
    """like render (no padding) but also returns the list of gaps, gap i preceding token i (last = trailing gap)"""
    lay = Layout(rng, style)
    toks = []

    def sc(s):
        toks.append((b'"' + s[2] + b'"', "q") if s[1] == "Q" else (s[2], "u"))

    def fields(fs):
        for f in fs:
            if f[0] == "p":
                _, name, undefined, pv = f
                toks.append((b"[[" + (b"!" if undefined else b"") + name + b"]", "b"))
                if pv[0] == "v":
                    toks.append((pv[1], "u"))
                else:
                    fields(pv[1])
                toks.append((b"]", "b"))
                continue
            _, key, op, val = f
            sc(key)
            if op is not None:
                toks.append((op.encode(), "op"))
            value(val)

    def value(v):
        k = v[0]
        if k == "s":
            sc(v)
        elif k == "o":
            toks.append((b"{", "b")); fields(v[1]); [value(x) for x in v[2]]; toks.append((b"}", "b"))
        elif k == "a":
            toks.append((b"{", "b")); [value(x) for x in v[1]]; toks.append((b"}", "b"))
        elif k == "ak":
            toks.append((b"{", "b")); [value(x) for x in v[1]]; fields(v[2]); toks.append((b"}", "b"))
        elif k == "h":
            toks.append((v[1], "u")); value(v[2])

    fields(doc)
    BOUNDARY_START = set(b"\t\n\x0b\x0c\r !#<=>[]}{")
    gaps = [b""]
    out = bytearray(b"\xef\xbb\xbf" if bom else b"")
    for i, (b, kind) in enumerate(toks):
        out += b
        if i + 1 < len(toks):
            must = kind == "u" and toks[i + 1][0][0] not in BOUNDARY_START
            g = lay.gap(must)
        else:
            g = lay.gap(False)
        gaps.append(g); out += g
    if not toks:
        pass
    return bytes(out), gaps
