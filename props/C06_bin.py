"""C06 Every successfully parsed tape is structurally sound (binary half; the text half is added by run_text)."""
from props import C03 as B

RULE = ("binary: the C03 streams (exhaustive token sequences from the top level and behind fast-path contexts, documents, "
        "mutations, random tokens / bytes, reused tapes); on every accepted input the real tapes of the optimised and of the "
        "reference parser go through a Dyck checker (start/end links both ways, nesting, no index 0) and every string scalar's "
        "pointer range is checked against the input slice (inside, after the previous one, length prefix matches). "
        "non-trivial = at least one parser accepted the input")
TRUSTED = ["harness/src/fam_bintape.rs structural checker (mirrors BinTapeWf.tape_wfb, cross-checked against it by correspondence)"]
ASSUMPTIONS = []


def run_binary(ctx):
    # >>> a_c06: C03's judge + the independent payload-position oracle and the Python structural checker on every accepted tape
    from props import C06_ptr
    judge = C06_ptr.Judge6(ctx, wf_only=True)
    # <<< a_c06
    B.gen_streams(ctx, judge, ctx.scale((4, 3, 2500, 15000, 15000), (5, 4, 30000, 200000, 200000)))
    judge.flush()


def run(ctx):
    run_binary(ctx)


def search(ctx):
    import random
    ctx.rng = random.Random(ctx.seed + 1)
    from props import C06_ptr
    judge = C06_ptr.Judge6(ctx, wf_only=True)
    B.gen_streams(ctx, judge, (4, 4, 20000, 100000, 100000))
    judge.flush()


CLAIM = {
    "text": "Coq theorem over the faithful model of the binary tape parser: for ALL byte strings and both interpretations (optimised, reference), a successful parse yields a tape where every container start indexes a later End that indexes it back, containers nest properly and no container/End carries index 0 (invariant: closed prefix + open chain through the end slots); the same checker runs on the real tapes of every correspondence case together with a pointer-range check of string payloads",
    "technique": "machine-checked proof in Coq over an executable model + model/implementation correspondence by extraction",
}
