"""C05, wave 4 (audit/C05.md): the entry points and quantifier dimensions the first two C05 files left out.

  watchdog         every case of the C05 streams runs under the in-process per-case watchdog `c05.w` (a hang costs
                   WATCHDOG_MS, not the runner's 600 s chunk timeout); a positive control checks in every run that the
                   watchdog really fires (`c05.spin` longer than its budget must come back as ABORT)
  exhaustive       ALL strings over a 8-byte significant text alphabet up to length 5 (quick) / 6 (thorough) through the
                   tape parser + whole DOM/JSON walk, the slice reader and the `any` slice deserializer; ALL binary token
                   sequences over 14 token kinds up to length 3 / 4 through the binary API walk -- release AND debug
  dom_walk         `c05.dom`: every DOM reader / iterator / json() entry of every node of every tape the parser returns for
                   the adversarial text inputs (soups, mutated documents, adversarial shapes, wide documents)
  small api        `c05.textapi` / `c05.binapi`: the public functions no other kind calls
  typed targets    deserializers with typed (not `any`) targets whose field names are taken from the input, all paths
                   (slice, tape, objreader, reader:cap:sched, freader, fslice), buffer sizes 1..64
  dom_model        two-phase: the tapes of the accepted adversarial inputs go through `dom.node` / `json.ser` on EVERY
                   container / header node with model correspondence (ties C17_parsed_no_panic / C16_parsed_json_total,
                   re-pinned in Props/C05_inv.v, to the code on exactly these inputs) and C17's grammar-level oracle
"""
import itertools
import re
from vlib import hexs

CRASH = ("PANIC", "ABORT", "HANG")
WATCHDOG_MS = 10000


def w(case, ms=WATCHDOG_MS):
    """wrap a case line into the watchdog kind"""
    return "c05.w\t%d\t%s" % (ms, case)


def inner_kind(case):
    p = case.split("\t")
    return p[2] if p[0] in ("c05.w", "c05.z") and len(p) > 2 else p[0]      # c05.z: wave 6 (props/C05_size.py)


def crashed(o):
    return o in CRASH or "RUNAWAY" in o


def judge(ctx, prof, cases, impl, bad_prefixes=("BAD", "BADUTF8", "REUSE-MISMATCH", "JSON-ENTRY-MISMATCH", "FROMSTR-MISMATCH")):
    base = len(impl) - len(cases)
    for k, c in enumerate(cases):
        o = impl[base + k]
        kind = inner_kind(c)
        if crashed(o):
            ctx.fail("crash-" + kind, "%s build: %s on %s  (ABORT = process abort, stack overflow or the %d ms per-case watchdog, i.e. a hang)"
                     % (prof, o, c[:200].replace("\t", " "), WATCHDOG_MS), [c], [o], "a value or an error")
        elif o.startswith(bad_prefixes) or "POSITION-BACKWARDS" in o:
            ctx.fail("api-" + kind, "%s build: %s on %s" % (prof, o, c[:200].replace("\t", " ")), [c], [o], "OK .. / ERR")
        elif o in ("NOKIND", "BADCASE"):
            ctx.fail("harness-" + kind, "harness does not know the case %s" % c[:120].replace("\t", " "), [c], [o], "a result")


def guarded(ctx, stream, cases, prof, **kw):
    """ctx.correspond preceded by a pilot (every 41st case): when a pilot case dies (hang / abort) the
    full stream is skipped for this profile -- a change that hangs on a large share of the inputs would otherwise cost
    WATCHDOG_MS per case.  The pilot's failures are reported (key crash-<kind>) with their replay inputs."""
    pilot = cases[::41]
    impl, _ = ctx.correspond(stream + "_pilot", pilot, profile=prof, model=False, nontrivial=lambda c, i: False)
    got = impl[len(impl) - len(pilot):]
    dead = [(c, o) for c, o in zip(pilot, got) if o in ("ABORT", "HANG")]
    if len(dead) >= 1:
        for c, o in dead:
            ctx.fail("crash-" + inner_kind(c), "%s build: %s on %s  (pilot run; %d of %d pilot cases died, the full stream %s was skipped; ABORT = process "
                     "abort, stack overflow or the %d ms per-case watchdog, i.e. a hang)" % (prof, o, c[:200].replace("\t", " "), len(dead), len(pilot), stream, WATCHDOG_MS),
                     [c], [o], "a value or an error")
        ctx.count("hang_storm_" + stream)
        return None
    return ctx.correspond(stream, cases, profile=prof, **kw)


# ------------------------------------------------------------------ inputs
TEXT_ALPHABET = b'{}="\\#a '


def exhaustive_text(maxlen):
    for n in range(0, maxlen + 1):
        for t in itertools.product(TEXT_ALPHABET, repeat=n):
            yield bytes(t)


def wide_docs(ctx):
    n = ctx.scale(1500, 6000)
    return [b" ".join(b"k=%d" % i for i in range(n)),                        # one key, many values (Group mode)
            b" ".join(b"k%d=%d" % (i, i) for i in range(n)),                  # many distinct keys
            b"a={" + b" ".join(b"%d" % i for i in range(3 * n)) + b"}",       # wide array
            b"a={" + b" ".join(b"x=%d" % i for i in range(n)) + b" 1 2 3 }",  # wide object turning mixed
            b"a={" + b"{} " * n + b"}",                                       # ghosts
            b"a=" + b"rgb{1 2 3} b=" * (n // 4) + b"c",                       # many headers
            b"a={ " + b"[[p] x=y ] " * (n // 8) + b"}",                       # many parameter blocks
            b"a={b={c={d={e={f={g={h={i={j=" + b"{ x }" * 50 + b"}}}}}}}}}",
            b"a={" * 250 + b"b=c" + b"}" * 250,
            b"a={" * 250 + b"1 2 b=c d" + b"}" * 250,
            b"{" * 200 + b"}" * 200, b"a=" + b"{" * 200 + b"x" + b"}" * 200,
            b'"' + b"q" * 5000 + b'"=' + b'"' + b"\\\\" * 2500 + b'"',
            b"#" + b"c" * 9000 + b"\na=b", b"a" * 9000 + b"=" + b"b" * 9000]


def text_inputs(ctx):
    from props import C05 as base, C17
    rng = ctx.rng
    out = base.inputs(ctx)
    g = C17.Gen(rng)
    docs = [g.document() for _ in range(ctx.scale(250, 3000))]
    out += docs + list(C17.FIXED)
    out += [g.mutate(rng.choice(docs)) for _ in range(ctx.scale(400, 5000))]
    return out


WORD = re.compile(rb"[A-Za-z0-9_.\-]{1,12}")
LEAF_SHAPES = ["u8", "u16", "u32", "u64", "i8", "i16", "i32", "i64", "f32", "f64", "bool", "str", "date", "dh", "any", "ign"]


def gen_shape(rng, names, depth, binary):
    r = rng.random()
    if depth <= 0 or r < 0.45:
        return rng.choice(LEAF_SHAPES)
    if r < 0.55:
        return "opt(%s)" % gen_shape(rng, names, depth - 1, binary)
    if r < 0.65:
        return "seq(%s)" % gen_shape(rng, names, depth - 1, binary)
    if r < 0.72:
        return "map(%s)" % gen_shape(rng, names, depth - 1, binary)
    if r < 0.80:
        return "tup(%s)" % ",".join(gen_shape(rng, names, depth - 1, binary) for _ in range(rng.randrange(1, 4)))
    if r < 0.85 and names:
        return "enum(%s)" % ",".join(hexs(n) for n in rng.sample(names, min(len(names), rng.randrange(1, 4))))
    if r < 0.90 and not binary:
        return "prop(%s)" % gen_shape(rng, names, depth - 1, binary)
    return gen_struct(rng, names, depth - 1, binary)


def gen_struct(rng, names, depth, binary):
    pick = rng.sample(names, min(len(names), rng.randrange(1, 5))) if names else [b"a"]
    fs = []
    for n in pick:
        tok = "#%04x" % rng.choice([0x2d84, 0x2d85, 0x1b, 0x167, 0x0b, 0x2d82]) if binary and rng.random() < 0.7 else ""
        fs.append("%s%s%s:%s" % (hexs(n), tok, rng.choice(["", "", "*", "!"]), gen_shape(rng, names, depth, binary)))
    return "%s(%s)" % ("tstruct" if binary and rng.random() < 0.5 else "struct", ",".join(fs))


def names_of(d):
    seen, out = set(), []
    for m in WORD.findall(d):
        try:
            m.decode("ascii")
        except UnicodeDecodeError:
            continue
        if m not in seen:
            seen.add(m)
            out.append(m)
    return out[:8]


def sched(rng, n):
    return rng.choice(["-", "1*", "2,3,1*", "7*", ",".join(str(rng.randrange(1, 9)) for _ in range(min(n, 12))) or "-"])


def typed_text_cases(rng, d):
    names = names_of(d) or [b"a"]
    h = hexs(d)
    out = []
    for path in ("slice", "tape", "objreader", "reader:%d:%s" % (rng.choice([1, 2, 3, 8, 9, 16, 17, 64]), sched(rng, len(d))), "freader:%s" % sched(rng, len(d))):
        if rng.random() < 0.5:
            continue
        out.append("\t".join(["de.text", path, rng.choice(["w1252", "utf8"]), gen_struct(rng, names, 2, False) if rng.random() < 0.8 else gen_shape(rng, names, 2, False), h]))
    return out


def writer_calls_case(rng):
    """a random call history of the text writer with adversarial byte payloads and any indent configuration"""
    def payload():
        r = rng.random()
        if r < 0.3:
            return bytes(rng.randrange(256) for _ in range(rng.randrange(0, 12)))
        if r < 0.6:
            return bytes(rng.choice(b'{}="\\#= \n\t[]@a1') for _ in range(rng.randrange(0, 10)))
        return rng.choice([b"", b"a", b"\n", b"\n\n", b'"', b"\\", b'a"b', b"a b", b"x" * 40, b"\xff\xfe", b"rgb", b"{", b"}"])
    calls = []
    for _ in range(rng.randrange(1, 14)):
        k = rng.choice(["u", "u", "q", "q", "h", "op", "s", "os", "as", "e", "e", "b", "i32", "u64", "m", "rgb"])
        if k in ("u", "q", "h"):
            calls.append("%s:%s" % (k, hexs(payload())))
        elif k == "op":
            calls.append("op:%d" % rng.randrange(8))
        elif k == "b":
            calls.append("b:%d" % rng.randrange(2))
        elif k == "i32":
            calls.append("i32:%d" % rng.choice([0, -1, 2147483647, -2147483648, rng.randrange(-99, 99)]))
        elif k == "u64":
            calls.append("u64:%d" % rng.choice([0, 18446744073709551615, rng.randrange(1 << 40)]))
        elif k == "rgb":
            calls.append("rgb:%d:%d:%d" % (rng.randrange(256), rng.randrange(256), rng.randrange(256)) + (":%d" % rng.randrange(256) if rng.random() < 0.3 else ""))
        else:
            calls.append(k)
    cfg = "%s,%s,r" % (rng.choice(["d", "32", "9", "0", "255", str(rng.randrange(256))]), rng.choice(["d", "0", "1", "2", "4", "17", "255"]))
    return "writer.calls\t%s\t%s" % (cfg, ";".join(calls))


def trops_case(rng, d):
    """mixed call sequence on one text reader; schedules with faults; small buffers"""
    n = len(d)
    cap = rng.choice(["slice", 1, 2, 3, 4, 7, 8, 9, 15, 16, 17, 33, 64, n + 1])
    ev = []
    for _ in range(min(n, 40)):
        ev.append("F" if rng.random() < 0.08 else str(rng.choice([1, 1, 2, 3, 5, 8, 9, 17])))
    sched = rng.choice(["-", ",".join(ev) or "-", ",".join(["1"] * min(n, 300)) or "-"])
    ops = [rng.choice(["n", "n", "n", "r", "r", "k", "u", "b0", "b1", "b3", "b9", "b70", "b100000"]) for _ in range(rng.randrange(1, 9))] + ["T"]
    return "c05.trops\t%s\t%s\t%s\t%s" % (cap, sched, hexs(d), ",".join(ops))


RESOLVERS = ["map:-", "map:2d84=61,2d85=62,001b=6e616d65,0167=78", "lines:2d84=61,2d85=62,2d82=6b6579", "map:2d82=61,2d83=62,2d84=63,2d85=64,2d86=65"]


def typed_bin_cases(rng, d):
    names = [b"a", b"b", b"c", b"d", b"e", b"name", b"x", b"key", b"aa", b"ab"]
    h = hexs(d)
    out = []
    for path in ("tape", "slice", "fslice", "reader:%d:%s" % (rng.choice([1, 2, 3, 5, 8, 9, 16, 64]), sched(rng, len(d))), "freader:%s" % sched(rng, len(d))):
        if rng.random() < 0.5:
            continue
        out.append("\t".join(["de.bin", path, rng.choice(["error", "stringify", "ignore"]), rng.choice(RESOLVERS), rng.choice(["eu4", "raw"]),
                              gen_struct(rng, names, 2, True) if rng.random() < 0.8 else gen_shape(rng, names, 2, True), h]))
    return out


# ------------------------------------------------------------------ the part
def run_inv(ctx):
    from props import C03 as B, C05_extra, C17
    rng = ctx.rng
    # ---- positive control of the watchdog: it must fire on a case that outlives its budget, and only then
    ctl = ["c05.w\t300\tc05.spin\t4000", "c05.w\t5000\tc05.spin\t20", "c05.w\t300\tc05.spin\t4000", "c05.w\t5000\ttt.parse\t613d62"]
    want = ["ABORT", "OK", "ABORT", None]
    for prof in ("release", "debug"):
        impl, _ = ctx.correspond("watchdog_selftest_" + prof, ctl, nontrivial=lambda c, i: True, profile=prof, model=False)
        got = impl[-len(ctl):]
        for c, o, x in zip(ctl, got, want):
            if (x is not None and o != x) or (x is None and not o.startswith("ok")):
                ctx.fail("watchdog-dead", "%s build: the per-case watchdog answered %s on %s (a spin past the budget must abort the process, "
                         "a case inside the budget must be left alone and the runner must go on with the next case)" % (prof, o, c.replace("\t", " ")), [c], [o], x or "ok ..")

    # ---- exhaustive small alphabets
    cases = []
    n_ex = 0
    for d in exhaustive_text(ctx.scale(5, 6)):
        h = hexs(d)
        n_ex += 1
        cases.append(w("c05.dom\t" + h))
        cases.append(w("tr.slice\t" + h))
        if len(d) >= 3:
            cases.append(w("de.text\tslice\tutf8\tany\t" + h))
    ctx.count("exhaustive_text_strings", n_ex)
    n_exb = 0
    for c in B.exhaustive(ctx.scale(3, 4)):
        n_exb += 1
        h = c.split("\t")[1]
        cases.append(w("c05.binapi\t" + h))
        cases.append(w(c))
    ctx.count("exhaustive_binary_sequences", n_exb)

    # ---- adversarial text inputs: whole-DOM walk, small API
    texts = text_inputs(ctx) + wide_docs(ctx)
    ctx.count("inv_text_inputs", len(texts))
    for d in texts:
        h = hexs(d)
        cases.append(w("c05.dom\t" + h))
        if len(d) < 4000:
            cases.append(w("c05.textapi\t" + h))
            cases += [w(c) for c in typed_text_cases(rng, d)]
        if len(d) < 600:
            cases.append(w(trops_case(rng, d)))
    for d in (b"", b" ", b"\n", b"#c", b"a", b"a=", b'"', b"{", b"}"):
        for cap in ("slice", 1, 8):
            for ops in ("r", "r,r,T", "n,r,T", "k,r", "u,r", "b1,r,T"):
                cases.append(w("c05.trops\t%s\t-\t%s\t%s" % (cap, hexs(d), ops)))
    # ---- binary inputs: API walk, typed targets
    bins = C05_extra.bin_inputs(rng, ctx.scale(500, 8000), [])
    bins += [B.enc_seq(B.random_tokens(rng, rng.choice([5, 9, 14, 25, 40]))) for _ in range(ctx.scale(500, 6000))]
    bins += [B.gen_doc(rng)[0] for _ in range(ctx.scale(200, 3000))]
    ctx.count("inv_binary_inputs", len(bins))
    for d in bins:
        cases.append(w("c05.binapi\t" + hexs(d)))
        cases += [w(c) for c in typed_bin_cases(rng, d)]
    # ---- the text writer's call API: any call history (well formed or not) x adversarial byte payloads x any indent configuration
    wc = [w(writer_calls_case(rng)) for _ in range(ctx.scale(1500, 15000))]
    impl, _ = ctx.correspond("inv_writer_calls", wc, nontrivial=lambda c, i: " " in i and not i.startswith("- "))
    judge(ctx, "release", wc, impl)
    cases += wc
    for prof in ("release", "debug"):
        r = guarded(ctx, "inventory_" + prof, cases, prof, nontrivial=lambda c, i: i.startswith("OK") or not (i.startswith("ERR") or i in ("NOKIND", "none")), model=False)
        if r is not None:
            judge(ctx, prof, cases, r[0])

    # ---- two-phase: the accepted adversarial inputs through the modelled DOM / JSON kinds on every node
    small = [d for d in texts if len(d) < 400]
    rng.shuffle(small)
    small = small[:ctx.scale(500, 6000)]
    parsed = C17.parse_docs(ctx, small, stream="inv_parse")
    wf = ["dom.wf\t%s\t%s" % (hexs(d), tape) for (d, tape, toks) in parsed]
    impl, mod = ctx.correspond("inv_wf", wf, nontrivial=lambda c, i: True)
    base = len(impl) - len(wf)
    for k, c in enumerate(wf):
        if mod[base + k] != "0" and impl[base + k] == "0":
            ctx.fail("tape-not-wf", "a tape the parser returns for an adversarial input violates TapeWf.tape_wf (clause %s): the DOM / JSON / write_tape "
                     "no-crash theorems do not apply to it" % mod[base + k], [c], [impl[base + k]], "0")
    # the side condition of the write_tape theorems (Props/C05_wtape.v: C05_write_tape_parsed_nocrash_partial) on every real tape,
    # by the extracted WriteTapeSide.no_param_valuesb AND by an independent walk over the real DOM readers
    more = [bytes(rng.choice(b'[]!{}= ab') for _ in range(rng.randrange(3, 14))) for _ in range(ctx.scale(2500, 30000))]
    frag = [b"[[x] y ]", b"[[!x] y ]", b"[[x] a=b ]", b"a={", b"}", b"a=", b"b", b"{", b" ", b"[[", b"] ", b"1 2", b"c={ d }", b"e=f"]
    more += [b" ".join(rng.choice(frag) for _ in range(rng.randrange(1, 7))) for _ in range(ctx.scale(1500, 20000))]
    parsed_more = C17.parse_docs(ctx, more, stream="inv_parse_params")
    ncases = ["c05.npv\t%s\t%s" % (hexs(d), tape) for (d, tape, toks) in parsed + parsed_more]
    ctx.count("npv_tapes", len(ncases))
    ctx.count("npv_tapes_with_parameter_tokens", sum(1 for (d, tape, toks) in parsed + parsed_more if any(k[:2] in ("P:", "N:") for k in toks)))
    impl, mod = ctx.correspond("inv_write_tape_side", ncases, nontrivial=lambda c, i: " P:" in c or " N:" in c or "\tP:" in c or "\tN:" in c)
    base = len(impl) - len(ncases)
    for k, c in enumerate(ncases):
        if impl[base + k] != "1" or mod[base + k] != "1":
            ctx.fail("param-in-value-position", "a tape the parser returns has a Parameter / UndefinedParameter token in value position (real DOM walk: %s, "
                     "WriteTapeSide.no_param_valuesb: %s): write_value's unreachable!() is reachable and the hypothesis of "
                     "C05_write_tape_parsed_nocrash_partial fails" % (impl[base + k], mod[base + k]), [c], [impl[base + k]], "1")
    dcases, meta = C17.dom_cases(parsed)
    jcases = []
    for (d, tape, toks) in parsed:
        for idx in C17.node_indices(toks):
            enc = rng.choice("wu")
            entry = "v" if idx == "top" else rng.choice("voa")
            jcases.append("json.ser\t%s\t%s\t%s\t%s\t%s\t%d\t%s\t%s" % (hexs(d), tape, enc, idx, entry, rng.randrange(2), rng.choice("gpk"), rng.choice("aun")))
    ctx.count("inv_dom_nodes", len(dcases))
    impl, _ = ctx.correspond("inv_dom_model", dcases, nontrivial=lambda c, i: "/" in i)
    base = len(impl) - len(dcases)
    for k, c in enumerate(dcases):
        C17.check_node(ctx, c, impl[base + k], meta[k][0], meta[k][1])
    impl, _ = ctx.correspond("inv_json_model", jcases, nontrivial=lambda c, i: i not in ("E", "UNREACH") and not i.startswith("ERR"))
    base = len(impl) - len(jcases)
    for k, c in enumerate(jcases):
        o = impl[base + k]
        if crashed(o) or o in ("INVALID-UTF8", "INVALID-JSON", "FLOAT-LEX-MISMATCH", "ENTRY-MISMATCH", "TAPE-MISMATCH"):
            ctx.fail("json-" + o.lower(), "json() of node %s: %s" % (c.split("\t")[4], o), [c], [o], "a JSON document")
    for prof, sample in (("debug", [c for c in dcases + jcases if rng.random() < 0.3]),):
        impl, _ = ctx.correspond("inv_dom_" + prof, sample, nontrivial=lambda c, i: "/" in i, profile=prof, model=False)
        judge(ctx, prof, sample, impl, bad_prefixes=("INVALID", "FLOAT-LEX", "ENTRY-MISMATCH", "TAPE-MISMATCH"))
