"""C02, part `ext` (engineer a_c02, wave 4): the grammar BEYOND the core of the walk theorems, on the real code.

Props/C02_walk2.v proves the tape walk against TextDeSpec2.spec_value2 (object tails / the synthetic "remainder"
key, `{}` and arrays where a map or struct is asked for, headers into seq / tuple / String / number / enum / ignored,
parameter blocks) and Props/C02_ext.v proves the stream walk against spec_value2 false (the part both paths share).
Until now spec_value2 was never RUN: documents of props/dedoc.py have no tails, no key-value arrays, no parameters,
only `rgb` headers, and the spec_tie stream skipped every case on which TextDeSpec.spec_value answers UNFIT
(visited headers, map / struct on `{ }`: ~20% of its documents).

Stream `ext_spec` (this file):
  * documents are generated directly in the TextDoc grammar (props/textdoc.py syntax) with EVERY construct;
  * a shape is derived from the document (struct over a subset of the keys incl. parameter names and "remainder",
    maps, seq / tuple, header views, Option / Property wrappers, typed hints incl. wrong ones, ignored, any on scalars);
  * the rendering (props/textdoc.render_with_gaps, 8 layout styles, optional BOM) is checked byte for byte against the
    extracted TextDoc.render under the same gaps (kind spec.text.render);
  * ORACLE = the extracted TextDeSpec2.spec_value2 (kind spec.text.value2, ocaml/fam_tde.ml):
        from_*_slice, from_*_tape, ObjectReader::deserialize      must equal  spec_value2 true
        from_*_reader (two buffer sizes / read schedules)         must equal  spec_value2 false  where that fits;
    where spec_value2 false does not fit but spec_value2 true does, the reader path is only compared with the slice
    path and a difference is counted (ext_paths_differ_outside_common), not reported: these are the constructs on
    which the two paths are documented to differ (finding H and the witnesses of Props/C02_walk2.v).
    ERR:unfit answers are skipped and counted.
No walk model is involved: the oracle is the specification the theorems are stated over.
"""
from props import dedoc as D
from props import textdoc as TD
from props.dedoc import hx

SAFE = b"abcdefghijklmnopqrstuvwxyz0123456789_"
KEYS = [b"a", b"b", b"c", b"name", b"x1", b"core", b"tag", b"1", b"42", b"k_2", b"flag", b"color", b"list", b"m", b"id", b"remainder"]
ODD_KEYS = [("s", "Q", b"q key"), ("s", "U", b"caf\xe9"), ("s", "Q", b"\xc3\xa9t\xc3\xa9"), ("s", "U", b"A-B"), ("s", "Q", b""), ("s", "U", b"x" * 17)]
HEADERS = [b"rgb", b"hsv", b"hsv360", b"LIST", b"hex"]
WORDS = [b"foo", b"bar_baz", b"ENG", b"yes", b"no", b"1444.11.11", b"1.000", b"-1.500", b"0.25", b"x" * 15, b"y" * 16, b"z" * 33, b"tag:ENG",
         b"caf\xe9", b"\xc3\xa2ge", b"x\xa2y", b"@var", b"50%", b"a|b"]


def gen_scalar(rng, quoted_ok=True):
    r = rng.random()
    if r < 0.35:
        n = rng.choice([0, 1, 7, 42, 255, 256, 65535, 65536, -1, -128, -129, 2 ** 31 - 1, 2 ** 32, 2 ** 63 - 1, 2 ** 64 - 1, rng.randrange(-1000, 100000)])
        s = str(n).encode()
        if rng.random() < 0.1:
            s = (b"+" if n >= 0 else b"") + s
        return ("s", "Q" if quoted_ok and rng.random() < 0.1 else "U", s)
    if r < 0.45:
        return ("s", "U", rng.choice([b"yes", b"no"]))
    if quoted_ok and r < 0.65:
        n = rng.choice([0, 1, 3, 8, 15, 16, 17, 31, 40])
        out = bytearray()
        for _ in range(n):
            x = rng.random()
            if x < 0.04:
                out += b'\\"'
            elif x < 0.15:
                out += bytes([rng.choice(b" {}=#[]<>!;\n\t")])
            elif x < 0.22:
                out += bytes([rng.choice([0xe9, 0xfc, 0x80, 0xa2, 0xdc, 0xfb, 0xa0])]) if rng.random() < 0.5 else b"\xc3\xa9"
            else:
                out += bytes([rng.choice(SAFE)])
        return ("s", "Q", bytes(out))
    if r < 0.75:
        return ("s", "U", bytes(rng.choice(SAFE) for _ in range(rng.choice([1, 2, 5, 8, 15, 16, 17, 32]))))
    return ("s", "U", rng.choice(WORDS))


def gen_key(rng):
    if rng.random() < 0.12:
        return rng.choice(ODD_KEYS)
    k = rng.choice(KEYS)
    return ("s", "Q" if rng.random() < 0.08 else "U", k)


NESTED_FIRST_OPS = ["=", "=", "=", "<", ">", "<=", ">=", "=="]


def gen_fields(rng, depth, n, nested, params=True):
    out = []
    for i in range(n):
        if params and rng.random() < 0.05:
            name = rng.choice([b"p", b"param_1", b"x" * 14])
            if rng.random() < 0.5:
                out.append(("p", name, rng.random() < 0.4, ("v", rng.choice([b"1", b"foo", b"y" * 15, b"300"]))))
            else:
                pf = gen_fields(rng, 0, rng.randrange(1, 3), True, params=False)
                pf[0] = ("f", ("s", "U", rng.choice([b"k", b"key_1", b"z" * 16])), pf[0][2] or "=", pf[0][3])
                out.append(("p", name, rng.random() < 0.4, ("o", pf)))
            continue
        key = gen_key(rng)
        val = gen_value(rng, depth)
        op = rng.choice(TD.OPL) if rng.random() < 0.3 else "="
        if val[0] in ("o", "a", "ak") and op == "=" and rng.random() < 0.25:
            op = None                                    # `key {` without '='
        out.append(("f", key, op, val))
    if nested:
        while out and out[0][0] == "p":
            out.pop(0)                                   # a nested container does not start with a parameter block
        if out and (out[0][2] is None or out[0][2] in ("!=", "?=")):
            # the container kind is decided by what follows the first scalar: only = < > make it an object (finding M)
            f0 = out[0]
            out[0] = ("f", f0[1], rng.choice(NESTED_FIRST_OPS), f0[3])
    return out


def gen_value(rng, depth):
    r = rng.random()
    if depth <= 0 or r < 0.42:
        return gen_scalar(rng)
    if r < 0.64:
        fields = gen_fields(rng, depth - 1, rng.randrange(0, 4), True)
        tail = []
        if fields and rng.random() < 0.3:
            tail = [gen_scalar(rng) for _ in range(rng.randrange(1, 4))]
        if not fields:
            return ("a", [])                             # `{}` is the empty array of the text format
        return ("o", fields, tail)
    if r < 0.86:
        items = []
        for _ in range(rng.randrange(0, 5)):
            if depth > 1 and rng.random() < 0.3:
                v = gen_value(rng, depth - 1)
                if v[0] == "h":
                    continue                             # headers are field values only
                if v[0] == "a" and not v[1] and not items:
                    continue                             # `{}` as the first element is ghost-skipped by the tape parser
                items.append(v)
            else:
                items.append(gen_scalar(rng))
        if items and items[0][0] == "s" and rng.random() < 0.1:
            kv = [("f", gen_key(rng), rng.choice(["=", "<", ">", ">=", "<=", "!=", "=="]), gen_scalar(rng)) for _ in range(rng.randrange(1, 3))]
            return ("ak", items, kv)
        return ("a", items)
    name = rng.choice(HEADERS)
    if rng.random() < 0.75:
        inner = ("a", [gen_scalar(rng, quoted_ok=False) for _ in range(rng.randrange(1, 5))])
    else:
        fs = gen_fields(rng, 0, rng.randrange(1, 3), True, params=False)
        inner = ("o", fs, [])
    return ("h", name, inner)


def gen_doc(rng):
    return gen_fields(rng, 3, rng.randrange(1, 6), False)


# ------------------------------------------------------------------ shapes derived from the document
def is_int(raw):
    s = raw[1:] if raw[:1] in (b"+", b"-") else raw
    return len(s) > 0 and s.isdigit()


def simple_name(raw):
    """the decoded key as a Python string when that needs no knowledge of the decoders (plain ASCII, no escape, no
    white space at the ends); None otherwise (such keys are only captured through map shapes)"""
    if raw and all(0x21 <= c < 0x7f and c not in b'\\"' for c in raw):
        return raw.decode("ascii")
    return None


def sh_scalar(rng, s):
    raw = s[2]
    r = rng.random()
    if r < 0.04:
        return "ign"
    if r < 0.09:
        return "any"
    if r < 0.14:
        return rng.choice(["str", "bool", ("u", 64), ("i", 64), ("u", 8), ("i", 32), "f64", "f32", ("enum", ["aaa", "bbb"]), "date"])
    if is_int(raw):
        n = int(raw)
        c = sorted(set(D.natural_int_shapes(n)))
        if c and rng.random() < 0.8:
            return rng.choice(c)
        return rng.choice([("u", 64), ("i", 64), "f64", "f32", "str"])
    if raw in (b"yes", b"no"):
        return rng.choice(["bool", "bool", "str"])
    nm = simple_name(raw)
    if nm and rng.random() < 0.15:
        return ("enum", [nm, "other"])
    if raw.count(b".") == 2 and rng.random() < 0.5:
        return "date"
    if raw.count(b".") == 1 and rng.random() < 0.6:
        return rng.choice(["f64", "f32"])
    return "str"


def wrap(rng, sh, fieldpos):
    r = rng.random()
    if r < 0.08:
        return ("opt", sh)
    if fieldpos and r < 0.2:
        return ("prop", sh)
    if fieldpos and r < 0.24:
        return ("opt", ("prop", sh))
    return sh


def sh_items(rng, items):
    if not items:
        return rng.choice(["str", ("u", 8), "ign"])
    kinds = set(x[0] for x in items)
    if kinds == {"s"}:
        if all(is_int(x[2]) for x in items):
            common = None
            for x in items:
                ns = set(D.natural_int_shapes(int(x[2])))
                common = ns if common is None else common & ns
            c = sorted(common)
            if c and rng.random() < 0.7:
                return rng.choice(c)
        return rng.choice(["str", "str", "any", "ign"])
    if len(kinds) == 1:
        return sh_value(rng, items[0], False, True)
    return "ign"


def sh_object(rng, fields, tail, tp):
    names = []
    for f in fields:
        raw = f[1][2] if f[0] == "f" else f[1]
        nm = simple_name(raw)
        if nm is not None and nm not in names:
            names.append(nm)
    if rng.random() < 0.2 or not names:
        # a map: every key, one value shape
        vs = [f[3] for f in fields if f[0] == "f"]
        if vs and all(v[0] == "s" for v in vs) and not any(f[0] == "p" for f in fields) and rng.random() < 0.7:
            return ("map", rng.choice(["str", "str", "any", sh_scalar(rng, vs[0])]))
        return ("map", "ign")
    chosen = [n for n in names if rng.random() < 0.75]
    rng.shuffle(chosen)
    out = []
    for n in chosen:
        occ = [f for f in fields if simple_name(f[1][2] if f[0] == "f" else f[1]) == n]
        f0 = rng.choice(occ)
        if f0[0] == "p":
            pv = f0[3]
            sh = sh_scalar(rng, ("s", "U", pv[1])) if pv[0] == "v" else sh_object(rng, pv[1], [], tp)
            sh = wrap(rng, sh, True)
        else:
            sh = wrap(rng, sh_value(rng, f0[3], True, tp), f0[3][0] != "h")
        mode = ""
        if len(occ) > 1:
            mode = rng.choice(["*", "*", "!", "!", ""])
        elif rng.random() < 0.08:
            mode = rng.choice(["*", "!"])
        if mode == "*" and isinstance(sh, tuple) and sh[0] == "opt":
            sh = sh[1]
        out.append((n, mode, sh, None))
    have = set(n for (n, _, _, _) in out)
    if tail and "remainder" not in have and rng.random() < 0.7:
        sh = ("seq", sh_items(rng, tail))
        if rng.random() < 0.3:
            sh = ("opt", sh)
        out.insert(rng.randrange(len(out) + 1), ("remainder", "", sh, None))
        have.add("remainder")
    if "zz_absent" not in have and rng.random() < 0.2:
        out.insert(rng.randrange(len(out) + 1), ("zz_absent", "", ("opt", "str") if rng.random() < 0.85 else "str", None))
    return ("struct", out)


def sh_value(rng, v, fieldpos, tp):
    k = v[0]
    if k == "s":
        return sh_scalar(rng, v)
    if k == "a":
        items = v[1]
        r = rng.random()
        if not items:
            return rng.choice([("seq", "str"), ("map", "str"), ("struct", [("zz_absent", "", ("opt", "str"), None)]), ("struct", []), ("tup", []), "ign"])
        if r < 0.1:
            return ("struct", [("remainder", rng.choice(["", "!"]), ("seq", sh_items(rng, items)), None)])
        if r < 0.14:
            return ("map", ("seq", sh_items(rng, items)))
        if r < 0.3 and len(items) <= 4:
            return ("tup", [sh_value(rng, x, False, tp) for x in items[:rng.choice([len(items), len(items), max(0, len(items) - 1)])]] +
                    ([rng.choice(["str", ("u", 8)])] if rng.random() < 0.1 else []))
        return ("seq", sh_items(rng, items))
    if k == "o":
        return sh_object(rng, v[1], v[2], tp)
    if k == "ak":
        return "ign"
    if k == "h":
        r = rng.random()
        inner = sh_value(rng, v[2], False, tp)
        if r < 0.4:
            return ("tup", ["str", inner])
        if r < 0.5:
            return ("tup", [rng.choice([("enum", [v[1].decode(), "zzz"]), "ign"]), inner])
        if r < 0.6:
            return ("seq", "ign")
        if r < 0.78:
            return "str"
        if r < 0.86:
            return ("enum", [v[1].decode(), "other"])
        if r < 0.9:
            return rng.choice(["bool", ("u", 8), "f64"])
        if r < 0.95:
            return "ign"
        return ("tup", ["str", inner, "str"])
    raise RuntimeError(k)


def gen_root_shape(rng, doc):
    return sh_object(rng, doc, [], True)


# ------------------------------------------------------------------ the stream
def token_bytes(doc):
    """every lexical token of a rendering of doc (for the buffer size of the reader paths)"""
    out = []

    def val(v):
        if v[0] == "s":
            out.append(len(v[2]) + 2)
        elif v[0] == "o":
            flds(v[1]); [val(x) for x in v[2]]
        elif v[0] == "a":
            [val(x) for x in v[1]]
        elif v[0] == "ak":
            [val(x) for x in v[1]]; flds(v[2])
        elif v[0] == "h":
            out.append(len(v[1])); val(v[2])

    def flds(fs):
        for f in fs:
            if f[0] == "p":
                out.append(len(f[1]) + 4)
                if f[3][0] == "v":
                    out.append(len(f[3][1]))
                else:
                    flds(f[3][1])
            else:
                out.append(len(f[1][2]) + 2); val(f[3])
    flds(doc)
    return out


def run(ctx):
    import vlib
    rng = ctx.rng
    ndocs = ctx.scale(3000, 20000)
    groups = []
    impl_cases, spec_cases = [], []
    for _ in range(ndocs):
        doc = gen_doc(rng)
        enc = rng.choice(["w1252", "utf8"])
        bom = enc == "utf8" and rng.random() < 0.06
        txt, gaps = TD.render_with_gaps(doc, rng, style=rng.choice(TD.STYLES), bom=bom)
        sh = gen_root_shape(rng, doc)
        shs = D.shape_str(sh)
        sd = TD.ser(doc)
        mt = max([24] + token_bytes(doc)) + 2
        chunks = ",".join(str(rng.choice([1, 1, 2, 3, 5, 7, 8, 9, 16, 17, 33])) for _ in range(rng.randrange(2, 6))) + "*"
        if b"\\" in txt:
            readers = ["reader:32768:-", "freader:-"]          # chunked reads through an escaped quote are C07's findings J/K
        else:
            readers = rng.sample(["reader:32768:-", "reader:%d:1*" % mt, "reader:%d:%s" % (mt + rng.randrange(0, 9), chunks),
                                  "freader:" + chunks, "reader:%d:-" % mt], 2)
        paths = ["slice", "tape", "objreader"] + readers
        g = dict(doc=doc, enc=enc, txt=txt, sh=shs, c0=len(impl_cases), paths=paths, s0=len(spec_cases))
        for p in paths:
            impl_cases.append("\t".join(["de.text", p, enc, shs, hx(txt)]))
        spec_cases.append("spec.text.render\t%s\t%d\t%s" % (sd, 1 if bom else 0, ",".join(hx(x) for x in gaps)))
        spec_cases.append("spec.text.value2\t1\t%s\t%s\t%s" % (enc, shs, sd))
        spec_cases.append("spec.text.value2\t0\t%s\t%s\t%s" % (enc, shs, sd))
        groups.append(g)
        ctx.count("ext_docs")
    impl, _ = ctx.correspond("ext_spec", impl_cases, nontrivial=lambda c, i: i.startswith("("), model=False)
    base = len(impl) - len(impl_cases)
    spec = vlib.run_model(spec_cases)
    ctx.evaluations += len(spec_cases)
    st = ctx.streams.setdefault("ext_spec", {"cases": 0, "disagree": 0})
    st["cases"] += len(spec_cases)
    if len(spec) != len(spec_cases):
        ctx.broken.append({"what": "driver produced %d lines for %d ext_spec cases" % (len(spec), len(spec_cases))})
        return

    def disagree(case, py, coq):
        st["disagree"] += 1
        if len(ctx.disagreements) < 200:
            ctx.disagreements.append(("ext_spec", case[:600], "python: " + py[:300], "coq: " + coq[:300]))

    for g in groups:
        r, v1, v0 = spec[g["s0"]], spec[g["s0"] + 1], spec[g["s0"] + 2]
        want = "gaps_ok " + hx(g["txt"])
        if r != want:
            disagree(spec_cases[g["s0"]], want, r)
            continue
        if " | " not in v1 or " | " not in v0:
            disagree(spec_cases[g["s0"] + 1], "(a value)", v1 + " / " + v0)
            continue
        fl1, v1 = v1.split(" | ", 1)
        _, v0 = v0.split(" | ", 1)
        if "ext=1" not in fl1:
            disagree(spec_cases[g["s0"] + 1], "a document of the ext grammar", fl1)
            continue
        ctx.count("ext_sx" if "sx=1" in fl1 else "ext_not_sx")
        ctx.count("ext_tape_" + ("unfit" if v1 == "ERR:unfit" else "err" if v1.startswith("ERR") else "value"))
        ctx.count("ext_common_" + ("unfit" if v0 == "ERR:unfit" else "err" if v0.startswith("ERR") else "value"))
        if v0 != "ERR:unfit" and v1 != "ERR:unfit" and v0 != v1:
            disagree(spec_cases[g["s0"] + 2], "spec_value2 false = spec_value2 true where both fit: " + v1, v0)
        slice_out = impl[base + g["c0"]]
        for j, p in enumerate(g["paths"]):
            k = g["c0"] + j
            o = impl[base + k]
            pk = p.split(":")[0]
            if pk in ("slice", "tape", "objreader"):
                if v1 == "ERR:unfit":
                    continue
                ctx.count("ext_tape_compared")
                if o != v1:
                    ctx.fail("ext-" + pk, "%s path returns %s, TextDeSpec2.spec_value2 true says %s" % (p, o[:200], v1[:200]),
                             [impl_cases[k], spec_cases[g["s0"] + 1]], [o], v1)
            else:
                if v0 == "ERR:unfit":
                    if v1 != "ERR:unfit" and o != slice_out:
                        ctx.count("ext_paths_differ_outside_common")
                    continue
                ctx.count("ext_reader_compared")
                if o != v0:
                    ctx.fail("ext-" + pk, "%s path returns %s, TextDeSpec2.spec_value2 false says %s" % (p, o[:200], v0[:200]),
                             [impl_cases[k], spec_cases[g["s0"] + 2]], [o], v0)
