"""Text half of C06: every successfully parsed text tape is structurally sound."""
from vlib import hexs, unhex
from props import textdoc as td, textgen as tg, tapewf


def run_text(ctx):
    rng = ctx.rng
    cases = []
    for _ in range(ctx.scale(300, 4000)):
        doc = td.gen_doc(rng, depth=rng.choice([1, 2, 3, 4]))
        data = td.render(doc, rng, rng.choice(td.STYLES))
        cases.append(data)
        # malformed-but-tolerated: stray / missing closers, spliced fragments
        for _ in range(2):
            b = bytearray(data)
            r = rng.random()
            if r < 0.3 and b:
                del b[rng.randrange(len(b))]
            elif r < 0.6:
                b.insert(rng.randrange(len(b) + 1), rng.choice(b"{}=<>\"#[]! @"))
            elif r < 0.8:
                b = b[:rng.randrange(len(b) + 1)]
            else:
                b += rng.choice([b"}", b"}}", b" } a=b", b"{", b" x={", b"]"])
            cases.append(bytes(b))
    for _ in range(ctx.scale(8000, 150000)):
        cases.append(tg.gen_soup(rng, maxlen=rng.choice([5, 10, 20, 40])))
    for _ in range(ctx.scale(1000, 20000)):
        cases.append(tg.gen_stream(rng))
    cl = ["tt.parse\t%s" % hexs(d) for d in cases]
    impl, _ = ctx.correspond("text_tapes", cl, nontrivial=lambda c, i: i.startswith("ok") and (" A:" in i or " O:" in i))
    base = len(impl) - len(cl)
    ok = 0
    for k, d in enumerate(cases):
        o = impl[base + k]
        if o in ("PANIC", "ABORT", "HANG"):
            ctx.fail("text-crash", "TextTape::from_slice(%r): %s" % (d, o), [cl[k]], [o])
        if not o.startswith("ok "):
            continue
        ok += 1
        toks = tapewf.parse_tape(o.split(" ", 2)[2] if o.count(" ") >= 2 else "-")
        bad = tapewf.check_tape(toks, d)
        if bad:
            ctx.fail("text-wf", "parse(%r) succeeded with an unsound tape: %s; tape=%s" % (d, bad, o[:300]), [cl[k]], [o], "sound tape")
    ctx.count("text_accepted", ok)
    ctx.count("text_inputs", len(cases))
