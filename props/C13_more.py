"""C13 wave 4 (a_c13): clauses that audit/C13.md found uncovered.

Streams with a model side (extracted DateExt.v / Date.v = real code) and oracles that are independent of the model
(python calendar / formatting / tuple order), plus implementation-only exhaustive sweeps (kinds dt.sweep_*, reference
written in the harness without crate code): every year x every day (x every hour), every binary value of the window that
contains all accepted values, every digit string of the four fast-path shapes, every byte at every position."""
from vlib import hexs, unhex

DPM = [0, 31, 28, 31, 30, 31, 30, 31, 31, 30, 31, 30, 31]
BAD = ("PANIC", "ABORT", "HANG", "NOKIND", "BADCASE", "MISSING")
YEAR_SPAN = 8760          # 365 * 24
MAX_BIN = 37768 * YEAR_SPAN   # first value whose year no longer fits i16
MIN_BIN = -27768 * YEAR_SPAN  # year -32768, Jan 1, hour 0


def ordinal(m, d):
    return sum(DPM[1:m]) + d - 1


def md_of(o):
    m = 1
    while o >= DPM[m]:
        o -= DPM[m]
        m += 1
    return m, o + 1


def pad(v, w):
    s = str(abs(v))
    neg = v < 0
    return ("-" if neg else "") + "0" * max(0, w - len(s) - (1 if neg else 0)) + s


def ref_game(y, m, d, h, wide):
    w = 2 if wide else 0
    return "%s.%s.%s" % (pad(y, 0), pad(m, w), pad(d, w)) + (".%s" % pad(h, w) if h else "")


def ref_iso(y, m, d, h):
    return "%s-%s-%s" % (pad(y, 4), pad(m, 2), pad(d, 2)) + ("T%s" % pad(h - 1, 2) if h else "")


def valid(which, y, m, d, h):
    if not (1 <= m <= 12):
        return False
    if which == "date":
        return 1 <= d <= DPM[m] and h == 0
    if which == "dh":
        return 1 <= d <= DPM[m] and 1 <= h <= 24
    if which == "ud":
        return 1 <= d <= 30 and h == 0
    return 1 <= d <= 31 and 0 <= h <= 24


def ok_tuple(s):
    if not s.startswith("ok "):
        return None
    return tuple(int(x) for x in s.split()[1:5])


def ref_from_binary(s):
    """naive decoder: truncating division as in the binary format's definition"""
    def tdiv(a, b):
        q = abs(a) // b
        return -q if a < 0 else q
    hour = s - tdiv(s, 24) * 24
    days = tdiv(s, 24)
    doy = days - tdiv(days, 365) * 365
    if hour < 0 or doy < 0:
        return None
    year = tdiv(days, 365) - 5000
    if not (-32768 <= year <= 32767):
        return None
    m, d = md_of(doy)
    return (year, m, d, hour)


def ref_days(y, m, d):
    yd = y * 365
    return yd - ordinal(m, d) if yd < 0 else yd + ordinal(m, d)


def rand_date(rng, years):
    y = rng.choice(years) if rng.random() < 0.5 else rng.randrange(-32768, 32768)
    m = rng.randrange(1, 13)
    return y, m, rng.randrange(1, DPM[m] + 1)


def count_multiples(lo, hi, k):
    """multiples of k in [lo, hi)"""
    if hi <= lo:
        return 0
    return (hi - 1) // k - (lo - 1) // k


def ctx_profiles(ctx):
    """profiles whose harness was built for this run (props/C13.py: PROFILES)"""
    from props import C13
    return getattr(C13, "PROFILES", ["release"])


def run_more(ctx):
    rng = ctx.rng
    years = [-32768, -32767, -10000, -5001, -5000, -4999, -1000, -100, -99, -2, -1, 0, 1, 2, 9, 10, 99, 100, 999, 1000, 1444,
             1799, 1800, 1936, 2200, 9999, 10000, 32766, 32767]
    kind_ctor = {"date": "date.ymd", "dh": "dh.ymdh", "ud": "ud.ymd", "raw": "raw.ymdh"}
    kind_parse = {"date": "date.parse", "dh": "dh.parse", "ud": "ud.parse", "raw": "raw.parse"}

    # ------------------------------------------------------------ constructors + accessors (P4)
    ms = list(range(0, 18)) + [31, 32, 127, 128, 255]
    ds = list(range(0, 41)) + [63, 64, 127, 128, 255]
    hs = list(range(0, 27)) + [31, 32, 33, 63, 64, 128, 255]
    cases, meta = [], []
    for m in ms:
        for d in ds:
            for which in ("date", "ud"):
                y = rng.choice(years)
                cases.append("%s\t%d\t%d\t%d" % (kind_ctor[which], y, m, d)); meta.append((which, y, m, d, 0, "opt"))
                cases.append("dt.ctorp\t%s\t%d\t%d\t%d\t0" % (which, y, m, d)); meta.append((which, y, m, d, 0, "panic"))
            for h in [0, 1, 24, 25] + rng.sample(hs, 3):
                for which in ("dh", "raw"):
                    y = rng.choice(years)
                    cases.append("%s\t%d\t%d\t%d\t%d" % (kind_ctor[which], y, m, d, h)); meta.append((which, y, m, d, h, "opt"))
            h = rng.choice(hs); y = rng.choice(years)
            cases.append("dt.rawf\t%d\t%d\t%d\t%d" % (y, m, d, h)); meta.append(("raw", y, m, d, h, "rawf"))
            cases.append("dt.ctorp\t%s\t%d\t%d\t%d\t%d" % ("dh", y, m, d, h)); meta.append(("dh", y, m, d, h, "panic"))
            cases.append("dt.ctorp\t%s\t%d\t%d\t%d\t%d" % ("raw", y, m, d, h)); meta.append(("raw", y, m, d, h, "panic"))
    # the calendar cases the property names, for every type
    for (m, d) in [(2, 28), (2, 29), (2, 30), (2, 31), (4, 30), (4, 31), (12, 31), (12, 32), (0, 1), (13, 1), (1, 0)]:
        for which in ("date", "dh", "ud", "raw"):
            for h in (0, 1, 24, 25):
                c = "%s\t1444\t%d\t%d" % (kind_ctor[which], m, d) + ("\t%d" % h if which in ("dh", "raw") else "")
                cases.append(c); meta.append((which, 1444, m, d, h if which in ("dh", "raw") else 0, "opt"))
    ctx.count("ctor_cases", len(cases))
    impl, _ = ctx.correspond("constructors", cases, nontrivial=lambda c, i: i.startswith("ok"))
    base = len(impl) - len(cases)
    for k, (which, y, m, d, h, mode) in enumerate(meta):
        o = impl[base + k]
        v = valid(which, y, m, d, h)
        if mode == "opt":
            exp = "ok %d %d %d %d" % (y, m, d, h) if v else "none"
        elif mode == "panic":
            exp = "ok %d %d %d %d" % (y, m, d, h) if v else "PANIC"
        else:
            exp = "ok %d %d %d %d %d" % (y, m, d, h, 1 if h else 0) if v else "none"
        if o != exp:
            ctx.fail("ctor", "%s constructor (%s) on %d.%d.%d.%d gives %s, the calendar says %s" % (which, mode, y, m, d, h, o, exp), [cases[k]], [o], exp)

    # ------------------------------------------------------------ Ord / PartialOrd / Eq / Hash = order of the fields (O2)
    def rand_typed(which):
        while True:
            y, m, d = rand_date(rng, years)
            if which == "ud":
                d = rng.randrange(1, 31)
            if which == "raw":
                d = rng.randrange(1, 32)
            h = 0 if which in ("date", "ud") else (rng.randrange(1, 25) if which == "dh" else rng.randrange(0, 25))
            if valid(which, y, m, d, h):
                return (y, m, d, h)

    def neighbour(which, a):
        y, m, d, h = a
        for _ in range(50):
            r = rng.randrange(6)
            b = [(y + rng.choice([-1, 1]), m, d, h), (y, rng.randrange(1, 13), d, h), (y, m, rng.randrange(1, 32), h),
                 (y, m, d, rng.randrange(0, 25)), (-y, m, d, h), (y, m, d, h)][r]
            if -32768 <= b[0] <= 32767 and valid(which, *b):
                return b
        return a
    cases, meta = [], []
    for which in ("date", "dh", "ud", "raw"):
        for _ in range(ctx.scale(1500, 20000)):
            a = rand_typed(which)
            b = rand_typed(which) if rng.random() < 0.3 else neighbour(which, a)
            cases.append("dt.cmp\t%s\t%s\t%s" % (which, "\t".join(map(str, a)), "\t".join(map(str, b)))); meta.append((which, a, b))
    impl, _ = ctx.correspond("cmp", cases, nontrivial=lambda c, i: i[:2] in ("lt", "eq", "gt"))
    base = len(impl) - len(cases)
    for k, (which, a, b) in enumerate(meta):
        o = impl[base + k]
        c = "lt" if a < b else ("gt" if a > b else "eq")
        ops = "".join("1" if x else "0" for x in (a < b, a <= b, a > b, a >= b, a != b))
        exp = "%s %s %d %s" % (c, c, 1 if a == b else 0, ops)
        got = o.rsplit(" ", 1)
        if got[0] != exp or (a == b and got[-1] != "1"):
            ctx.fail("ord-lex", "%s: %s vs %s compares as '%s', (year, month, day, hour) order says '%s 1-if-equal'" % (which, a, b, o, exp), [cases[k]], [o], exp)

    # ------------------------------------------------------------ the formatter in all three formats, all four types (F1-F4, I1)
    cases, meta = [], []
    for _ in range(ctx.scale(1200, 20000)):
        for which in ("date", "dh", "ud", "raw"):
            a = rand_typed(which)
            cases.append("dt.fmtx\t%s\t%d\t%d\t%d\t%d" % ((which,) + a)); meta.append((which, a))
    for which in ("date", "dh", "ud", "raw"):
        for y in years:
            for (m, d) in ((1, 1), (2, 28), (2, 29), (2, 30), (10, 10), (12, 31), (9, 9)):
                for h in ((0,) if which in ("date", "ud") else (1, 9, 10, 24) if which == "dh" else (0, 1, 9, 10, 24)):
                    if valid(which, y, m, d, h):
                        cases.append("dt.fmtx\t%s\t%d\t%d\t%d\t%d" % (which, y, m, d, h)); meta.append((which, (y, m, d, h)))
    impl, _ = ctx.correspond("fmt_all", cases, nontrivial=lambda c, i: " " in i)
    base = len(impl) - len(cases)
    pcases, pmeta = [], []
    for k, (which, a) in enumerate(meta):
        o = impl[base + k]
        y, m, d, h = a
        short, wide, iso = ref_game(y, m, d, h, False), ref_game(y, m, d, h, True), ref_iso(y, m, d, h)
        exp = " ".join(hexs(s.encode()) for s in (short, wide, iso, wide if which == "ud" else short, iso))
        if o != exp:
            ctx.fail("fmt-ref", "%s %s renders as %s; reference %s / %s / %s" % (which, a, o, short, wide, iso), [cases[k]], [o], exp)
            continue
        for txt, is_wide in ((short, False), (wide, True)):
            pcases.append("%s\t%s" % (kind_parse[which], hexs(txt.encode()))); pmeta.append((which, a, is_wide, k))
            pcases.append("dt.fromstr\t%s\t%s" % (which, hexs(txt.encode()))); pmeta.append((which, a, is_wide, k))
    impl2, _ = ctx.correspond("parse_fmt_all", pcases, nontrivial=lambda c, i: i.startswith("ok"))
    base = len(impl2) - len(pcases)
    for j, (which, a, is_wide, k) in enumerate(pmeta):
        got = ok_tuple(impl2[base + j])
        if got != a:
            key = "fmt-parse-wide-hour-lt10" if (is_wide and 1 <= a[3] <= 9 and impl2[base + j] == "none") else "fmt-parse-all"
            ctx.fail(key, "%s %s: parse(%s rendering) = %s" % (which, a, "zero-padded" if is_wide else "short", impl2[base + j]),
                     [cases[k], pcases[j]], [impl2[base + j]], "ok %d %d %d %d" % a)

    # ------------------------------------------------------------ FromStr and serde (P5)
    pool = set()
    for _ in range(ctx.scale(600, 8000)):
        which = rng.choice(("date", "dh", "ud", "raw"))
        y, m, d, h = rand_typed(which)
        s = ref_game(y, m, d, h, rng.random() < 0.4)
        pool.add(s)
        if rng.random() < 0.4:
            b = list(s); b[rng.randrange(len(b))] = rng.choice("0123456789.+-x: T"); pool.add("".join(b))
        if rng.random() < 0.2:
            pool.add(ref_iso(y, m, d, h))
        if rng.random() < 0.2:
            pool.add(s + rng.choice([".", " ", "x", ".1", "\n"]))
    pool.update(["", "1", "-1", "43808760", "43808761", "56379360", "60759371", "1444.11.11", "1444-11-11", "2200.02.30", "1936.1.1.24",
                 "1936.1.1.25", "1936.1.1.0", "1936.01.01.05", "+144.1.1", "+1444.11.11", "2020.2.29", "-43808760", "4294967296"])
    pool = sorted(pool)
    cases, meta = [], []
    for s in pool:
        hx = hexs(s.encode())
        for which in ("date", "dh", "ud", "raw"):
            cases.append("%s\t%s" % (kind_parse[which], hx)); meta.append(("parse", which, s))
            cases.append("dt.fromstr\t%s\t%s" % (which, hx)); meta.append(("fromstr", which, s))
            if which != "raw":
                for mode in ("str", "bstr", "string"):
                    cases.append("dt.de\t%s\t%s\t%s" % (which, mode, hx)); meta.append(("de-" + mode, which, s))
    ints = set([0, 1, -1, 23, 24, 43808760, 43808761, 43791240, 56379360, 60759371, MAX_BIN - 1, MAX_BIN, MIN_BIN, MIN_BIN - YEAR_SPAN,
                2 ** 31 - 1, -2 ** 31, -8760, -8759, -24])
    for _ in range(ctx.scale(600, 8000)):
        ints.add(rng.randrange(MIN_BIN - 10 ** 6, MAX_BIN + 10 ** 6) if rng.random() < 0.8 else rng.randrange(-2 ** 31, 2 ** 31))
    ints = sorted(ints)
    for v in ints:
        for which in ("date", "dh", "ud"):
            cases.append("dt.de\t%s\ti32\t%d" % (which, v)); meta.append(("de-i32", which, v))
        cases.append("raw.frombin\t%d" % v); meta.append(("raw-frombin", "raw", v))
        cases.append("date.frombin\t%d" % v); meta.append(("frombin", "date", v))
        cases.append("dh.frombin\t%d" % v); meta.append(("frombin", "dh", v))
    for which in ("date", "dh", "ud"):
        for mode, arg in (("i64", "56379360"), ("u64", "56379360"), ("u32", "56379360"), ("bool", "1"), ("unit", "0"), ("i64", "-1")):
            cases.append("dt.de\t%s\t%s\t%s" % (which, mode, arg)); meta.append(("de-other", which, arg))
    impl, _ = ctx.correspond("fromstr_serde", cases, nontrivial=lambda c, i: i.startswith("ok"))
    base = len(impl) - len(cases)
    ref = {}
    for k, (what, which, arg) in enumerate(meta):
        if what in ("parse", "frombin"):
            ref[(what, which, arg)] = impl[base + k]
    for k, (what, which, arg) in enumerate(meta):
        o = impl[base + k]
        if o in BAD:
            ctx.fail("serde-panic", "%s %s(%r) = %s" % (which, what, arg, o), [cases[k]], [o])
            continue
        if what == "fromstr":
            exp = ref[("parse", which, arg)]
        elif what.startswith("de-") and what[3:] in ("str", "bstr", "string"):
            exp = ref[("parse", which, arg)].replace("none", "err")
        elif what == "de-i32":
            exp = "err" if which == "ud" else ref[("frombin", which, arg)].replace("none", "err")
        elif what == "de-other":
            exp = "err"
        elif what == "raw-frombin":
            r = ref_from_binary(arg)
            # RawDate keeps the 0-based hour; from_ymdh_opt needs hour < 25: always true here
            exp = "ok %d %d %d %d" % r if r else "none"
        else:
            continue
        if o != exp:
            ctx.fail("raw-frombin" if what == "raw-frombin" else ("fromstr" if what == "fromstr" else "serde-de"),
                     "%s %s(%r) = %s, expected %s" % (which, what, arg, o, exp), [cases[k]], [o], exp)
    cases, meta = [], []
    for _ in range(ctx.scale(400, 5000)):
        for which in ("date", "dh"):
            a = rand_typed(which)
            cases.append("dt.ser\t%s\t%d\t%d\t%d\t%d" % ((which,) + a)); meta.append((which, a))
    impl, _ = ctx.correspond("serialize", cases, nontrivial=lambda c, i: len(i) > 8)
    base = len(impl) - len(cases)
    for k, (which, a) in enumerate(meta):
        exp = hexs(('"%s"' % ref_iso(*a)).encode())
        if impl[base + k] != exp:
            ctx.fail("serde-ser", "%s %s serialises to %s, ISO rendering is %s" % (which, a, impl[base + k], ref_iso(*a)), [cases[k]], [impl[base + k]], exp)

    # ------------------------------------------------------------ parse o fmt o parse = parse on whatever is accepted (F5)
    strs = set()
    for _ in range(ctx.scale(1500, 20000)):
        y = rng.choice([rng.randrange(-32768, 32768), rng.randrange(0, 3000), rng.choice(years)])
        m, d, h = rng.randrange(0, 14), rng.randrange(0, 33), rng.randrange(0, 26)
        f = rng.choice(["%d.%d.%d", "%d.%02d.%02d", "%d.%d.%02d", "%04d.%d.%d", "%04d.%02d.%02d"])
        s = f % (y, m, d)
        if rng.random() < 0.4:
            s += rng.choice([".%d", ".%02d"]) % h
        if rng.random() < 0.1:
            s = "+" + s
        strs.add(s)
    for v in ints[::3]:
        strs.add(str(v))
    strs = sorted(strs)
    cases = []
    for s in strs:
        for which in ("date", "dh", "ud", "raw"):
            cases.append("%s\t%s" % (kind_parse[which], hexs(s.encode())))
    impl, _ = ctx.correspond("accepted_strings", cases, nontrivial=lambda c, i: i.startswith("ok"))
    base = len(impl) - len(cases)
    fcases, fmeta = [], []
    for k, c in enumerate(cases):
        g = ok_tuple(impl[base + k])
        if g:
            which = {v: kk for kk, v in kind_parse.items()}[c.split("\t")[0]]
            if not valid(which, *g):
                ctx.fail("parse-invalid-date", "%s::parse(%r) produced %s which its calendar lacks" % (which, unhex(c.split("\t")[1]), g), [c], [impl[base + k]], "none")
                continue
            txt = ref_game(g[0], g[1], g[2], g[3], which == "ud")   # the type's own game_fmt (checked against the crate in fmt_all)
            fcases.append("%s\t%s" % (kind_parse[which], hexs(txt.encode()))); fmeta.append((which, g, c))
    impl2, _ = ctx.correspond("reparse", fcases, nontrivial=lambda c, i: i.startswith("ok"))
    base = len(impl2) - len(fcases)
    for j, (which, g, c) in enumerate(fmeta):
        if ok_tuple(impl2[base + j]) != g:
            ctx.fail("parse-fmt-idem", "%s: %r parsed to %s, whose game_fmt parses to %s" % (which, unhex(c.split("\t")[1]), g, impl2[base + j]), [c, fcases[j]], [impl2[base + j]], "ok %d %d %d %d" % g)

    # ------------------------------------------------------------ add_days at the limits: Ok exactly inside the representable range (A1, A2)
    HI, LO = 32768 * 365, -32768 * 365 - 365      # exclusive bounds of the day number
    cases, meta = [], []
    srcs = []
    for y in (32767, 32766, 16000, 1, 0, -1, -2, -16000, -32767, -32768):
        for (m, d) in ((1, 1), (1, 2), (12, 31), (12, 30), (6, 15), (3, 1)):
            srcs.append((y, m, d))
    for _ in range(ctx.scale(200, 3000)):
        srcs.append(rand_date(rng, years))
    for (y, m, d) in srcs:
        D = ref_days(y, m, d)
        targets = set()
        for lim in (HI, LO, 0, -365, 365, -730, 2 ** 31 - 1 + 1, -2 ** 31 - 1 + 1):
            for e in (-2, -1, 0, 1, 2):
                targets.add(lim + e)
        for t in sorted(targets):
            n = t - D
            if -2 ** 31 <= n < 2 ** 31:
                cases.append("date.add\t%d\t%d\t%d\t%d" % (y, m, d, n)); meta.append((y, m, d, n, D))
        for n in (2 ** 31 - 1, -2 ** 31, 2 ** 31 - 2, -2 ** 31 + 1, 0):
            cases.append("date.add\t%d\t%d\t%d\t%d" % (y, m, d, n)); meta.append((y, m, d, n, D))
    impl, _ = ctx.correspond("add_boundary", cases, nontrivial=lambda c, i: i.startswith("ok") or i == "PANIC")
    base = len(impl) - len(cases)
    ab_cases, ab_impl = list(cases), list(impl[base:])
    ucases, umeta = [], []
    for k, (y, m, d, n, D) in enumerate(meta):
        o = impl[base + k]
        nd = D + n
        inside = LO < nd < HI
        g = ok_tuple(o)
        if inside != (g is not None) or (not inside and o != "PANIC"):
            ctx.fail("add-panic-iff", "add_days(%d.%d.%d, %d) = %s; day number %d is %s the representable range" % (y, m, d, n, o, nd, "inside" if inside else "outside"),
                     [cases[k]], [o], "a date" if inside else "PANIC")
            continue
        if g:
            q = abs(nd) // 365 * (1 if nd >= 0 else -1)
            mm, dd = md_of(abs(nd) % 365)
            if g[:3] != (q, mm, dd):
                ctx.fail("add-value", "add_days(%d.%d.%d, %d) = %s, expected %d.%d.%d" % (y, m, d, n, o, q, mm, dd), [cases[k]], [o], "ok %d %d %d 0" % (q, mm, dd))
            same_side = (D >= 0 and nd >= 0) or (D < 0 and nd <= -365)
            if same_side:
                ucases.append("date.until\t%d\t%d\t%d\t%d\t%d\t%d" % (y, m, d, g[0], g[1], g[2])); umeta.append((n, k))
    impl2, _ = ctx.correspond("add_boundary_until", ucases, nontrivial=lambda c, i: True)
    base = len(impl2) - len(ucases)
    for j, (n, k) in enumerate(umeta):
        if impl2[base + j] != str(n):
            ctx.fail("add-until", "boundary: %s then days_until = %s, expected %d" % (cases[k].replace("\t", " "), impl2[base + j], n), [cases[k], ucases[j]], [impl2[base + j]], str(n))

    # ------------------------------------------------------------ independent pairs: until/add the other way round, antisymmetry, order (A3, A4, O1)
    cases, meta = [], []
    for _ in range(ctx.scale(3000, 40000)):
        a = rand_date(rng, years)
        r = rng.random()
        if r < 0.5:
            b = rand_date(rng, years)
        elif r < 0.8:
            b = (max(-32768, min(32767, a[0] + rng.randrange(-2, 3))),) + rand_date(rng, years)[1:]
        else:
            b = (-a[0] if a[0] != -32768 else 32767, a[1], a[2])
        cases.append("dt.arith\t%d\t%d\t%d\t%d\t%d\t%d" % (a + b)); meta.append((a, b))
    impl, _ = ctx.correspond("pairs", cases, nontrivial=lambda c, i: " ok " in i)
    base = len(impl) - len(cases)
    for k, (a, b) in enumerate(meta):
        o = impl[base + k].split(" ")
        if len(o) != 8:
            ctx.fail("pairs-panic", "days_until / add_days on %s, %s: %s" % (a, b, impl[base + k]), [cases[k]], [impl[base + k]])
            continue
        n, back, c, cmpv = int(o[0]), int(o[1]), tuple(int(x) for x in o[3:6]), o[7]
        if c != b:
            ctx.fail("until-add", "a=%s b=%s: a.add_days(a.days_until(b)) = %s" % (a, b, c), [cases[k]], [impl[base + k]], str(b))
        if back != -n:
            ctx.fail("until-antisym", "a=%s b=%s: days_until %d one way, %d back" % (a, b, n, back), [cases[k]], [impl[base + k]])
        oa, ob = ordinal(a[1], a[2]), ordinal(b[1], b[2])
        if a[0] >= 0 and b[0] >= 0 and n != (b[0] - a[0]) * 365 + ob - oa:
            ctx.fail("until-ref", "a=%s b=%s: days_until = %d, 365-day calendar says %d" % (a, b, n, (b[0] - a[0]) * 365 + ob - oa), [cases[k]], [impl[base + k]])
        if a[0] >= 1 and b[0] >= 1:
            exp = "lt" if n > 0 else ("gt" if n < 0 else "eq")
            if cmpv != exp:
                ctx.fail("ord-sign", "a=%s b=%s: Ord says %s, days_until = %d" % (a, b, cmpv, n), [cases[k]], [impl[base + k]], exp)
        lex = "lt" if a < b else ("gt" if a > b else "eq")
        if cmpv != lex:
            ctx.fail("ord-lex", "a=%s b=%s: Ord says %s, (y, m, d) order says %s" % (a, b, cmpv, lex), [cases[k]], [impl[base + k]], lex)

    # ------------------------------------------------------------ exhaustive sweeps on the real code (quantifier dimensions)
    sweeps = []
    thorough = ctx.tier == "thorough"
    for lo in range(-32768, 32768, 64):
        sweeps.append(("dates", "dt.sweep_dates\t%d\t%d\t%d" % (lo, lo + 63, 1 if thorough else 0), 64 * 365))
    if not thorough:
        hy = set(years)
        y = -32768 + rng.randrange(32)
        while y <= 32767:
            hy.add(y); y += 32
        for y in sorted(hy):
            sweeps.append(("dates", "dt.sweep_dates\t%d\t%d\t1" % (y, y), 365))
    blk = 1 << 19
    wlo = (MIN_BIN - 100000) // blk * blk
    whi = MAX_BIN + 100000
    lo = -2 ** 31 if thorough else wlo
    hi_all = 2 ** 31 if thorough else whi
    while lo < hi_all:
        n = min(blk, 2 ** 31 - lo)
        sweeps.append(("bin", "dt.sweep_bin\t%d\t%d" % (lo, n), (lo, lo + n)))
        lo += n
    if not thorough:
        outside = [-2 ** 31, 2 ** 31 - blk, wlo - blk, (whi // blk + 1) * blk]
        for _ in range(60):
            outside.append(rng.choice([rng.randrange(-2 ** 31, wlo - blk), rng.randrange(whi + blk, 2 ** 31 - blk)]))
        for lo in outside:
            n = 1 << 17
            sweeps.append(("bin", "dt.sweep_bin\t%d\t%d" % (lo, n), (lo, lo + n)))
    for lo in range(0, 10000, 10):
        sweeps.append(("digits", "dt.sweep_fast\tdigits\t%d\t%d" % (lo, lo + 9), 10 * 827))
    cy = set([0, 1, 9, 10, 99, 100, 999, 1000, 1444, 2200, 9999])
    while len(cy) < ctx.scale(40, 400):
        cy.add(rng.randrange(0, 10000))
    for y in sorted(cy):
        sweeps.append(("corrupt", "dt.sweep_fast\tcorrupt\t%d\t%d" % (y, y), None))
    rng.shuffle(sweeps)
    ctx.count("sweep_cases", len(sweeps))
    tot = {}

    def judge(stream, sweeps, profile):
        cases = [s[1] for s in sweeps]
        impl, _ = ctx.correspond(stream, cases, nontrivial=lambda c, i: " bad=0" in i, model=False, profile=profile)
        base = len(impl) - len(cases)
        for k, (what, c, expect) in enumerate(sweeps):
            o = impl[base + k]
            f = dict(x.split("=", 1) for x in o.split(" ") if "=" in x)
            tag = c.replace("\t", " ") + (" [%s build]" % profile if profile != "release" else "")
            if "bad" not in f:
                ctx.fail("sweep-" + what, "%s did not finish: %s" % (tag, o), [c], [o])
                continue
            tot[what] = tot.get(what, 0) + int(f["n"])
            if f["bad"] != "0":
                ctx.fail("sweep-" + what, "%s: %s checks failed, first: %s" % (tag, f["bad"], f["first"]), [c], [o], "bad=0")
                continue
            acc = int(f["acc"])
            if what in ("dates", "digits") and acc != expect:
                ctx.fail("sweep-" + what, "%s accepted %d dates, expected %d" % (tag, acc, expect), [c], [o], "acc=%d" % expect)
            if what == "dates":
                a, b = (int(x) for x in f["wide_lt10"].split("/"))
                if a not in (0, b):
                    ctx.fail("sweep-dates", "%s: zero-padded hours < 10 read back in %d of %d cases (all or none expected)" % (tag, b - a, b), [c], [o])
            if what == "bin":
                lo, hi = expect
                e_acc = max(0, min(hi, MAX_BIN) - max(lo, 0)) + count_multiples(max(lo, MIN_BIN), min(hi, 0), YEAR_SPAN)
                e_h = count_multiples(max(lo, 4901 * YEAR_SPAN), min(hi, MAX_BIN), 24)
                e_dh = max(0, min(hi, MAX_BIN) - max(lo, 6800 * YEAR_SPAN)) + sum(1 for s in (5001 * YEAR_SPAN, 4999 * YEAR_SPAN) if lo <= s < hi)
                if (acc, int(f["acch"]), int(f["accdh"])) != (e_acc, e_h, e_dh):
                    ctx.fail("sweep-bin", "%s: accepted %d / heuristic %s / DateHour heuristic %s, closed form %d / %d / %d" % (tag, acc, f["acch"], f["accdh"], e_acc, e_h, e_dh), [c], [o])
            if what == "corrupt" and acc == 0:
                ctx.fail("sweep-corrupt", "%s accepted nothing" % tag, [c], [o])

    judge("sweeps", sweeps, "release")

    # the same checks on a small slice with the debug build (overflow checks and debug_assert! armed), and the boundary
    # arithmetic: whatever is not a documented panic must not depend on the build profile
    if "debug" in ctx_profiles(ctx):
        dbg = []
        for y in (-32768, -5001, -5000, -1, 0, 1, 1444, 32767):
            dbg.append(("dates", "dt.sweep_dates\t%d\t%d\t1" % (y, y), 365))
        for lo in (-2 ** 31, 2 ** 31 - (1 << 15), MIN_BIN - (1 << 14), -(1 << 14), MAX_BIN - (1 << 14), 5001 * YEAR_SPAN - 100):
            dbg.append(("bin", "dt.sweep_bin\t%d\t%d" % (lo, 1 << 15), (lo, lo + (1 << 15))))
        for lo in (0, 1440, 9990):
            dbg.append(("digits", "dt.sweep_fast\tdigits\t%d\t%d" % (lo, lo + 9), 10 * 827))
        for y in (0, 1444, 9999):
            dbg.append(("corrupt", "dt.sweep_fast\tcorrupt\t%d\t%d" % (y, y), None))
        judge("sweeps_debug", dbg, "debug")
        bcases = ab_cases
        impl_d, _ = ctx.correspond("add_boundary_debug", bcases, nontrivial=lambda c, i: True, model=False, profile="debug")
        based = len(impl_d) - len(bcases)
        for k, c in enumerate(bcases):
            if impl_d[based + k] != ab_impl[k]:
                ctx.fail("profile-dependent", "%s gives %s in the debug build, %s in the release build" % (c.replace("\t", " "), impl_d[based + k], ab_impl[k]), [c], [impl_d[based + k]], ab_impl[k])
    for what, n in tot.items():
        ctx.count("sweep_checks_" + what, n)
