"""C01 Text tape mirrors the document's structure regardless of layout."""
from vlib import hexs, unhex
from props import textdoc as td
from props import textgen as tg
# >>> a_c01
from props import C01_more
# <<< a_c01
# >>> w_c01
from props import C01_w5
# <<< w_c01
# >>> s_c01
from props import C01_sizes
# <<< s_c01

RULE = ("documents from the abstract model (8 operators, quoted/unquoted/@var/@[..]/non-ASCII scalars, escaped quotes, nested objects, arrays, "
        "arrays of objects, empty containers, headers, parameter blocks, object->array and array->kv mixed containers) x 8 layout styles "
        "(minimal, spaced, CRLF, tabs, comment-heavy, ';', wild) x BOM x left padding 0..32 x scalar lengths straddling 16-byte blocks; "
        "per-function scanner streams at every (length <= 48, boundary position) pair; byte soups for model-vs-implementation on rejected input; "
        "parse into a used tape. "
        # >>> a_c01
        "Wave 4 (props/C01_more.py): richer documents (headers over objects / nested arrays / quoted items, parameter blocks first in an object, arrays of objects, "
        "scalars of 15/16/17/31/32/33 bytes) under adversarial gaps (comment or ';' glued to an operator / quote / brace, comment glued to a bare word, lone CR, "
        "unterminated comment at end of input, BOM + padding 0..33, '=' before '{' toggled on the same document, scalars ending 0..17 bytes before end of input, "
        "the empty document); exactly the document classes wf_doc excludes (E1..E8 of audit/C01.md) against the reading the look-ahead rules give; chains of 2..6 "
        "parses into one tape with rejected / BOM / empty inputs in the pool; Operator::symbol/name/Display of every operator token; the non-x86-64 scanners under "
        "Miri (i686) against the byte-wise specifications and the SWAR model. "
        # <<< a_c01
        # >>> w_c01
        "Wave 5 (props/C01_w5.py): wf_doc_mixed documents (scalar-first containers inside object tails and key-value lists, container-first key-value lists, "
        "nested to depth 4) against the extracted TextDocMixed.wfm_fields / TextDoc.flatten / render and the real parser, with deliberately broken members; "
        "accepted inputs with every kind of ending x trailing gaps (boundary-first, and ';'-first after a boundary byte). "
        # <<< w_c01
        # >>> s_c01
        "Wave 6 (props/C01_sizes.py): size / boundary ladders, one dimension at a time on an otherwise small input, through 0 1 2 3 7 8 9 15 16 17 31 32 33 63 64 65 "
        "127 128 129 255 256 257 1023 1024 1025 4095 4096 4097 65533 65534 65535 65536: lengths of every kind of scalar (bare / quoted / @variable / @[..] / parameter "
        "name and value / header name / key), of gaps, paddings and comments; counts of fields, duplicate keys, items, ghosts, extraneous braces, operators, "
        "parameters, escapes, comments; nesting depth of every container kind to 4097; pairs length x padding x distance to the end of input, token count x Vec "
        "capacity, tape size x reuse (chains of up to 1025 parses); the scanners per function at the same lengths; expected tape by construction. "
        # <<< s_c01
        "non-trivial = the parse succeeded with at least one container or operator token, or a scanner case with a boundary byte")
TRUSTED = ["x86-64 SSE2 intrinsics modelled by their lane-wise meaning (first lane whose byte is in the compared set)",
           # a_c01
           "Miri's interpretation of the i686 build stands for the non-x86-64 targets (the stream is skipped with a note when `cargo +nightly miri` is not installed)"]
ASSUMPTIONS = ["'mirrors the document' is TextDoc.flatten (Coq, extracted and run on every generated document); the Python copy props/textdoc.flatten is checked against it on every run (stream spec_tie)"]


def scanner_cases(ctx):
    rng = ctx.rng
    cases = []
    bnd = [9, 10, 11, 12, 13, 32, 33, 35, 60, 61, 62, 91, 93, 123, 125]
    # split_at_scalar: every length <= 48 with one boundary byte at every position (and none)
    for n in range(1, ctx.scale(40, 49)):
        for pos in list(range(n)) + [None]:
            b = bytearray(rng.choice(b"abcxyz019_.-\x80\xe9\"'@?;:") for _ in range(n))
            if pos is not None:
                b[pos] = rng.choice(bnd)
            cases.append("tt.split\t%s" % hexs(b))
            if n > 1 and rng.random() < 0.3:
                cases.append("tt.split_fb\t%s" % hexs(b))
    # every byte value as the only special byte, in the SIMD part and in the tail
    for v in range(256):
        for n, pos in ((40, 3), (40, 20), (40, 30), (8, 3), (17, 0), (17, 16), (33, 16)):
            b = bytearray(b"a" * n); b[pos] = v
            cases.append("tt.split\t%s" % hexs(b))
    # parse_quote_scalar: closing quote / backslash at every position
    for n in range(0, ctx.scale(40, 49)):
        for pos in list(range(n)) + [None]:
            b = bytearray(rng.choice(b"abcxyz {}=#\xe9") for _ in range(n))
            if pos is not None:
                b[pos] = 0x22
            if rng.random() < 0.35 and n > 0:
                b[rng.randrange(n)] = 0x5c
            cases.append("tt.quote\t%s" % hexs(b'"' + bytes(b)))
            if rng.random() < 0.2:
                cases.append("tt.quote_fb\t%s" % hexs(b'"' + bytes(b)))
    return cases


def run(ctx):
    rng = ctx.rng
    # ---- scanners, per function
    cases = scanner_cases(ctx)
    impl, _ = ctx.correspond("scanners", cases, nontrivial=lambda c, i: True)
    base = len(impl) - len(cases)
    BOUND = set([9, 10, 11, 12, 13, 32, 33, 35, 60, 61, 62, 91, 93, 123, 125])
    for k, c in enumerate(cases):
        kind, h = c.split("\t")
        d = unhex(h)
        o = impl[base + k]
        if kind in ("tt.split", "tt.split_fb"):
            idx = next((i for i, x in enumerate(d) if x in BOUND), len(d))
            idx = max(idx, 1)
            exp = "%s %s" % (hexs(d[:idx]), hexs(d[idx:]))
            if o != exp:
                ctx.fail("split-spec", "%s(%r) = %s, byte-wise first boundary gives %s" % (kind, d, o, exp), [c], [o], exp)
        else:
            pos, exp = 1, "ERR"
            while pos < len(d):
                if d[pos] == 0x5c:
                    pos += 2
                elif d[pos] == 0x22:
                    exp = "%s %s" % (hexs(d[1:pos]), hexs(d[pos + 1:])); break
                else:
                    pos += 1
            if o != exp:
                ctx.fail("quote-spec", "%s(%r) = %s, escape-aware scan gives %s" % (kind, d, o, exp), [c], [o], exp)

    # ---- documents x layouts: tape = flatten(doc), independent of the layout
    cases, meta = [], []
    ndocs = ctx.scale(500, 8000)
    for di in range(ndocs):
        doc = td.gen_doc(rng, depth=rng.choice([1, 2, 3, 4]))
        exp = td.flatten(doc)
        styles = td.STYLES if di % 4 == 0 else [rng.choice(td.STYLES), "minimal"]
        for st in styles:
            bom = rng.random() < 0.15
            pad = rng.choice([0, 0, 1, 2, 7, 8, 15, 16, 17, rng.randrange(0, 33)])
            data = td.render(doc, rng, st, bom=bom, pad=pad)
            # place the document 0..20 bytes before the end of input (SIMD / tail switch)
            data += b" " * rng.choice([0, 0, 1, 5, 15, 16, 17, 20])
            cases.append("tt.parse\t%s" % hexs(data)); meta.append((exp, bom, data, st))
        ctx.count("docs")
    impl, _ = ctx.correspond("documents", cases, nontrivial=lambda c, i: (" A:" in i or " O:" in i or " OP:" in i))
    base = len(impl) - len(cases)
    for k, (exp, bom, data, st) in enumerate(meta):
        want = "ok %d %s" % (1 if bom else 0, exp)
        if impl[base + k] != want:
            ctx.fail("tape-ne-doc", "layout %s: parse(%r) = %s, document says %s" % (st, data, impl[base + k][:400], want[:400]), [cases[k]], [impl[base + k]], want)
        ctx.count("layout_" + st)

    # ---- the specification itself: Coq TextDoc.flatten / render / wf_doc run on the generated documents.
    # Ties the Python oracle (textdoc.flatten, textdoc.render, the generator's restrictions) to the
    # definitions that C01_parse_render is stated over, and the implementation to `flatten` directly.
    import vlib
    sp_cases, sp_meta = [], []
    for di in range(ctx.scale(400, 6000)):
        doc = td.gen_doc(rng, depth=rng.choice([1, 2, 3, 4]))
        st = rng.choice(td.STYLES)
        bom = rng.random() < 0.2
        data, gaps = td.render_with_gaps(doc, rng, st, bom=bom)
        sd = td.ser(doc)
        sp_cases.append("spec.doc\t%s" % sd); sp_meta.append(("doc", doc, data, bom))
        sp_cases.append("spec.render\t%s\t%d\t%s" % (sd, 1 if bom else 0, ",".join(hexs(g) for g in gaps))); sp_meta.append(("render", doc, data, bom))
        sp_cases.append("tt.parse\t%s" % hexs(data)); sp_meta.append(("parse", doc, data, bom))
    sp_model = vlib.run_model(sp_cases)
    sp_impl = vlib.run_impl([c for c in sp_cases if c.startswith("tt.parse")])
    ctx.evaluations += len(sp_cases)
    ctx.streams["spec_tie"] = {"cases": len(sp_cases), "disagree": 0}
    ii = 0
    for k, (what, doc, data, bom) in enumerate(sp_meta):
        m = sp_model[k] if k < len(sp_model) else "MISSING"
        if what == "doc":
            if m != "wf " + td.flatten(doc):
                ctx.streams["spec_tie"]["disagree"] += 1
                ctx.disagreements.append(("spec_tie", sp_cases[k], "python: wf " + td.flatten(doc)[:200], m[:200]))
        elif what == "render":
            if m != "gaps_ok " + hexs(data):
                ctx.streams["spec_tie"]["disagree"] += 1
                ctx.disagreements.append(("spec_tie", sp_cases[k][:300], "python render: " + hexs(data)[:200], m[:200]))
        else:
            o = sp_impl[ii]; ii += 1
            spec = sp_model[k - 2]           # Coq flatten of the same document
            want = "ok %d %s" % (1 if bom else 0, spec[3:]) if spec.startswith("wf ") else None
            if want is not None and o != want:
                ctx.fail("tape-ne-coq-flatten", "parse(%r) = %s but TextDoc.flatten says %s" % (data, o[:300], want[:300]), [sp_cases[k], sp_cases[k - 2]], [o], want)
            ctx.nontrivial.add(hash(o) & 0xffffffffffff)
    ctx.count("spec_tie_docs", len(sp_cases) // 3)

    # ---- reuse of a tape that held another document
    rc = []
    for k in range(0, len(cases), max(1, len(cases) // ctx.scale(200, 2000))):
        prev = cases[rng.randrange(len(cases))].split("\t")[1]
        rc.append("tt.parse_reuse\t%s\t%s" % (prev, cases[k].split("\t")[1]))
    rimpl, _ = ctx.correspond("reuse", rc, nontrivial=lambda c, i: i.startswith("ok"))
    rbase = len(rimpl) - len(rc)
    fresh = {cases[k].split("\t")[1]: impl[base + k] for k in range(len(cases))}
    for k, c in enumerate(rc):
        if rimpl[rbase + k] != fresh[c.split("\t")[2]]:
            ctx.fail("reuse", "parsing into a used tape differs from a fresh tape", [c], [rimpl[rbase + k]], fresh[c.split("\t")[2]])

    # ---- soups: model vs implementation on arbitrary (mostly rejected) input
    sc = []
    for _ in range(ctx.scale(6000, 100000)):
        sc.append("tt.parse\t%s" % hexs(tg.gen_soup(rng, maxlen=rng.choice([6, 12, 30]))))
    for _ in range(ctx.scale(1500, 20000)):
        sc.append("tt.parse\t%s" % hexs(tg.gen_stream(rng)))
    ctx.correspond("soups", sc, nontrivial=lambda c, i: i.startswith("ok") and len(i) > 8)

    # >>> a_c01 (wave 4): adversarial layouts, the classes wf_doc excludes, reuse chains, non-x86-64 scanners (audit/C01.md)
    C01_more.run_part(ctx)
    # <<< a_c01
    # >>> w_c01 (wave 5): wf_doc_mixed documents (containers inside mixed regions), trailing gaps (audit/C01.md)
    C01_w5.run_part(ctx)
    # <<< w_c01
    # >>> s_c01 (wave 6): size / boundary ladders (audit/C01.md "Size dimensions")
    C01_sizes.run_part(ctx)
    # <<< s_c01


def search(ctx):
    import random
    ctx.rng = random.Random(ctx.seed + 1)
    old = ctx.tier
    ctx.tier = "thorough"
    try:
        run(ctx)
    finally:
        ctx.tier = old


CLAIM = {
    "text": "Coq theorems over a literal Gallina model of text/tape.rs (SSE2 block walk over the compare set regenerated from the source, byte-wise fallbacks, five-state parser with every index/insert as an explicit panic site); the model is run against the implementation on every generated document x layout, on per-function scanner cases at every alignment, and on arbitrary byte soups; the property's oracle (tape = flatten(document) for every layout, padding and alignment; reuse of a tape is invisible) is evaluated on the implementation",
    "note": "Trusted: Coq kernel, tools/gen_tables.py (boundary class table and SIMD compare operands), extraction, harness, Intel pseudo-code for the SSE2 intrinsics. See evidence coverage.theorems for what is proved; parse(render d l) = flatten d is carried by correspondence + oracle where not yet proved.",
    "technique": "machine-checked proof in Coq over an executable model + model/implementation correspondence by extraction",
}
