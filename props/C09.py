"""C09 Skipping a container or value lands exactly after its matching close (text half here; binary half from props/C09_bin.py when present)."""
from props import C09_text

RULE = ("text: generated documents (brace-, quote-, backslash- and '#'-bearing strings, comments) x every sampled Open position x read schedules x "
        "buffer sizes, for TokenReader::skip_container and skip_unquoted_value; alignment sweep of each special byte across an 8-byte word. "
        "Oracle: tokens after the skip = tokens after the matching Close found by counting on the slice reader's token list. "
        "non-trivial = the skip succeeded over a container. "
        "Wave 4 (props/C09_doc.py): documents with parameter blocks, '?'-words and clean @[..] x EVERY Open x buffers from 3 bytes x schedules, "
        "oracle derived from the abstract document (position() after the skip = byte offset after the document's matching close; rest = what "
        "the slice reader reads from there); short inputs x all compositions of the reads x caps 1,2,3,8; 8+ braces in one SWAR word at every "
        "alignment, quotes/comments several buffers long, CR/VT/FF inside comments; skip_unquoted_value gap variants (LF TAB TAB TAB after a "
        "comment across a refill, ';', end of input inside a comment); count_chunk / contains_zero_byte / repeat_byte against a per-lane oracle; "
        "binary: the whole rest of the stream after one and after two skips, every payload kind filled with id-looking words. "
        "Wave 6 (props/C09_size.py): one size dimension at a time up the ladder 0 1 2 3 7 8 9 .. 65535 65536 with the landing offset "
        "known by construction: nesting depth (to 70000), every word over { } x in one SWAR chunk, skipped length (to 2^20+3) and refills, "
        "quote / comment length, token and sibling counts, tokens before the skip, buffer size x offset of the close around the window end, "
        "gap of skip_unquoted_value, up to 65536 skips on one reader; binary: depth, counts per payload kind, string lengths with capacity "
        "= token and a carry-over above 65535 bytes, first read cut at every byte, every non-reserved id; release and debug builds")
TRUSTED = []
ASSUMPTIONS = []
# a_c09 (wave 4): the binary half compares the debug build with the release build (stream skip_debug_build); without this
# line `check C09` never rebuilt the debug harness, so that stream ran a stale binary when the repository changed
PROFILES = ["release", "debug"]


def run(ctx):
    C09_text.run_text(ctx)
    try:
        from props import C09_bin
    except ImportError:
        C09_bin = None
    if C09_bin:
        C09_bin.run_binary(ctx)
    # >>> a_c09 (wave 4): document-derived oracles, every Open, small buffers, all compositions, dense braces,
    #     skip_unquoted_value gaps, SWAR leaves; binary: drain after the skip, two skips in one run
    from props import C09_doc
    C09_doc.run_doc(ctx)
    if C09_bin and hasattr(C09_bin, "run_binary_more"):
        C09_bin.run_binary_more(ctx)
    # <<< a_c09
    # >>> s_c09 (wave 6): size / boundary ladders (depth, braces per SWAR chunk, skipped length and refills, quote / comment
    #     length, token counts, buffer size x close offset, gap of skip_unquoted_value, histories of skips, u16 string lengths
    #     with capacity = token, carry-over > 65535, every id), release and debug builds
    from props import C09_size
    C09_size.run_size(ctx)
    # <<< s_c09


def search(ctx):
    import random
    ctx.rng = random.Random(ctx.seed + 1)
    old = ctx.tier
    ctx.tier = "thorough"
    try:
        run(ctx)
    finally:
        ctx.tier = old


CLAIM = {
    "text": "Coq theorems over the literal models of the text reader's skip_container (8-byte SWAR brace counting, Quote/Comment sub-states surviving refills) and of the binary lexer/reader skips; correspondence on every case; oracle on the implementation: the stream continues exactly at the token after the matching close found by token counting, for every schedule and buffer size",
    "note": "Trusted: Coq kernel, translator, extraction, harness. Evidence lists the theorems proved; the rest is carried by correspondence + oracle. "
            "Document level: C09_text_doc_skip_all / C09_text_doc_stream_all hold for every document whose unquoted tokens hold none of { } \" # "
            "(parameter blocks, @[..], ?-words included) under every whitespace/comment layout; the excluded documents are the refuted class "
            "(known finding text-skip-unquoted-special). The link document -> token counting by the reference tokenizer is proved for "
            "simple_fields documents only (C09_text_doc_skip_partial); for the rest it is checked on the implementation (oracle text-doc-count).",
    "technique": "machine-checked proof in Coq over an executable model + model/implementation correspondence by extraction",
}
