"""C16 JSON conversion is valid JSON and carries the document's content."""
import json, re
from fractions import Fraction
from vlib import hexs, unhex
from props import C17

RULE = ("documents as in C17 (generated Clausewitz text, one-byte mutations, random strings over the significant alphabet; "
        "every input the real parser accepts); for the top level and EVERY container/header node: the three entry points "
        "(value / object / array reader .json()) x 3 duplicate-key modes x 3 type narrowings x pretty on/off x Windows-1252 "
        "(all 18 options) and UTF-8 (sampled options); plus Scalar::to_f64 on number-like strings. The produced JSON text is "
        "parsed back with serde_json (strict, duplicates preserved) into a tree and compared with the model's tree; "
        "non-trivial = the tree has at least one entry or element. "
        "Wave 4 (props/C16_text.py): stream print = the exact bytes of to_writer / to_vec / to_string (must agree) of all three builders, "
        "compared with the printer model JsonText.json_text (serde_json compact / pretty formatter; float tokens lexed by the harness "
        "and replaced by their bits on both sides); oracles on the text: a strict RFC 8259 recogniser + Python json + UTF-8, pretty = "
        "minified up to whitespace between tokens, document order predicted from the tape string alone (Preserve, None, root), "
        "header = single-entry object, json() without with_options = default options; wide / deep documents of C17_iter join")
TRUSTED = ["serde_json prints the tree: since wave 4 its two formatters are MODELLED (JsonText.v: escaping table, itoa, null for non-finite "
           "floats, compact / pretty layout) and tied byte for byte by the stream print; only ryu's float digits remain a parameter whose "
           "contract (an ASCII JSON number token) is checked lexically on every output; every output is also re-parsed strictly "
           "by serde_json, by Python's json module and by a recogniser of RFC 8259 in props/C16_text.py, and must be valid UTF-8",
           "Encoding::decode is a parameter of the model (executable stand-ins exercised by correspondence; C12 family)",
           "Scalar::to_f64 is modelled exactly with integer arithmetic (Json.to_f64: u64->f64 and f64/f64 round-to-nearest-even), "
           "tied by the f64 stream; the Flocq statement about it belongs to C11",
           "tapes satisfy TapeWf.tape_wf (checked on every real tape in C17)"]
ASSUMPTIONS = ["recursion depth of json() equals input nesting (DESIGN section 7-I, property C05)"]

OPNAMES = {"0": "LESS_THAN", "1": "LESS_THAN_EQUAL", "2": "GREATER_THAN", "3": "GREATER_THAN_EQUAL", "4": "NOT_EQUAL",
           "5": "EXACT", "6": "EQUAL", "7": "EXISTS"}
DUPS, NARS = "gpk", "aun"


# ------------------------------------------------------------------ canonical tree parser
def parse_tree(s):
    pos = 0

    def val():
        nonlocal pos
        c = s[pos]
        if c in "ntf":
            pos += 1
            return {"n": None, "t": True, "f": False}[c] if c != "n" else ("null",)
        if c == "i":
            m = re.compile(r"i(-?\d+)").match(s, pos)
            pos = m.end()
            return ("int", int(m.group(1)))
        if c == "d":
            v = s[pos + 1:pos + 17]
            pos += 17
            return ("f64", v)
        if c == "s":
            m = re.compile(r"s(-|[0-9a-f]+)").match(s, pos)
            pos = m.end()
            return ("str", m.group(1))
        if c == "[":
            pos += 1
            out = []
            while s[pos] != "]":
                out.append(val())
                if s[pos] == ",":
                    pos += 1
            pos += 1
            return ("arr", out)
        if c == "{":
            pos += 1
            out = []
            while s[pos] != "}":
                k = val()
                assert s[pos] == ":"
                pos += 1
                out.append((k[1], val()))
                if s[pos] == ",":
                    pos += 1
            pos += 1
            return ("obj", out)
        raise ValueError("bad tree at %d" % pos)

    v = val()
    if pos != len(s):
        raise ValueError("trailing")
    return v


def show(v):
    if v is True:
        return "t"
    if v is False:
        return "f"
    k = v[0]
    if k == "null":
        return "n"
    if k == "int":
        return "i%d" % v[1]
    if k == "f64":
        return "d" + v[1]
    if k == "str":
        return "s" + v[1]
    if k == "arr":
        return "[" + ",".join(show(x) for x in v[1]) + "]"
    return "{" + ",".join("s%s:%s" % (a, show(b)) for a, b in v[1]) + "}"


def leaves(v, out):
    if v is True or v is False or v[0] in ("null", "int", "f64", "str"):
        out.append(show(v))
    elif v[0] == "arr":
        for x in v[1]:
            leaves(x, out)
    else:
        for _, x in v[1]:
            leaves(x, out)
    return out


def leaf_vals(v, out):
    if v is True or v is False or v[0] in ("null", "int", "f64", "str"):
        out.append(v)
    elif v[0] == "arr":
        for x in v[1]:
            leaf_vals(x, out)
    else:
        for _, x in v[1]:
            leaf_vals(x, out)
    return out


def shape(v):
    if v is True or v is False or v[0] in ("int", "f64", "str"):
        return "L"
    if v[0] == "null":
        return "n"
    if v[0] == "arr":
        return "[" + ",".join(shape(x) for x in v[1]) + "]"
    return "{" + ",".join("s%s:%s" % (a, shape(b)) for a, b in v[1]) + "}"


def hx(s):
    return s.encode().hex()


def unwrap_op(v, op):
    """OperatorValue: {NAME: value} when the field has an operator token"""
    if op == "-":
        return v
    if v is True or v is False or v[0] != "obj" or len(v[1]) != 1 or v[1][0][0] != hx(OPNAMES[op]):
        return None
    return v[1][0][1]


def keystr(tok, dec):
    d = "" if dec == "-" else dec
    if tok.startswith("P:"):
        return hx("[") + d + hx("]")
    if tok.startswith("N:"):
        return hx("[!") + d + hx("]")
    return d if d else "-"


def f64_of_hex(h):
    import struct
    return struct.unpack(">d", bytes.fromhex(h))[0]


def check_narrow(ctx, case, o, raw, leaf, narrowing_applies):
    """narrowing_spec on one scalar whose raw ASCII text is `raw`"""
    txt = raw.decode("latin1")
    fail = lambda msg, exp=None: ctx.fail("narrowing", "scalar %r: %s" % (raw, msg), [case], [o], exp)
    if not narrowing_applies:
        if leaf is True or leaf is False or leaf[0] != "str":
            fail("narrowed although the options forbid it")
        return
    if txt == "yes" or txt == "no":
        if leaf is not (txt == "yes"):
            fail("bool expected")
        return
    if leaf is True or leaf is False:
        fail("not a bool literal")
        return
    if re.match(r"^-?\d+$", txt):
        v = int(txt)
        if abs(v) <= 2 ** 53 - 1:
            if leaf != ("int", v):
                fail("integer representable in f64 must become that number", "i%d" % v)
        elif -2 ** 63 <= v < 2 ** 64 and leaf[0] != "str":
            fail("integer f64 cannot hold exactly must stay a string", "string")
        elif leaf[0] == "int":
            fail("out of range integer became a number")
        return
    if leaf[0] in ("int", "f64"):
        # the accepted number syntax: [-][+]digits[.digits] (a lone sign reads as 0: documented quirk of Scalar)
        m = re.match(r"^(-?)\+?(\d*)(?:\.(\d+))?$", txt)
        if not m:
            fail("not number syntax but narrowed to a number")
            return
        frac = m.group(3) or ""
        val = Fraction(int((m.group(2) or "0") + frac or "0"), 10 ** len(frac))
        if m.group(1):
            val = -val
        got = Fraction(leaf[1]) if leaf[0] == "int" else Fraction(f64_of_hex(leaf[1]))
        tol = abs(val) * Fraction(1, 2 ** 51)
        if abs(got - val) > tol:
            fail("number %s is not the decimal value %s" % (float(got), float(val)))
    elif re.match(r"^-?\d*\.\d+$", txt) and len(txt.split(".")[1]) <= 22 and len(txt.replace("-", "").replace(".", "")) <= 19:
        fail("plain decimal stays a string", "number")


def check_array_content(ctx, m, tr, o, c, toks, views, trees, out):
    """InnerSerArray on the implementation's own values(): the marker is skipped, `a op b` becomes a
    single-entry object {a: b} (operator name wrapped unless '='), every other value stands for itself"""
    di, idx, entry, enc, p, du, na = m
    tok = toks[int(idx)]
    if not ((tok[:2] in ("A:", "O:") and entry == "a") or (tok.startswith("A:") and entry == "v")):
        return
    view = views.get((di, idx, enc))
    parts = C17.split_node(view) if view else None
    av = C17.parse_view(parts[5]) if parts else None
    if not av:
        return
    fail = lambda key, msg, exp=None: ctx.fail(key, "array node %s %s: %s" % (idx, du + na, msg), [c], [o], exp)
    if du == "k":
        ok = (tr is not True and tr is not False and tr[0] == "obj" and [a for a, _ in tr[1]] == [hx("type"), hx("val")]
              and tr[1][0][1] == ("str", hx("array")) and tr[1][1][1][0] == "arr")
        if not ok:
            fail("content-kvp", "KeyValuePairs: not {type:array,val:[...]}")
            return
        elems = tr[1][1][1][1]
    else:
        if tr is True or tr is False or tr[0] != "arr":
            fail("content", "an array must become a JSON array")
            return
        elems = tr[1]
    vals, strs = av["v"], av["vs"]
    if (du == "p" and na == "a" and entry == "a" and any(toks[x].startswith("H:") for x in vals) and not tok.startswith("H:")
            and ctx.dist.get("header-dup reported", 0) < 3):
        ctx.count("header-dup reported")
        ctx.fail("header-dup", "array node %s: a header among the values: its container is serialized inside the header's "
                 "object and once more as the next element" % idx, [c], [o])
    exp = []
    i = 0
    while i < len(vals):
        t0 = toks[vals[i]]
        if t0 == "M":
            i += 1
        elif i + 2 < len(vals) and toks[vals[i + 1]].startswith("OP:"):
            exp.append(("single", i, toks[vals[i + 1]][3:], i + 2))
            i += 3
        else:
            exp.append(("plain", i))
            i += 1
    if len(elems) != len(exp):
        fail("content-array", "%d elements for %d values (markers skipped, key-op-value triples folded)" % (len(elems), len(exp)), str(len(exp)))
        return

    def value_ok(val, vi):
        vt = toks[vals[vi]]
        if vt[:2] in ("U:", "Q:"):
            applies = na == "a" or (na == "u" and vt[0] == "U")
            return applies or val == ("str", strs[vi])
        if vt[:2] in ("A:", "O:", "H:"):
            q = (di, str(vals[vi]), "v", enc, p, du, na)
            return q not in trees or trees[q] == val
        return val == ("null",)

    for e, x in zip(elems, exp):
        if x[0] == "plain":
            if not value_ok(e, x[1]):
                fail("content-array", "value %d is not carried as itself" % x[1])
                return
        else:
            _, ki, op, vi = x
            key = strs[ki] if strs[ki] != "E" else hx("__invalid_key")
            if e is True or e is False or e[0] != "obj" or len(e[1]) != 1 or e[1][0][0] != key:
                fail("content-array", "triple at %d is not the single-entry object {key: value}" % ki)
                return
            val = unwrap_op(e[1][0][1], "-" if op == "6" else op)
            if val is None or not value_ok(val, vi):
                fail("content-op", "triple at %d: operator / value not carried" % ki)
                return


def check_out(ctx, parsed, views, out):
    """the oracles on the implementation's outputs (s_dom, wave 6: split out of run() unchanged, so that the ladder stream of
    props/C16_ladder.py applies the same oracles). parsed: [(doc, tape, toks)]; views: {(di, idx, enc): dom.node output};
    out: {(di, idx, entry, enc, pretty, dup, narrow): (json.ser output, case)}"""
    # ---- oracles on the implementation's outputs
    trees = {}
    for m, (o, c) in out.items():
        if o in ("PANIC", "ABORT", "HANG"):
            ctx.fail("json-crash", "json() crashes", [c], [o], "a JSON text"); continue
        if o == "OUTPUT-LIMIT":
            ctx.fail("json-runaway", "json() does not terminate / produces unbounded output", [c], [o], "a JSON text"); continue
        if o.startswith(("INVALID", "FLOAT-LEX", "ENTRY-MISMATCH", "UNREACH")):
            ctx.fail("json-invalid", "the produced text is not valid JSON / entry points disagree: %s" % o, [c], [o], "valid JSON"); continue
        if o == "E":
            continue
        try:
            trees[m] = parse_tree(o)
        except Exception as ex:
            ctx.fail("format", "unparsable canonical tree: %s" % ex, [c], [o])
    for m, tr in trees.items():
        di, idx, entry, enc, p, du, na = m
        o, c = out[m]
        toks = parsed[di][2]
        # pretty printing does not change the tree
        if p == "1":
            q = (di, idx, entry, enc, "0", du, na)
            if q in out and out[q][0] != o:
                ctx.fail("pretty", "pretty printing changes the content", [out[q][1], c], [out[q][0], o], out[q][0])
            continue
        # narrowing changes leaf types only
        if na != "n":
            q = (di, idx, entry, enc, p, du, "n")
            if q in trees and shape(trees[q]) != shape(tr):
                ctx.fail("narrow-shape", "type narrowing changes the structure", [out[q][1], c], [out[q][0], o])
            elif q in trees:
                # a leaf that stays a string is the same string whatever the narrowing option
                for a, b in zip(leaf_vals(tr, []), leaf_vals(trees[q], [])):
                    if a is not True and a is not False and a[0] == "str" and a != b:
                        ctx.fail("narrow-string-differs", "a string leaf depends on the type-narrowing option: %s vs %s" % (show(a)[:80], show(b)[:80]), [out[q][1], c], [out[q][0], o], "equal strings")
                        break
        else:
            # TypeNarrowing::None: no leaf anywhere (also below headers) is narrowed to a boolean or a number
            for a in leaf_vals(tr, []):
                if a is True or a is False or a[0] in ("int", "f64"):
                    ctx.fail("narrow-none-ignored", "TypeNarrowing::None but the output contains the narrowed leaf %s" % show(a)[:60], [c], [o], "string leaves only")
                    break
        # nothing lost between Preserve and Group
        if du == "g":
            q = (di, idx, entry, enc, p, "p", na)
            if q in trees and sorted(leaves(trees[q], [])) != sorted(leaves(tr, [])):
                ctx.fail("group-leaves", "Group and Preserve do not carry the same leaves", [out[q][1], c], [out[q][0], o])
        is_obj_node = idx == "top" or (toks[int(idx)].startswith("O:") and entry in "vo")
        if not is_obj_node:
            check_array_content(ctx, m, tr, o, c, toks, views, trees, out)
            continue
        view = views.get((di, idx, enc))
        if not view or view in ("PANIC", "UNREACH"):
            continue
        if idx != "top":
            parts = C17.split_node(view)
            view = parts[4] if parts else None
        v = C17.parse_view(view) if view else None
        if not v:
            continue
        fs, ks, vs, has_rem = v["f"], v["ks"], v["vs"], v["remlen"] > 0
        if du == "p" and na == "a" and any(toks[x].startswith("H:") for x in v["rem"]) and ctx.dist.get("header-dup reported", 0) < 3:
            ctx.count("header-dup reported")
            ctx.fail("header-dup", "node %s: a header inside the array part of a mixed container: its container is serialized "
                     "inside the header's object and once more as the next element" % idx, [c], [o])
        kstr = [keystr(f[0], ks[i]) for i, f in enumerate(fs)]
        fail = lambda key, msg, exp=None: ctx.fail(key, "node %s %s: %s" % (idx, du + na, msg), [c], [o], exp)
        if du in "pg":
            if tr is True or tr is False or tr[0] != "obj":
                fail("content", "an object must become a JSON object"); continue
            ents = tr[1]
            if du == "p":
                expk = kstr + ([hx("remainder")] if has_rem else [])
                if [a for a, _ in ents] != expk:
                    fail("content-keys", "keys are not the fields' keys in document order", str(expk)); continue
                for i, f in enumerate(fs):
                    val = unwrap_op(ents[i][1], f[1])
                    if val is None:
                        fail("content-op", "field %d: operator %s is not carried as a single-entry object" % (i, f[1])); continue
                    vt = toks[int(f[2])]
                    if vt[:2] in ("U:", "Q:"):
                        applies = na == "a" or (na == "u" and vt[0] == "U")
                        raw = unhex(vt[2:])
                        if not applies:
                            if val != ("str", vs[i]):
                                fail("content-value", "field %d: scalar value is not the decoded string" % i, "s" + vs[i])
                        if all(32 < b < 127 and b != 92 for b in raw):
                            check_narrow(ctx, c, o, raw, val, applies)
                    elif vt[:2] in ("A:", "O:", "H:"):
                        q = (di, f[2], "v", enc, p, du, na)
                        if q in trees and trees[q] != val:
                            fail("content-nested", "field %d: nested value differs from the JSON of that value alone" % i, out[q][0])
            else:
                order, buckets = [], {}
                for i, f in enumerate(fs):
                    kb = f[0].split(":", 1)[1]
                    if kb not in buckets:
                        buckets[kb] = []
                        order.append(kb)
                    buckets[kb].append(i)
                expk = [kstr[buckets[kb][0]] for kb in order] + ([hx("remainder")] if has_rem else [])
                if [a for a, _ in ents] != expk:
                    fail("content-keys", "Group: keys are not the distinct keys in first-appearance order", str(expk)); continue
                q = (di, idx, entry, enc, p, "p", na)
                for gi, kb in enumerate(order):
                    ids = buckets[kb]
                    val = ents[gi][1]
                    if len(ids) > 1 and (val is True or val is False or val[0] != "arr" or len(val[1]) != len(ids)):
                        fail("content-group", "Group: key %s has %d values, JSON holds %s" % (kb, len(ids), show(val)[:80]))
                    elif q in trees and trees[q][0] == "obj" and len(trees[q][1]) >= len(fs):
                        # the grouped values are the Preserve values of those fields, in order (scalars compare equal across modes)
                        pv = [trees[q][1][i][1] for i in ids]
                        gv = val[1] if len(ids) > 1 else [val]
                        for a, b in zip(pv, gv):
                            if (a is True or a is False or a[0] in ("int", "f64", "str", "null")) and a != b:
                                fail("content-group", "Group: values of key %s are not those of the fields in order" % kb)
                                break
        else:
            ok = (tr is not True and tr is not False and tr[0] == "obj" and [a for a, _ in tr[1]] == [hx("type"), hx("val")]
                  and tr[1][0][1] == ("str", hx("obj")) and tr[1][1][1][0] == "arr")
            if not ok:
                fail("content-kvp", "KeyValuePairs: not {type:obj,val:[...]}"); continue
            arr = tr[1][1][1][1]
            if len(arr) != len(fs) + int(has_rem):
                fail("content-kvp", "KeyValuePairs: %d entries for %d fields (+%d remainder)" % (len(arr), len(fs), int(has_rem))); continue
            for i, f in enumerate(fs):
                e = arr[i]
                if e is True or e is False or e[0] != "arr" or len(e[1]) != 2 or e[1][0] != ("str", kstr[i]):
                    fail("content-kvp", "KeyValuePairs: entry %d is not [key, value]" % i); break
                if unwrap_op(e[1][1], f[1]) is None:
                    fail("content-op", "KeyValuePairs: operator of field %d lost" % i); break


def run(ctx):
    rng = ctx.rng
    # ---- Scalar::to_f64 per function (model = exact integer arithmetic)
    fc = set(C17.SCALARS)
    for _ in range(ctx.scale(4000, 60000)):
        r = rng.random()
        if r < 0.5:
            i = rng.choice([rng.randrange(0, 10 ** rng.randrange(1, 20)), rng.randrange(2 ** 52, 2 ** 64)])
            k = rng.randrange(0, 24)
            s = str(i)
            s = (s[:-k] + "." + s[-k:]) if 0 < k < len(s) else ("0." + s.rjust(k, "0") if k else s)
            s = rng.choice(["", "", "-", "+", "-+"]) + s
        elif r < 0.8:
            s = "".join(rng.choice("0123456789.-+e") for _ in range(rng.randrange(0, 12)))
        else:
            s = str(rng.choice([2 ** 53 - 1, 2 ** 53, 2 ** 53 + 1, 2 ** 63 - 1, 2 ** 63, 2 ** 64 - 1, 2 ** 64]) + rng.randrange(-2, 3))
            s = rng.choice(["", "-"]) + s
        fc.add(s.encode())
    fcases = ["json.f64\t%s" % hexs(s) for s in sorted(fc)]
    ctx.correspond("to_f64", fcases, nontrivial=lambda c, i: not i.startswith("ERR"))

    # ---- documents
    docs = C17.gen_docs(ctx, ctx.scale(500, 4000), ctx.scale(600, 5000), ctx.scale(800, 6000))
    # >>> a_dom (wave 4): wide objects (many duplicate keys) and deep documents
    from props import C17_iter, C16_text
    docs = docs + C17_iter.extra_docs(ctx, ctx.scale(40, 400), ctx.scale(40, 400))
    # <<<
    ctx.count("documents", len(docs))
    parsed = C17.parse_docs(ctx, docs)
    # DOM views (implementation) of every node: what the content oracle compares the JSON with
    dcases, dmeta = [], []
    for di, (d, tape, toks) in enumerate(parsed):
        for idx in C17.node_indices(toks):
            for enc in "wu":
                dcases.append("dom.node\t%s\t%s\t%s\t%s" % (hexs(d), tape, enc, idx))
                dmeta.append((di, idx, enc))
    dimpl, _ = ctx.correspond("node", dcases, nontrivial=lambda c, i: "/" in i)
    dbase = len(dimpl) - len(dcases)
    views = {}
    for k, m in enumerate(dmeta):
        views[m] = dimpl[dbase + k]

    cases, meta = [], []
    for di, (d, tape, toks) in enumerate(parsed):
        nodes = C17.node_indices(toks)
        for idx in nodes:
            entries = "o" if idx == "top" else "voa"
            for entry in entries:
                full = (idx == "top" or entry == "v" or rng.random() < 0.3)
                for enc in "wu":
                    combos = [(p, du, na) for p in "01" for du in DUPS for na in NARS]
                    if enc == "u" or not full:
                        combos = [(p, du, na) for (p, du, na) in combos if p == "0"]
                        if enc == "u" and entry != "v" and idx != "top":
                            combos = rng.sample(combos, 2)
                    for (p, du, na) in combos:
                        cases.append("json.ser\t%s\t%s\t%s\t%s\t%s\t%s\t%s\t%s" % (hexs(d), tape, enc, idx, entry, p, du, na))
                        meta.append((di, idx, entry, enc, p, du, na))
    ctx.count("json cases", len(cases))
    impl, _ = ctx.correspond("json", cases, nontrivial=lambda c, i: ":" in i or "," in i)
    base = len(impl) - len(cases)
    out = {}
    for k, m in enumerate(meta):
        out[m] = (impl[base + k], cases[k])

    check_out(ctx, parsed, views, out)

    # >>> a_dom (wave 4): the exact text of the three entry points vs the printer model, text-level oracles
    C16_text.run_text(ctx, parsed, out)
    # <<<
    # >>> w_json (wave 5): the document walk (stream atoms) and the declarative window reading (stream aspec)
    from props import C16_doc
    C16_doc.run_doc(ctx, parsed)
    # <<<
    # >>> s_dom (wave 6): size / boundary ladders (one dimension at a time; same oracles + counts by construction)
    from props import C16_ladder
    C16_ladder.run_ladder(ctx)
    # <<<
    # ---- the text itself: valid UTF-8, valid JSON for an independent parser
    tcases = []
    for m, (o, c) in out.items():
        if m[4] == "1" or (m[5] == "p" and m[6] == "a") or rng.random() < 0.15:
            tcases.append("json.text" + c[len("json.ser"):])
    timpl, _ = ctx.correspond("text", tcases, model=False, nontrivial=lambda c, i: len(i) > 8)
    tb = len(timpl) - len(tcases)
    for k, c in enumerate(tcases):
        o = timpl[tb + k]
        if o in ("E", "UNREACH"):
            continue
        try:
            txt = unhex(o).decode("utf-8")
            json.loads(txt, parse_constant=lambda x: (_ for _ in ()).throw(ValueError("constant " + x)))
        except Exception as ex:
            ctx.fail("json-invalid", "output is not valid UTF-8 JSON for Python's json module: %s" % str(ex)[:80], [c], [o[:200]], "valid JSON")


def search(ctx):
    import random
    ctx.rng = random.Random(ctx.seed + 16)
    old = ctx.tier
    ctx.tier = "thorough"
    try:
        run(ctx)
    finally:
        ctx.tier = old


CLAIM = {
    "text": "Coq theorems over a Gallina model of json/mod.rs that maps (options, tape, node) to a JSON tree (ordered, possibly duplicate keys; numbers as i64/u64/f64 bits): on every tape satisfying TapeWf.tape_wf and for all options no unwrap/index/underflow panic is reachable and the recursion terminates (json_total); Preserve emits exactly the fields' keys and values in document order plus the remainder, Group emits one entry per distinct raw key in first-appearance order holding that key's values in order, KeyValuePairs emits [[k,v],...] (json_content); scalars narrow bool -> i64 -> u64 -> f64 -> string through Scalar's conversions and integers f64 cannot hold exactly stay strings (narrowing_spec); the tree does not depend on `pretty`. The model is tied to the code by parsing every produced JSON text back with serde_json (strict, duplicates kept, floats re-read exactly) and comparing trees, for 3 entry points x all 36 option/encoding combinations on every container node of every accepted document; validity of the text is additionally checked with Python's json module",
    "wave4": "Props/C16_text.v: for every parsed tape, all options, pretty or minified, the three entry points, every decoder returning well-formed UTF-8 and every float printer returning ASCII JSON numbers, the TEXT (JsonText.json_text of the model's tree) is in the RFC 8259 grammar (inductive predicates) and is valid UTF-8 (C16_parsed_text_valid_json); the pretty text is the same token sequence as the minified one with whitespace only between tokens and the minified text is the concatenation of the tokens (C16_pretty_whitespace_only); TypeNarrowing::None leaves no boolean / number anywhere (C16_narrowing_none_everywhere); headers are single-entry objects (C16_header_single_entry)",
    "note": "Trusted: Coq kernel, extraction, harness; serde_json's printing is an oracle (re-parsed on every case); Encoding::decode is a model parameter; Scalar::to_f64 modelled in exact integer arithmetic and tied per function. tape_wf of parser output is the tape family's theorem, here an oracle (C17 stream wf).",
    "technique": "machine-checked proof in Coq over an executable model + model/implementation correspondence by extraction",
}

# >>> w_json (wave 5)
CLAIM["wave5"] = ("Props/C16_array.v: the model of InnerSerArray's sliding window equals the declarative reading of the item list "
                  "(markers vanish, `k op v` is one single-entry object, everything else itself; unique reading; only markers deleted), "
                  "lifted to ArrayReader::json() and the remainder of mixed objects on every well-formed tape with the node's options "
                  "(C16_json_array_content, C16_remainder_content). Props/C16_doc.v: the keys and leaves of the root's JSON in text order "
                  "are the outputs of a single left-to-right walk over the tape (C16_doc_agree: Preserve and KeyValuePairs, every "
                  "depth), which on doc_clean tapes consumes every token exactly once in order (C16_doc_positions); the two ways to be "
                  "unclean are pinned (header among array items = known finding header-dup; container as key of a triple). "
                  "Props/C16_f64.v: Scalar::to_f64 never returns NaN / infinity (exponent field < 1200), so every float leaf is finite "
                  "(C16_to_f64_finite, C16_model_floats_finite). Streams atoms / aspec run the walk and the reading against json()")
RULE = RULE + ("; wave 5 (props/C16_doc.py): documents with mixed containers in both directions holding triples, nested nodes and headers; "
               "stream atoms = keys and leaves of the root's JSON in text order vs the tape walk JsonDoc.doc_eatoms (Preserve / KeyValuePairs "
               "x 3 narrowings x both encodings); stream aspec = ArrayReader::json() of container nodes vs the declarative window reading")
# <<<
# a_dom (wave 4): the additional claim is part of the manifest text
CLAIM["text"] = CLAIM["text"] + ". Wave 4: " + CLAIM.pop("wave4") + ". Wave 5: " + CLAIM.pop("wave5")

# >>> s_dom (wave 6)
RULE = RULE + ("; wave 6 (props/C16_ladder.py): the size ladders of props/C17_ladder.py (fields / duplicates / groups to 4097, key / header / string "
               "length to 65536, escapes per kind to 65536, arrays to 65536, triples x window phase to 1025, nesting to 1025, numbers of every "
               "magnitude / digit count, output from 0.15 x to 9800 x the pre-allocation) through json(): streams ladder_ser / ladder_print / "
               "ladder_atoms (with the model), ladder_*_big / ladder_print_deeper (oracles only: check_out, run_text, counts by construction)")
# <<<
