"""Binary part of C19: truncated binary documents are an error unless the cut is at a top-level field boundary,
and then the result is exactly the completed fields (tape parser and the three deserializer paths)."""
import struct
from vlib import hexs, unhex
from props import C08 as B


def sexp_items(s):
    """top-level items of '(map item item ...)' as strings"""
    if not s.startswith("(map") or not s.endswith(")"):
        return None
    body = s[4:-1].strip()
    items, depth, cur = [], 0, ""
    for ch in body:
        if ch == "(":
            depth += 1
        if depth > 0:
            cur += ch
        if ch == ")":
            depth -= 1
            if depth == 0:
                items.append(cur); cur = ""
    return items


def gen_doc(rng):
    """top-level fields `key = value` with ghost `{}` objects in between; returns (bytes, [(offset_after_field, n_real_fields_so_far)])"""
    out = bytearray()
    bounds = [(0, 0)]
    nreal = 0
    for _ in range(rng.randrange(1, 6)):
        if rng.random() < 0.25:
            out += B.enc(("O",)) + B.enc(("C",))
            bounds.append((len(out), nreal))
        key = rng.choice([("T", rng.randrange(0x400, 0xfff0)), ("Q", B.rand_string(rng, rng.randrange(1, 6))), ("U", B.rand_string(rng, rng.randrange(1, 6)))])
        out += B.enc(B.wf_fix(key, rng)) + B.enc(("EQ",))
        r = rng.random()
        if r < 0.35:
            out += B.enc(("O",)) + b"".join(B.enc(t) for t in B.rand_doc(rng, depth=1)) + B.enc(("C",))
        else:
            t = B.rand_token(rng)
            while t[0] in ("O", "C", "EQ", "T"):
                t = B.rand_token(rng)
            out += B.enc(B.wf_fix(t, rng))
        nreal += 1
        bounds.append((len(out), nreal))
    return bytes(out), bounds


def run_part(ctx):
    rng = ctx.rng
    cases, meta = [], []
    paths = ["tape", "slice", "reader:64:-", "reader:9:1,1,1,1,1,1,1,1,1,1,1,1,1,1,1,1"]
    for _ in range(ctx.scale(40, 400)):
        d, bounds = gen_doc(rng)
        if len(d) > 160:
            continue
        bmap = dict(bounds)
        for k in range(len(d) + 1):
            for p in paths:
                cases.append("\t".join(["de.bin", p, "stringify", "map:", "raw", "map(any)", hexs(d[:k])])); meta.append((d, k, p, bmap))
    impl, _ = ctx.correspond("bin_truncations", cases, model=False, nontrivial=lambda c, i: i.startswith("(map ("))
    base = len(impl) - len(cases)
    full = {}
    for j, (d, k, p, bmap) in enumerate(meta):
        if k == len(d):
            full[(d, p)] = impl[base + j]
    for j, (d, k, p, bmap) in enumerate(meta):
        o = impl[base + j]
        if o in ("PANIC", "ABORT", "HANG"):
            ctx.fail("bin-trunc-crash", "%s path on %s cut at %d: %s" % (p, d.hex(), k, o), [cases[j]], [o]); continue
        if not o.startswith("(map"):
            continue
        # a_c19: the complete document through the SAME path (the tape path differs from the other two on an rgb block inside an
        # array and on a u16-looking id in value position: C04's known findings O-tape-rgb-in-array / N-tape-u16-id-value, which
        # made this oracle fire under VERIF_SEED=4, 5, 7 with the slice result as the only reference)
        ref = sexp_items(full.get((d, p), ""))
        if ref is None:
            continue        # the complete document itself is not accepted into map(any): nothing to compare with
        fitems = ref
        items = sexp_items(o)
        # Ok is only allowed at a field boundary (or one stray byte after it, which the lexers ignore at top level)
        n = bmap.get(k, bmap.get(k - 1) if (k - 1) in bmap else None)
        if n is None:
            ctx.fail("bin-trunc-accepted", "%s path accepted %s cut at %d (inside a container / payload / between a key and the end of its value) as %s" % (p, d.hex(), k, o[:120]), [cases[j]], [o], "an error")
        elif items != fitems[:n]:
            ctx.fail("bin-trunc-fabricated", "%s path on %s cut at %d returned %s, the complete document's first %d fields are %s" % (p, d.hex(), k, o[:120], n, " ".join(fitems[:n])[:120]), [cases[j]], [o], " ".join(fitems[:n]))
    ctx.count("bin_truncation_cases", len(cases))
    run_text_de(ctx)


def run_text_de(ctx):
    """text deserializer paths (slice, tape, reader) on flat documents cut at every offset: an Ok result agrees with the complete
    document on every completed field; only the last returned field may be shorter (a cut scalar), never longer or different"""
    import re
    rng = ctx.rng
    words = [b"a", b"key_1", b"x" * 16, b"1444.11.11", b"caf\xc3\xa9", b"yes", b"-5", b"b4"]
    cases, meta = [], []
    paths = ["slice", "tape", "reader:64:-", "reader:17:1,1,1,1,1,1,1,1,1,1,1,1,1,1,1,1,1,1,1,1"]
    for _ in range(ctx.scale(30, 300)):
        parts = []
        for _ in range(rng.randrange(1, 5)):
            k = rng.choice(words)
            v = rng.choice(words) if rng.random() < 0.6 else b'"' + rng.choice([b"q r", b"s\\\"t", b"#no", b"{x}", b""]) + b'"'
            parts.append(k + rng.choice([b"=", b" = ", b"= "]) + v)
        d = rng.choice([b" ", b"\n", b"\r\n\t", b" # c\n"]).join(parts) + rng.choice([b"", b"\n", b" "])
        for k in range(len(d) + 1):
            for p in paths:
                cases.append("\t".join(["de.text", p, "w1252", "map(str)", hexs(d[:k])])); meta.append((d, k, p))
    impl, _ = ctx.correspond("text_de_truncations", cases, model=False, nontrivial=lambda c, i: i.startswith("(map ("))
    base = len(impl) - len(cases)
    full = {}
    for j, (d, k, p) in enumerate(meta):
        if k == len(d) and p == "slice":
            full[d] = impl[base + j]
    pair = re.compile(r"^\((\S+) \(str (\S+)\)\)$")
    for j, (d, k, p) in enumerate(meta):
        o = impl[base + j]
        if o in ("PANIC", "ABORT", "HANG"):
            ctx.fail("text-de-trunc-crash", "%s path on %r cut at %d: %s" % (p, d, k, o), [cases[j]], [o]); continue
        items, ref = sexp_items(o), sexp_items(full.get(d, ""))
        if items is None or ref is None:
            continue
        bad = None
        if len(items) > len(ref):
            bad = "more fields than the complete document"
        else:
            for n, it in enumerate(items):
                if it == ref[n]:
                    continue
                a, b = pair.match(it), pair.match(ref[n])
                last = n == len(items) - 1
                if not (last and a and b and a.group(1) == b.group(1) and b.group(2).startswith(a.group(2).rstrip("-")) ):
                    bad = "field %d is %s, the complete document has %s" % (n, it, ref[n]); break
        if bad:
            ctx.fail("text-de-trunc-fabricated", "%s path on %r cut at %d: %s (result %s)" % (p, d, k, bad, o[:160]), [cases[j]], [o], full.get(d))
    ctx.count("text_de_truncation_cases", len(cases))
