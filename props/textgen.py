"""Token-level generators for the text readers: mostly well-formed token streams in many layouts,
plus a malformed stream over the significant alphabet."""

SIG = b'{}=<>!?"\\#[]@ \n\t\r;a1-\xef\xbb\xbf\x08\x0b\x0c.x'
WORDS = [b"a", b"foo", b"bar_baz", b"1444.11.11", b"-1.000", b"yes", b"no", b"b4", b"core", b"x" * 7, b"y" * 8, b"z" * 9,
         b"w" * 15, b"v" * 16, b"u" * 17, b"t" * 31, b"caf\xe9", b"\xc3\xa9t\xc3\xa9", b"k.1", b"A-B", b"0", b"-5", b"@var", b"@[1+2]",
         b"rgb", b"hsv", b"LIST", b"x\xa2y", b"\xc3\xa2ge", b"p\xfbq", b"\xbd\xbd", b"n\x8a\x89"]
OPS = [b"=", b"==", b"<", b"<=", b">", b">=", b"!=", b"?="]


def gen_quoted(rng):
    n = rng.choice([0, 1, 2, 3, 5, 7, 8, 9, 15, 16, 17, rng.randrange(0, 40)])
    out = bytearray()
    for _ in range(n):
        r = rng.random()
        if r < 0.12:
            out += b'\\"'
        elif r < 0.2:
            out += b"\\\\"
        elif r < 0.25:
            out += rng.choice([b"{", b"}", b"#", b"=", b" ", b"\n", b"[", b"]"])
        elif r < 0.3:
            out += bytes([rng.choice([0xe9, 0xfc, 0x80, 0xef, 0xa2, 0xdc, 0xfb, 0xfd, 0xa3, 0xbd, 0x8a, 0x89, 0xa0, 0xff])])
        else:
            out += bytes([rng.choice(b"abcdefghijklmnopqrstuvwxyz0123456789_")])
    return b'"' + bytes(out) + b'"'


def gen_ws(rng, must=False):
    r = rng.random()
    if r < 0.35:
        s = b" "
    elif r < 0.5:
        s = b"\n" + b"\t" * rng.randrange(0, 5)
    elif r < 0.6:
        s = b"\r\n"
    elif r < 0.7:
        s = b" " * rng.randrange(1, 12)
    elif r < 0.78:
        s = b" #" + bytes(rng.choice(b"abc {}\"=#") for _ in range(rng.randrange(0, 14))) + b"\n"
    elif r < 0.83:
        s = b";"
    elif r < 0.87:
        s = b"\n\t\t\t"
    elif r < 0.9:
        s = b"\n" * rng.randrange(1, 3) + b"\t" * rng.randrange(6, 14)   # deep indentation: >= 8 tab/newline bytes in a row
    else:
        s = b"" if not must else b" "
    return s


def gen_stream(rng, ntok=None, bom=None):
    """A mostly well-formed token stream (keys, operators, values, braces)."""
    ntok = ntok if ntok is not None else rng.randrange(1, 14)
    out = bytearray()
    if bom if bom is not None else rng.random() < 0.1:
        out += b"\xef\xbb\xbf"
    if rng.random() < 0.3:
        out += gen_ws(rng)
    depth = 0
    for _ in range(ntok):
        r = rng.random()
        if r < 0.55:
            key = rng.choice(WORDS) if rng.random() < 0.85 else gen_quoted(rng)
            out += key
            op = rng.choice(OPS) if rng.random() < 0.8 else b""
            if op:
                out += gen_ws(rng) if rng.random() < 0.4 else b""
                out += op
                out += gen_ws(rng) if rng.random() < 0.4 else b""
            else:
                out += gen_ws(rng, must=True)
            v = rng.random()
            if v < 0.5:
                out += rng.choice(WORDS)
            elif v < 0.8:
                out += gen_quoted(rng)
            else:
                out += b"{"
                depth += 1
        elif r < 0.7:
            out += b"{"
            depth += 1
        elif r < 0.85 and depth > 0:
            out += b"}"
            depth -= 1
        else:
            out += rng.choice(WORDS) if rng.random() < 0.6 else gen_quoted(rng)
        out += gen_ws(rng, must=True)
    while depth > 0 and rng.random() < 0.9:
        out += b"}" + gen_ws(rng)
        depth -= 1
    return bytes(out)


def gen_soup(rng, maxlen=24):
    n = rng.randrange(0, maxlen)
    return bytes(rng.choice(SIG) for _ in range(n))


def atoms(data):
    """Spans the streaming reader must hold at once (reference scan): comments incl. newline,
    quoted strings incl. quotes, unquoted runs, @[..] blocks.  Returns the maximal span length."""
    BOUND = set(b"\t\n\x0b\x0c\r !#<=>[]}{")
    i, n, best = 0, len(data), 3
    if data[:3] == b"\xef\xbb\xbf":
        i = 3
    while i < n:
        c = data[i]
        if c in b" \t\n\r;":
            i += 1
        elif c == 0x23:
            j = data.find(b"\n", i)
            j = n if j < 0 else j + 1
            best = max(best, j - i + 1); i = j
        elif c == 0x22:
            j = i + 1
            while j < n and data[j] != 0x22:
                j += 2 if data[j] == 0x5c else 1
            j = min(j + 1, n)
            best = max(best, j - i + 2); i = j
        elif c in b"{}":
            i += 1
        elif c in b"=<>!?":
            i += 2 if data[i + 1:i + 2] == b"=" else 1
        elif c == 0x40 and data[i + 1:i + 2] == b"[":
            j = data.find(b"]", i)
            j = n if j < 0 else j + 1
            best = max(best, j - i + 1); i = j
        else:
            j = i + 1
            while j < n and data[j] not in BOUND:
                j += 1
            best = max(best, j - i + 2); i = j
    return best


def compositions(n):
    """all compositions of n (as lists of part sizes), n <= 12"""
    if n == 0:
        yield []
        return
    for mask in range(1 << (n - 1)):
        parts, cur = [], 1
        for b in range(n - 1):
            if mask >> b & 1:
                parts.append(cur); cur = 1
            else:
                cur += 1
        parts.append(cur)
        yield parts


def schedules(rng, n, k):
    """k varied schedules for an input of length n"""
    out = [[1] * n, [n or 1]] + [[k] * (n // k + 1) for k in (2, 3, 7, 8, 9, 16, 17)]
    for _ in range(k):
        r = rng.random()
        if r < 0.3 and n > 1:
            c = rng.randrange(1, n); out.append([c, n])
        elif r < 0.6 and n > 2:
            c1 = rng.randrange(1, n - 1); c2 = rng.randrange(1, n - c1); out.append([c1, c2, n])
        else:
            s = []
            t = 0
            while t < n:
                x = rng.choice([1, 1, 2, 3, 5, 8, 9, 13, rng.randrange(1, 20)])
                s.append(x); t += x
            out.append(s)
    return out
