"""scalar-level correspondence streams shared by C02 / C04 / C10: the extracted Serde.text_scalar /
Serde.bin_scalar against the real deserializers on `x=<scalar>` documents."""
from props.dedoc import hx

SHAPES = ["str", "bool", "u8", "u16", "u32", "u64", "i8", "i16", "i32", "i64", "any", "ign"]
EDGE = [0, 1, 127, 128, 255, 256, 32767, 32768, 65535, 65536, 2 ** 31 - 1, 2 ** 31, 2 ** 32 - 1, 2 ** 32, 2 ** 53, 2 ** 63 - 1, 2 ** 63, 2 ** 64 - 1, 2 ** 64]


def text_cases(ctx, n):
    rng = ctx.rng
    raws = set()
    for v in EDGE:
        raws.update([str(v), "-" + str(v), "+" + str(v), "0" + str(v), str(v) + "0"])
    raws.update(["yes", "no", "Yes", "y", "yess", "abc", "a1", "1a", "-", "+", "1.5", "-1.000", "1e5", "0x10", "00", "-0", "1444.11.11", "18446744073709551616", "99999999999999999999"])
    for _ in range(n):
        k = rng.randrange(1, 22)
        raws.add("".join(rng.choice("0123456789") for _ in range(k)))
        raws.add(rng.choice(["-", "+", ""]) + "".join(rng.choice("0123456789") for _ in range(rng.randrange(1, 20))))
        raws.add("".join(rng.choice("0123456789abyesno-+.") for _ in range(rng.randrange(1, 8))))
    cases = []
    for r in sorted(raws):
        if not r or r[0] in "#=<>{}":
            continue
        for sh in SHAPES:
            cases.append("de.sc.text\t%s\t%s" % (sh, hx(r.encode())))
    return cases


def bin_cases(ctx, n):
    rng = ctx.rng
    toks = []
    vals = set(EDGE) | set(-v for v in EDGE) | set(rng.randrange(-2 ** 63, 2 ** 64) for _ in range(n))
    for v in sorted(vals):
        if -2 ** 31 <= v < 2 ** 31:
            toks.append(("I32", str(v)))
        if 0 <= v < 2 ** 32:
            toks.append(("U32", str(v)))
        if -2 ** 63 <= v < 2 ** 63:
            toks.append(("I64", str(v)))
        if 0 <= v < 2 ** 64:
            toks.append(("U64", str(v)))
    toks += [("BOOL", "0"), ("BOOL", "1"), ("STR", hx(b"abc")), ("STR", hx(b"12")), ("STR", hx(b"yes")), ("STR", "-")]
    return ["de.sc.bin\t%s\t%s\t%s" % (sh, t, a) for (t, a) in toks for sh in SHAPES]
