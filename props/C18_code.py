"""C18, proc-macro part (wave 5, w_derive).

The model of these streams is DeriveCode.visit_raw instantiated with DeriveCode.code_facts: the structural facts of
jomini_derive/src/lib.rs that tools/derive_facts.py (through tools/gen_tables.py) writes into Tables.v on every run.
Its argument is the RAW syntax of the harness structs (C18_table.Tables.raw_arg: every `#[jomini(..)]` list apart,
literal kinds, type path segments) -- scanning all lists, first alias, default before Option, ... are decided by the
generated facts inside the model, not by Python.

Streams
  code_model    the inputs of `attrs_model` (all 24 instances, text and binary), against the implementation
  code_intkeys  documents with unknown fields keyed by integer tokens (binary): the model says the struct fails
                because __FieldVisitor implements visit_str and visit_u16 only (fact dv_field_visitor_methods;
                theorem C18_code_int_key_rejected; known finding int-key-rejected)
"""
import struct
from props import dedoc as D
from props.dedoc import hx


def run(ctx, C18, A, mcases):
    T = A.tables()
    raws = {}

    def raw(inst):
        if inst not in raws:
            raws[inst] = T.raw_arg(inst)
        return raws[inst]

    nt = lambda c, i: i.startswith("(struct")
    cases = []
    for c in mcases:
        f = c.split("\t")
        if f[0] == "dw.text.m":
            f[0], f[5] = "dc.text.m", raw(f[3])
        else:
            f[0], f[7] = "dc.bin.m", raw(f[5])
        cases.append("\t".join(f))
    ctx.correspond("code_model", cases, nontrivial=nt)
    run_intkeys(ctx, C18, A, raw)


def run_intkeys(ctx, C18, A, raw):
    rng = ctx.rng
    cases = []
    insts = A.NEW + list(C18.STRUCTS)
    for _ in range(ctx.scale(260, 1200)):
        inst = rng.choice(insts)
        S = A.fields(inst)
        occ = [i for i, f in enumerate(S) for _ in range(1 if f["dup"] != "dup" else rng.choice([0, 1, 2]))]
        rng.shuffle(occ)
        doc, ids = A.make_doc(C18, rng, inst, occ, rng.choice([0, 0, 1]), 0.0)
        doc["ghost"] = []
        enc, fl, known, strat = A.env_of(rng, ids)
        known = set(ids)
        res = D.resolver_spec(ids, known, "map")
        M = A.mode("bin", flavor=fl, strategy=strat, known=known, ids=ids)
        if not A.exp_str(inst, doc, M).startswith("(struct"):
            continue
        kvs = A.model_kvs2(inst, doc, M)
        if kvs is None:
            continue
        kv = [] if kvs == "-" else kvs.split(";")
        parts = [D.render_bin({"t": "obj", "f": [fd], "ghost": []}, fl) for fd in doc["f"]]
        if len(kv) != len(parts):
            continue
        for _ in range(rng.choice([0, 1, 1, 1, 2])):
            n = rng.choice([0, 1, 5, 1444, -1, 2 ** 31 - 1])
            kt = rng.choice(["I32", "U32", "U64", "I64"])
            key = {"I32": D.tok(0x0c) + struct.pack("<i", n), "U32": D.tok(0x14) + struct.pack("<I", n % 2 ** 32),
                   "U64": D.tok(0x29c) + struct.pack("<Q", n % 2 ** 64), "I64": D.tok(0x317) + struct.pack("<q", n)}[kt]
            val = rng.choice([D.tok(0x0c) + struct.pack("<i", 7), D.bstr(b"x", True), D.OPEN + D.CLOSE,
                              D.OPEN + D.bstr(b"a", False) + D.EQ + D.tok(0x0e) + b"\x01" + D.CLOSE])
            pos = rng.randrange(len(parts) + 1)
            parts.insert(pos, key + D.EQ + val)
            kv.insert(pos, "N%s=o%s" % (kt.lower(), hx("(ign)")))
            ctx.count("code_intkey_" + kt)
        b = b"".join(parts)
        p = rng.choice(["tape", "slice", "reader:%d:%s" % (rng.choice([64, 32768]), rng.choice(["-", "1*"]))])
        cases.append("\t".join(["dc.bin.m", p, strat, res, fl, inst, hx(b), raw(inst), ";".join(kv) or "-"]))
    ctx.correspond("code_intkeys", cases, nontrivial=lambda c, i: i == "ERR:de" or i.startswith("(struct"))
