"""C04 Binary deserialization agrees across tape, on-demand and streaming paths."""
import struct
from props import dedoc as D
from props.dedoc import hx

RULE = ("logical documents rendered as binary token streams (keys as token ids / quoted / unquoted strings, ints as I32/U32/U64 "
        "(I64 in its own stream), BOOL, F32/F64 under two flavors, strings incl. non-ASCII, ids as values, dates as I32 or strings, "
        "rgb blocks, ghost {} objects, duplicate keys) x resolver {HashMap, BasicTokenResolver::from_text_lines; all / some / no ids "
        "known} x {Error, Stringify, Ignore} x shapes (full, partial, token-attribute structs, typed hints incl. wrong ones, any) x "
        "paths {deserialize_tape, deserialize_slice, deserialize_reader with buffers {longest token.., 64.., 32 KiB} and schedules "
        "{fill, 1 byte, chunks}, BinaryFlavor::deserialize_slice/reader}.  non-trivial = a value came out.  "
        # [spec_tie]
        "spec_tie: every generated (document, configuration, shape) of the streams paths / i64 / rgb-any is converted to a Coq BinDoc document "
        "(props/spectie.py; all of them are inside the BinDoc grammar, ghosts included) and the EXTRACTED Coq specification is run on it: "
        "BinDoc.enc_doc must reproduce dedoc.render_bin byte for byte, wf_doc / tape_ok_doc must hold, BinDoc.spec_value (at the entry points' "
        "fuel) must equal dedoc.expected and every path's value, flat_doc must equal the implementation's binary tape; plus hand-made pairs "
        "from corpus/C04/spec_tie.case (I32 keys, the three strategies, both flavors, rgb, genuine errors).  "
        # >>> a_c04
        "wave 4 (props/C04_shapes.py): methods = one target shape per Deserializer method (47 shapes incl. char, &str, bytes, (), unit / "
        "newtype / tuple structs, i128 / u128, typed-key maps, size-hint recording seq / map) x 18 token kinds with boundary / arbitrary "
        "payloads x position {value, array element, map key} x 3 strategies x resolver {knows / not / empty; map / lines} x 2 flavors x "
        "3 paths, reference value computed from the token + pairwise agreement (+ the walk models on the cells they know); root_refused; "
        "skip_exact = values of every kind skipped through 6 mechanisms at depth 0-3 with single / doubled ghosts and `=`-less container "
        "fields; size_hint; entry = from_tape / from_slice / from_reader + deserialize() twice, on_failed_resolve after construction, "
        "with_flavor, BinaryFlavor::deserializer(), & / Box flavors and resolvers, BinaryFlavor::deserialize_reader, on the main "
        "generator's documents and on configuration-sensitive ones"
        # <<< a_c04
        # >>> s_c04
        ".  wave 6 (props/C04_sizes.py): sizes = one size-like dimension at a time along 0 1 2 3 7 8 9 15 16 17 31 32 33 63 64 65 127 128 129 255 256 257 "
        "1023 1024 1025 4095 4096 4097 65533 65534 65535 65536 on an otherwise small document: length of a captured / skipped string (to 65535), key, "
        "element, field name; siblings, unknown fields, duplicates of one key, array elements, consecutive ghosts, depth of a skipped value (to 65536); depth "
        "of the target type (to 257); buffer size around the largest token x schedule x offset (one byte less must be BufferFull); resolver entries (to all "
        "65536 ids) and name lengths; every token id as a resolved / stringified / ignored key; unknown ids per strategy; target fields; rgb channel values; "
        "integer keys; string length x position of the non-ASCII byte; lines / zero padding / name lengths of a token file.  Expected values by construction; "
        "release and debug builds; documents up to 520 bytes also through the walk models")
        # <<< s_c04
TRUSTED = ["serde's primitive visitors (integer range checks, int->float casts) are the real ones and are mirrored in dedoc.expected_scalar_bin",
           "flavor arithmetic (eu4: i32/1000 in f32, Q49.15 rounded to 5 digits; raw: IEEE bits) is recomputed exactly in Python (fractions)",
           # [spec_tie]
           "spec_tie: dedoc.expected / dedoc.render_bin are no longer trusted on their own: on every run they are compared with the extracted "
           "BinDoc.spec_of / BinDoc.enc_doc (the definitions Props/C04_walk.v is stated over), and the implementation is compared with spec_of "
           "directly.  Still Python-only: the conversion dedoc document -> BinDoc (props/spectie.py to_bindoc; checked by the byte-for-byte "
           "encoding comparison), the generators, py_lines_resolver (BasicTokenResolver::from_text_lines), the constant expected value of the "
           "skip_wide_payloads stream.  The configuration (resolver table, strategy, flavor decoders, float casts) is the one of the walk models "
           "(ocaml/fam_bde.ml make_cfg)"]
ASSUMPTIONS = ["walk_model: the float decoders of the flavor and serde's `as` casts are parameters of the Coq model, implemented natively in ocaml/fam_bde.ml",
               "container shapes only on containers of the same kind, `any` only on scalars and rgb; root target is a struct or map",
               "a ghost {} is never the first entry of a document/container: the tape parser deliberately rejects/reads it as an array there while "
               "the other two paths skip it (reported as an observation, not generated)",
               "I64 tokens make the tape parser fail (C03 finding B); they are generated only in the stream `i64` whose failures carry key B-tape-i64",
               # [spec_tie]
               "spec_tie scope: on these streams BinDoc.spec_value and dedoc.expected have the same scope (the generator only keeps shapes that "
               "dedoc.expected fits); an UNFIT answer of the Coq specification is reported as a disagreement.  The empty `{ }` is the empty array "
               "in BinDoc (same bytes); a map / struct target on it is inside BinDoc.spec_value's scope (unlike the text side)"]

PATHS = ["tape", "slice", "fslice"]


def reader_variants(rng, doc, fl):
    mt = max(32, D.max_token_len(doc, D.flavor_enc(fl)) + 4)      # an rgb block (30 bytes) is one token
    chunks = ",".join(str(rng.choice([1, 1, 2, 3, 5, 7, 8, 9, 16, 17, 33])) for _ in range(rng.randrange(2, 6))) + "*"
    allv = ["reader:32768:-", "reader:%d:-" % mt, "reader:%d:1*" % (mt + 1), "reader:%d:%s" % (max(64, mt), chunks),
            "reader:%d:%s" % (mt + rng.randrange(0, 9), chunks), "reader:32768:1*"]
    rng.shuffle(allv)
    return allv[:2]


def gen_cases(ctx, n, i64, rgb_any, tag):
    rng = ctx.rng
    cases, meta = [], []
    for _ in range(n):
        doc = D.gen_doc(rng, ops=False, i64=i64)
        fl = rng.choice(["eu4", "raw"])
        ids = doc["ids"]
        kk = rng.choice(["all", "all", "all", "some", "none"])
        known = set(ids) if kk == "all" else (set() if kk == "none" else set(x for x in ids if rng.random() < 0.6))
        strat = rng.choice(["error", "stringify", "ignore"]) if kk == "all" else rng.choice(["error", "stringify", "stringify", "ignore", "ignore"])
        M = D.Mode("bin", flavor=fl, strategy=strat, known=known, ids=ids)
        sh = exp = None
        for _k in range(20):
            cand = D.gen_shape(rng, [doc], dict(mode="bin", full=rng.random() < 0.3, mishint=0.03, prop=False, any=True, root=True, rgb_any=rgb_any))
            if rng.random() < 0.35:
                cand = D.to_tstruct(cand, ids, rng)
            e = D.expected(cand, doc, M)
            if e != "ERR:unfit":
                sh, exp = cand, e
                break
        if sh is None:
            continue
        b = D.render_bin(doc, fl)
        res = D.resolver_spec(ids, known, rng.choice(["map", "lines"]))
        ctx.count(tag + "_docs")
        ctx.count("resolver_" + kk)
        ctx.count("strategy_" + strat)
        ctx.count("expect_" + (exp[:8] if exp.startswith("ERR") else "value"))
        g = len(meta)
        for p in PATHS + reader_variants(rng, doc, fl):
            st = strat
            if p == "fslice":
                if strat != "ignore":
                    continue          # BinaryFlavor::deserialize_slice uses the default strategy (Ignore)
            cases.append("\t".join(["de.bin", p, st, res, fl, D.shape_str(sh), hx(b)]))
            meta.append((exp, g, p, doc, sh))
    return cases, meta


def walk_extra_cases(ctx):
    """cases the document generator does not produce: shapes that do NOT fit (every path must still be
    mirrored by its model, error class included), truncated / mutated byte strings, mixed containers"""
    rng = ctx.rng
    out = []
    n = ctx.scale(600, 5000)
    shapes_scalar = ["str", "bool", "u8", "u16", "u32", "u64", "i8", "i16", "i32", "i64", "f32", "f64", "date", "dh", "any", "ign",
                     "opt(str)", "opt(any)", "seq(any)", "seq(str)", "seq(u16)", "map(any)", "map(str)", "tup(any,any)", "tup(str,seq(u8))",
                     "tup(any)", "tup(any,any,any)", "enum(%s,%s)" % (hx("aaa"), hx("rgb")), "seq(ign)", "map(ign)", "seq(opt(any))"]
    for _ in range(n):
        doc = D.gen_doc(rng, ops=False, i64=rng.random() < 0.2)
        fl = rng.choice(["eu4", "raw"])
        ids = doc["ids"]
        known = set(x for x in ids if rng.random() < 0.7)
        strat = rng.choice(["error", "stringify", "ignore"])
        b = D.render_bin(doc, fl)
        r = rng.random()
        if r < 0.25 and len(b) > 2:
            b = b[:rng.randrange(1, len(b))]                        # truncated
        elif r < 0.45 and len(b) > 2:
            i = rng.randrange(len(b))
            b = b[:i] + bytes([rng.choice([0, 1, 3, 4, 0x0c, 0x0e, 0x0f, 0x14, 0x17, 0x43, 2, rng.randrange(256)])]) + b[i + 1:]
        elif r < 0.55 and len(b) > 4:
            i = rng.randrange(0, len(b), 2)
            b = b[:i] + rng.choice([D.OPEN, D.CLOSE, D.EQ, D.OPEN + D.CLOSE, D.tok(0x243), D.tok(0x0e) + b"\x01"]) + b[i:]
        # a root struct whose field shapes are drawn at random: mostly unfit
        keys = []
        for f in doc["f"]:
            if f["k"] not in keys:
                keys.append(f["k"])
        rng.shuffle(keys)
        fields = []
        for k in keys[:rng.randrange(0, 5)]:
            mode = rng.choice(["", "", "*", "!"])
            fields.append(hx(k) + mode + ":" + rng.choice(shapes_scalar))
        if rng.random() < 0.3:
            shape = "map(%s)" % rng.choice(shapes_scalar)
        else:
            shape = "struct(%s)" % ",".join(fields)
        res = D.resolver_spec(ids, known, "map")
        for p in ("tape", "slice", "reader:%d:%s" % (rng.choice([32, 40, 64, 32768]), rng.choice(["-", "1*", "3,5*", "2,7,1"]))):
            out.append("\t".join(["de.model.bin", p, strat, res, fl, shape, hx(b)]))
        ctx.count("walk_extra_docs")
    # fitting shapes on truncated / damaged renderings: end-of-input and bad tokens met in every nested context
    for _ in range(ctx.scale(300, 3000)):
        doc = D.gen_doc(rng, ops=False, i64=False)
        fl = rng.choice(["eu4", "raw"])
        ids = doc["ids"]
        M = D.Mode("bin", flavor=fl, strategy="ignore", known=set(ids), ids=ids)
        sh = None
        for _k in range(10):
            cand = D.gen_shape(rng, [doc], dict(mode="bin", full=rng.random() < 0.7, mishint=0.0, prop=False, any=True, root=True, rgb_any=True))
            if D.expected(cand, doc, M) != "ERR:unfit":
                sh = cand
                break
        if sh is None:
            continue
        b = D.render_bin(doc, fl)
        res = D.resolver_spec(ids, set(ids), "map")
        variants = []
        for _j in range(4):
            if len(b) > 2:
                variants.append(b[:rng.randrange(1, len(b))])
        if len(b) > 4:
            i = rng.randrange(0, len(b), 2)
            variants.append(b[:i] + rng.choice([D.OPEN, D.CLOSE, D.EQ, D.CLOSE + D.CLOSE]) + b[i:])
            variants.append(b[:i] + b[i + 2:])
        # a ghost / empty container whose `}` is replaced by something else: what the key loops swallow after an Open
        g = b.find(D.OPEN + D.CLOSE)
        if g >= 0 and g % 2 == 0:
            for repl in (D.tok(0x0c) + struct.pack("<i", 5), D.tok(0x0e) + b"\x01", D.bstr(b"zz", True), D.tok(0x1234), D.EQ):
                variants.append(b[:g] + D.OPEN + repl + b[g + 4:])
        for v in variants:
            for p in ("tape", "slice", "reader:%d:%s" % (rng.choice([64, 32768]), rng.choice(["-", "1*", "4,9*"]))):
                out.append("\t".join(["de.model.bin", p, "ignore", res, fl, D.shape_str(sh), hx(v)]))
        ctx.count("walk_damaged_docs")
    return out


# >>> b_res: resolver-lines -- specification and generators (model: coq/theories/Resolver.v, Props/C04_resolver.v)
_RES_WS = b" \t\n\r\x0c"            # u8::is_ascii_whitespace (no vertical tab)
_RES_HEX = b"0123456789abcdefABCDEF"


def py_lines_resolver(raw):
    """independent spec of BasicTokenResolver::from_text_lines on the bytes of the file: lines end at LF;
    a line that is not UTF-8 is an io error; `<id> <name>`: id = text before the first space minus every
    leading "0x", u16 in hex with an optional '+'; name = rest minus trailing ASCII whitespace; later lines win.
    Returns a dict, "io" or "syntax"."""
    out = {}
    pos = 0
    while pos < len(raw):
        j = raw.find(b"\n", pos)
        end = len(raw) if j < 0 else j + 1
        line, pos = raw[pos:end], end
        try:
            line.decode("utf-8")
        except UnicodeDecodeError:
            return "io"
        sp = line.find(b" ")
        if sp < 0:
            return "syntax"
        num, text = line[:sp], line[sp + 1:]
        while num.startswith(b"0x"):
            num = num[2:]
        if len(num) > 1 and num.startswith(b"+"):
            num = num[1:]
        if not num or any(c not in _RES_HEX for c in num):
            return "syntax"
        z = int(num.decode("ascii"), 16)
        if z > 0xffff:
            return "syntax"
        out[z] = text.rstrip(_RES_WS)
    return out


def resolver_expect(spec, ask):
    if isinstance(spec, str):
        return "ERR:" + spec
    return "%d %s" % (0 if spec else 1, ",".join(hx(spec[i]) if i in spec else "none" for i in ask))


RES_FIXED = [b"", b"\n", b" \n", b" ", b"1 a", b"1 a\n", b"1 a\r\n", b"1  a\n", b"1\ta\n", b"1 \ta\n", b"0x0x12 a\n", b"0x0x a\n",
             b"+1f a\n", b"-1 a\n", b"+ a\n", b"- a\n", b"++1 a\n", b"+-1 a\n", b"0x+1 a\n", b"+0x1 a\n", b"1_0 a\n", b"10000 a\n",
             b"0ffff a\n", b"0xFFFF a\n", b"00000001 a\n", b"000010000 a\n", b"fffff a\n", b"0X1 a\n", b"00x1 a\n", b"0xx1 a\n", b"x1 a\n",
             b"0x a\n", b"1 a\n\n", b"\n1 a\n", b"1 a\n1 b\n", b"1 a\n01 b\n0x0x1 c", b"1 a\n2 b\n1\n", b"1 a\n2 b\n1 \n",
             "1 naïve\n".encode(), "1 日本\n".encode(), "\uff11 a\n".encode(), "1\u00a0a\n".encode(), "1 a\u00a0\n".encode(),
             "1 a\u2003\n".encode(), b"1 \xff\n", b"\xff 1\n", b"1 a\n\xff", b"1 a\n2 \xc3", b"zz a\n1 \xff\n", b"1 \xff\nzz a\n",
             b"1 \xed\xa0\x80\n", b"1 \xc0\xaf\n", b"1 \xf4\x90\x80\x80\n", b"1 \xe2\x82\n", b"1 \xe2\n\x82\xac\n", b"1 a \t\r\n", b"1 a\x0b\n",
             b"1 a\x0c\n", b"1 a\x1f\n", b"1 a\rb\n", b"1 a\r2 b\n", b"ffff a\nFFFF b\n", b"fFfF a\n", b"1 2 3\n", b"1 0x2\n", b"0 a\n",
             b"0x0 \n", b"0x00 ", b"0x0", b"12", b"1 a\n2", b"1 a\n2 ", b"a b\n", b"g b\n", b"/ b\n", b": b\n", b"@ b\n", b"G b\n", b"` b\n",
             b"9 b\na b\nf b\nA b\nF b\n"]


def resolver_cases(ctx):
    """files of token lines: (case line, expected output of the specification)"""
    rng = ctx.rng
    names = [b"abc", b"my_test_token", b"a b", b"x\t", b"", "naïve".encode(), b"q=1", b" lead", b"tr \t ", b"v\x0b", b"f\x0c",
             "日本".encode(), "x\u00a0".encode(), b"a\rb", b"0x10 y", b"\t", b"\xf0\x9f\x98\x80"]
    bad_utf8 = [b"\xff", b"\xc3", b"\xe2\x82", b"\xed\xa0\x80", b"\xc0\xaf", b"\xf4\x90\x80\x80", b"\x80", b"\xf8\x88\x80\x80\x80"]
    good_forms = ["0x%04x", "0x%04x", "0x%x", "%04x", "0x%04X", "0x0x%x", "%x", "%X", "+%x", "0x+%04x", "%08x", "0x0x0x%04x"]
    odd_forms = ["0x%05x", "0X%x", "00x%x", "-%x", "%x_", "0x%xg", "+0x%x", "++%x", "%x\t", "\t%x", "0xx%x", "x%x", "%x,", "#%x"]
    odd_ids = ["zz", "", "0x", "-1", "+", "-", "1 2", "0x0x", "\uff11\uff12", "10000", "0x10000", "fffff", "1\u00a0"]
    out = []
    for _ in range(ctx.scale(600, 6000)):
        dirty = rng.random() < 0.5
        pool = [0, 1, 0xffff, rng.randrange(0, 0x10000), rng.randrange(0, 0x10000), rng.randrange(0, 0x100)]
        lines, ids = [], []
        for _j in range(rng.randrange(0, 6)):
            i = rng.choice(pool)
            form = (rng.choice(good_forms) % i).encode()
            name = rng.choice(names)
            sep = b" "
            nl = rng.choice([b"\n", b"\n", b"\n", b"\r\n", b" \n", b"\t\r\n"])
            if dirty:
                r = rng.random()
                if r < 0.05:
                    form = (rng.choice(odd_forms) % i).encode()
                elif r < 0.09:
                    form = rng.choice(odd_ids).encode()
                elif r < 0.12:
                    form = ("%x" % rng.choice([0x10000, 0x10001, 0xfffff, 0x12345, 0x100000000])).encode()
                elif r < 0.15:
                    sep = rng.choice([b"", b"\t", b"  ", "\u00a0".encode(), "\u3000".encode()])
                elif r < 0.18:
                    nl = rng.choice([b"\n\n", b"\r", b"", b"\n \n"])
                elif r < 0.22:
                    bad = rng.choice(bad_utf8)
                    k = rng.randrange(3)
                    if k == 0:
                        name = name[:rng.randrange(len(name) + 1)] + bad
                    elif k == 1:
                        form = form + bad
                    else:
                        name = bad + name
            lines.append(form + sep + name + nl)
            ids.append(i)
        if lines and rng.random() < 0.3:
            lines[-1] = lines[-1].rstrip(b"\r\n")
        raw = b"".join(lines)
        ask = sorted(set(ids + [0x1234]))
        out.append((raw, ask))
    for raw in RES_FIXED:
        out.append((raw, [0, 1, 2, 9, 10, 15, 0x12, 0x1f, 0xffff, 0x1234]))
    cases, exps = [], []
    for raw, ask in out:
        spec = py_lines_resolver(raw)
        cases.append("de.resolver\trawlines:%s\t%s" % (hx(raw), ",".join("%04x" % i for i in ask)))
        exps.append(resolver_expect(spec, ask))
        ctx.count("resolver_file_" + (spec if isinstance(spec, str) else ("empty" if not spec else "ok")))
    # the two other ways the harness builds a resolver: a HashMap (`map:`) and "0x{:04x} {}\n" lines (`lines:`,
    # Resolver.render_std on the model side); names are valid UTF-8 but may hold LF / trailing whitespace
    pair_names = [b"abc", b"a b", b"", b"x ", b"x\n", b"a\nb", b"a\n2 b", "naïve".encode(), b" lead", b"t\t", b"v\x0b"]
    for _ in range(ctx.scale(150, 1500)):
        pairs = [(rng.choice([0, 1, 2, 0xffff, rng.randrange(0x10000)]), rng.choice(pair_names)) for _j in range(rng.randrange(0, 5))]
        ask = sorted(set([k for k, _v in pairs] + [2, 0x1234]))
        body = ",".join("%04x=%s" % (k, hx(v)) for k, v in pairs) or "-"
        kind = rng.choice(["map", "lines"])
        if kind == "map":
            spec = dict(pairs)
        else:
            spec = py_lines_resolver(b"".join(b"0x%04x %s\n" % (k, v) for k, v in pairs))
        cases.append("de.resolver\t%s:%s\t%s" % (kind, body, ",".join("%04x" % i for i in ask)))
        exps.append(resolver_expect(spec, ask))
        ctx.count("resolver_spec_" + kind)
    return cases, exps
# <<< b_res: resolver-lines


def to_model(cases):
    """the same case for the extracted walk models (kind de.model.bin; the harness runs it as de.bin)"""
    return ["de.model.bin" + c[len("de.bin"):] for c in cases if c.startswith("de.bin\t")]


def run(ctx):
    rng = ctx.rng
    nt = lambda c, i: i.startswith("(")
    walk = []
    cases, meta = gen_cases(ctx, ctx.scale(4000, 30000), i64=False, rgb_any=False, tag="main")
    walk += to_model(cases)
    impl, _ = ctx.correspond("paths", cases, nontrivial=nt, model=False)
    base = len(impl) - len(cases)
    for k, (exp, g, p, doc, sh) in enumerate(meta):
        o = impl[base + k]
        if o != exp:
            ctx.fail("value-" + p.split(":")[0], "%s path returns %s, the encoded values are %s" % (p, o[:200], exp[:200]), [cases[k]], [o], exp)
    # ---- [spec_tie] BEGIN: the Coq specification (BinDoc.spec_value at the entry points' fuel, BinDoc.enc_doc, flat_doc,
    # wf_doc, tape_ok_doc -- what Props/C04_walk.v is stated over) extracted and run on the documents, configurations and
    # shapes generated above; see props/spectie.py.  (a) D.render_bin = enc_doc of the converted document, byte for
    # byte; (b) D.expected = spec_value; (c) every path's value above = spec_value; plus: the implementation's binary
    # tape of the rendering = flat_doc.
    from props import spectie
    spectie.run_bin(ctx, cases, meta, impl, base, ctx.scale(4000, 30000), corpus=True)
    # ---- [spec_tie] END

    # I64 tokens (C03 finding B shows through the tape path)
    cases, meta = gen_cases(ctx, ctx.scale(250, 2000), i64=True, rgb_any=False, tag="i64")
    walk += to_model(cases)
    impl, _ = ctx.correspond("i64", cases, nontrivial=nt, model=False)
    base = len(impl) - len(cases)
    for k, (exp, g, p, doc, sh) in enumerate(meta):
        o = impl[base + k]
        if o != exp:
            has64 = D.has(doc, lambda x: x["t"] == "int" and x["b"] == "I64")
            if p == "tape" and has64:
                ctx.count("known_B")
                if ctx.dist["known_B"] <= 3:
                    ctx.fail("B-tape-i64", "tape path fails on a document with an I64 token: %s, other paths / encoded values: %s" % (o[:80], exp[:80]), [cases[k]], [o], exp)
            else:
                ctx.fail("value-" + p.split(":")[0], "%s path returns %s, the encoded values are %s" % (p, o[:200], exp[:200]), [cases[k]], [o], exp)
    spectie.run_bin(ctx, cases, meta, impl, base, ctx.scale(250, 2000), tag="tie_i64")          # [spec_tie] the I64 documents

    # rgb into a dynamically shaped target (finding C: the on-demand path has no RGB arm in deserialize_any)
    cases, meta = gen_cases(ctx, ctx.scale(250, 2000), i64=False, rgb_any=True, tag="rgbany")
    walk += to_model(cases)
    impl, _ = ctx.correspond("rgb-any", cases, nontrivial=nt, model=False)
    base = len(impl) - len(cases)
    for k, (exp, g, p, doc, sh) in enumerate(meta):
        o = impl[base + k]
        if o != exp:
            if p in ("slice", "fslice") and D.captures_header(sh, doc) and "any" in D.shape_str(sh):
                ctx.count("known_C")
                if ctx.dist["known_C"] <= 3:
                    ctx.fail("C-ondemand-rgb-any", "on-demand path on rgb into deserialize_any: %s, tape/stream and the encoded value: %s" % (o[:80], exp[:80]), [cases[k]], [o], exp)
            else:
                ctx.fail("value-" + p.split(":")[0], "%s path returns %s, the encoded values are %s" % (p, o[:200], exp[:200]), [cases[k]], [o], exp)
    spectie.run_bin(ctx, cases, meta, impl, base, ctx.scale(250, 2000), tag="tie_rgbany")       # [spec_tie] rgb into `any` targets

    # fixed replay of C
    col = D.tok(0x1000) + D.EQ + D.tok(0x243) + D.OPEN + b"".join(D.tok(0x14) + struct.pack("<I", c) for c in (110, 27, 27)) + D.CLOSE
    fc = ["\t".join(["de.bin", p, "error", "map:1000=" + hx("color"), "eu4", "struct(%s:any)" % hx("color"), hx(col)]) for p in ("tape", "slice", "reader:64:-")]
    walk += to_model(fc)
    impl, _ = ctx.correspond("known-deviations", fc, nontrivial=nt, model=False)
    a, b, c = impl[-3:]
    if not (a == b == c):
        ctx.fail("C-ondemand-rgb-any", "color=rgb{110 27 27} into deserialize_any: tape %s, on-demand %s, stream %s" % (a, b, c), fc, [a, b, c], a)

    # findings N and O (found while modelling the three walks; Props/C04_walk.v: C04_u16_on_id_value_refuted,
    # C04_rgb_in_array_refuted): fixed replays, each must keep showing the deviation it documents and nothing else
    xk = D.bstr(b"x", True) + D.EQ
    n_doc = xk + D.tok(0x1234)
    rgb = D.tok(0x243) + D.OPEN + b"".join(D.tok(0x14) + struct.pack("<I", c) for c in (1, 2, 3)) + D.CLOSE
    o_doc = xk + D.OPEN + rgb + D.CLOSE
    nc = ["\t".join(["de.bin", p, "error", "map:1234=" + hx("abc"), "eu4", "struct(%s:u16)" % hx("x"), hx(n_doc)]) for p in ("tape", "slice", "reader:64:-")]
    oc = ["\t".join(["de.bin", p, "stringify", "map:-", "eu4", "struct(%s:seq(any))" % hx("x"), hx(o_doc)]) for p in ("tape", "slice", "reader:64:1*")]
    walk += to_model(nc + oc)
    impl, _ = ctx.correspond("known-deviations", nc + oc, nontrivial=nt, model=False)
    a, b, c = impl[-6:-3]
    if not (a == b == c):
        ctx.fail("N-tape-u16-id-value", "x=<token id 0x1234> into a u16 field: tape %s, on-demand %s, stream %s" % (a, b, c), nc, [a, b, c], b)
    a, b, c = impl[-3:]
    if not (a == b == c):
        ctx.fail("O-tape-rgb-in-array", "x={ rgb{1 2 3} } into seq(any): tape %s, on-demand %s, stream %s" % (a[:90], b[:90], c[:90]), oc, [a, b, c], b)

    # >>> b_res: resolver-lines -- token text-line parser of BasicTokenResolver: the extracted Resolver.from_text_lines /
    # resolve / is_empty against the real code, and the real code against the Python specification
    rcases, rexp = resolver_cases(ctx)
    impl, _ = ctx.correspond("resolver-lines", rcases, nontrivial=lambda c, i: not i.startswith("ERR"))
    base = len(impl) - len(rcases)
    for k, e in enumerate(rexp):
        if impl[base + k] != e:
            ctx.fail("resolver-lines", "from_text_lines answers %s, the lines say %s" % (impl[base + k], e), [rcases[k]], [impl[base + k]], e)
    # <<< b_res: resolver-lines

    # the three deserializer walks inside the Coq model (BinDeTape / BinDeOndemand / BinDeReader over
    # SerdeShape.walk, run from the bytes: tape parser, lexer and streaming reader are the C03/C08 models)
    walk += walk_extra_cases(ctx)
    ctx.count("walk_model_cases", len(walk))
    ctx.correspond("walk_model", walk, nontrivial=nt)

    # unknown fields are skipped in their entirety, whatever their payload bytes look like: wide payloads (i64, u64,
    # f64, long strings, rgb) whose inner 16-bit words equal structural / type ids, inside a skipped container
    ID = lambda x: struct.pack("<H", x)
    words = [0x0003, 0x0004, 0x0001, 0x000c, 0x000f, 0x0017, 0x0014, 0x029c, 0x0317, 0x0167, 0x0243, 0x000e, 0x000d, 0xffff, 0x0000]
    pcases, pmeta = [], []
    known = D.bstr(b"known", False) + D.EQ + D.tok(0x0c) + struct.pack("<i", 1)
    for _ in range(ctx.scale(120, 1200)):
        w = [rng.choice(words) for _ in range(4)]
        payload8 = b"".join(ID(x) for x in w)
        kind = rng.choice(["i64", "u64", "f64", "str", "f32", "u32"])
        if kind in ("i64", "u64", "f64"):
            val = D.tok({"i64": 0x317, "u64": 0x29c, "f64": 0x167}[kind]) + payload8
        elif kind in ("f32", "u32"):
            val = D.tok({"f32": 0x0d, "u32": 0x14}[kind]) + payload8[:4]
        else:
            val = D.tok(0x0f) + ID(8) + payload8
        inner = rng.choice([val + D.EQ + D.tok(0x0c) + struct.pack("<i", 99),                      # wide token as a key
                            D.tok(0x2d84) + D.EQ + val,                                             # as a value
                            val + val,                                                              # array elements
                            D.tok(0x2d85) + D.EQ + D.OPEN + val + D.CLOSE])                         # nested
        body = D.bstr(b"unknown", False) + D.EQ + D.OPEN + inner + D.CLOSE + known
        exp = "(struct (%s (i 1)))" % hx("known")
        for path in ("tape", "slice", "reader:64:-", "reader:16:1*", "reader:23:3*"):
            pcases.append("\t".join(["de.bin", path, "ignore", "map:", "raw", "struct(%s:i32)" % hx("known"), hx(body)])); pmeta.append((path, body, exp))
    impl, _ = ctx.correspond("skip_wide_payloads", pcases, nontrivial=nt, model=False)
    base = len(impl) - len(pcases)
    walk2 = to_model(pcases)
    ctx.correspond("walk_model_wide", walk2, nontrivial=nt)
    for k, (path, body, exp) in enumerate(pmeta):
        o = impl[base + k]
        if o != exp and not (path.startswith("reader:16") and o.startswith("ERR")):
            ctx.fail("skip-wide-" + path.split(":")[0], "%s path on a document whose skipped container holds wide payloads returns %s, expected %s (bytes %s)" % (path, o[:120], exp, body.hex()), [pcases[k]], [o], exp)

    # strings at the u16 length boundary inside a skipped container (implementation only: the extracted walks are quadratic in the length)
    lcases, lmeta = [], []
    for L in (65533, 65534, 65535):
        for fill in (b"\x00\x04\x00", b"\x04\x00", b"\x03\x00\x04\x00\x04"):
            pay = (fill * (L // len(fill) + 1))[:L]
            val = D.tok(rng.choice([0x0f, 0x17])) + ID(L) + pay
            body = D.bstr(b"unknown", False) + D.EQ + D.OPEN + D.tok(0x0c) + struct.pack("<i", 3) + val + D.tok(0x0c) + struct.pack("<i", 4) + D.CLOSE + known
            for path in ("tape", "slice", "reader:65600:-", "reader:65600:4096,1,4095*"):
                lcases.append("\t".join(["de.bin", path, "ignore", "map:", "raw", "struct(%s:i32)" % hx("known"), hx(body)])); lmeta.append((path, L))
    for prof in ("release", "debug"):
        impl, _ = ctx.correspond("skip_long_strings_" + prof, lcases, nontrivial=nt, model=False, profile=prof)
        base = len(impl) - len(lcases)
        exp = "(struct (%s (i 1)))" % hx("known")
        for k, (path, L) in enumerate(lmeta):
            o = impl[base + k]
            if o != exp:
                ctx.fail("skip-wide-" + path.split(":")[0], "%s build, %s path: a skipped container that holds a %d-byte string: %s, expected %s" % (prof, path, L, o[:120], exp), [lcases[k][:300]], [o[:200]], exp)

    # the u16 key hint on EVERY token id: all ids below 0x400 (the lexeme constants sit there, with gaps between them that are
    # ordinary token ids) and a sample of the rest, as a map key into a u16-keyed map, three paths x three strategies, no resolver
    LEX = {0x0001, 0x0003, 0x0004, 0x000c, 0x000d, 0x000e, 0x000f, 0x0014, 0x0017, 0x0167, 0x0243, 0x029c, 0x0317}
    ucases, umeta = [], []
    ids = [i for i in range(0x400) if i not in LEX] + [rng.randrange(0x400, 0x10000) for _ in range(ctx.scale(40, 2000))] + [0xffff, 0x8000]
    for i in ids:
        body = struct.pack("<H", i) + D.EQ + D.tok(0x0c) + struct.pack("<i", 1)
        for path in ("tape", "slice", "reader:64:-"):
            st = rng.choice(["error", "ignore", "stringify"])
            ucases.append("\t".join(["de.bin", path, st, "map:", "raw", "kmap(u16,i32)", hx(body)])); umeta.append((i, path, st))
    impl, _ = ctx.correspond("u16_key_all_ids", ucases, nontrivial=nt, model=False)
    base = len(impl) - len(ucases)
    for k, (i, path, st) in enumerate(umeta):
        exp = "(amap ((u %d) (i 1)))" % i
        if impl[base + k] != exp:
            ctx.fail("u16-key-" + path.split(":")[0], "%s path, strategy %s: the token id 0x%04x as a key of a u16-keyed map gives %s, expected %s" % (path, st, i, impl[base + k][:100], exp), [ucases[k]], [impl[base + k]], exp)

    # zero-copy targets: a field / map key / sequence element that insists on BORROWING its string (&'de str) must get the
    # resolver's name for a resolved token id on the tape path exactly as on the on-demand path (and the document's own bytes
    # for a string token); the stream path cannot lend and is not asked
    bcases, bmeta = [], []
    NAME = b"general"
    for tok in (0x2d82, 0x0b, 0x10, 0xffff, 0x8000, 0x0100):
        res = "map:%04x=%s" % (tok, NAME.hex())
        idb = struct.pack("<H", tok)
        docs = [("struct(%s:bref)" % hx("k"), D.bstr(b"k", False) + D.EQ + idb, "(struct (%s (str %s)))" % (hx("k"), NAME.hex())),
                ("kmap(bref,i32)", idb + D.EQ + D.tok(0x0c) + struct.pack("<i", 5), "(amap ((str %s) (i 5)))" % NAME.hex()),
                ("struct(%s:seq(bref))" % hx("k"), D.bstr(b"k", False) + D.EQ + D.OPEN + idb + idb + D.CLOSE, "(struct (%s (seq (str %s) (str %s))))" % (hx("k"), NAME.hex(), NAME.hex())),
                ("struct(%s:bref)" % hx("k"), D.bstr(b"k", False) + D.EQ + D.bstr(b"plain", True), "(struct (%s (str %s)))" % (hx("k"), b"plain".hex()))]
        for sh, body, exp in docs:
            for path in ("tape", "slice"):
                for st in ("error", "ignore", "stringify"):
                    bcases.append("\t".join(["de.bin", path, st, res, "raw", sh, hx(body)])); bmeta.append((path, sh, exp))
    impl, _ = ctx.correspond("borrowed_targets", bcases, nontrivial=nt, model=False)
    base = len(impl) - len(bcases)
    for k, (path, sh, exp) in enumerate(bmeta):
        if impl[base + k] != exp:
            ctx.fail("borrowed-" + path, "%s path, borrowing target %s: %s, expected %s" % (path, sh, impl[base + k][:120], exp), [bcases[k]], [impl[base + k]], exp)

    # >>> a_c04 (wave 4): every Deserializer method x token kind x position x path, exact skipping at depth, size hints,
    # the remaining public entry points (props/C04_shapes.py; audit/C04.md)
    from props import C04_shapes
    C04_shapes.run(ctx, nt, gen_cases)
    # <<< a_c04

    # >>> s_c04 (wave 6): size ladders -- every size-like dimension of the documents, configurations and targets, one at a time, to the
    # boundaries of the format (strings of 65535 bytes captured on every path, 65536 siblings / elements / ghosts / levels of a skipped
    # value, targets nested 257 deep, every buffer size around the largest token, resolvers of 65536 entries, every token id), expected
    # values by construction; release + debug; the small ones through the walk models (props/C04_sizes.py; audit/C04.md "Size dimensions")
    from props import C04_sizes
    C04_sizes.run(ctx, nt)
    # <<< s_c04

    # >>> w_fwd (wave 5): the method tables of the seven binary Deserializer impls (Tables.de_tables, generated from
    # src/binary/de.rs) against the real deserializers: every method x token kind x strategy x position x path through a
    # recording visitor; the extracted DeMethods.predict must observe the same visits (props/demeth.py, Props/C04_methods.v)
    from props import demeth
    demeth.run_bin(ctx)
    # <<< w_fwd

    # scalar level: extracted Serde.bin_scalar against the real on-demand path
    from props import descalar
    ctx.correspond("scalar-tokens", descalar.bin_cases(ctx, ctx.scale(150, 1500)), nontrivial=nt)


def search(ctx):
    import random
    ctx.rng = random.Random(ctx.seed + 1)
    old = ctx.tier
    ctx.tier = "thorough"
    try:
        run(ctx)
    finally:
        ctx.tier = old


CLAIM = {
    "text": "the three binary deserializers and the BinaryFlavor convenience entry points are run through a runtime-shape serde interpreter on generated binary documents x resolvers x strategies x flavors x shapes x buffer sizes/schedules; each result is compared with an independently computed expected value (hence pairwise equal); Coq: see coverage.theorems",
    "note": "Props/C04_resolver.v: BasicTokenResolver::from_text_lines is modelled byte for byte (Resolver.v: read_line splitting, UTF-8 check, split at the first space, repeated 0x trimming, from_str_radix(16) into u16 with overflow, trim_ascii_end, last line wins) with render/load round-trip, last-wins, rejection, totality and line-partition theorems, and the loaded table is the c_resolve of the walk models (C04_resolver_is_walk_resolver); stream resolver-lines is a real correspondence plus a byte-level oracle. [spec_tie] The specification of the walk theorems (BinDoc.spec_value / enc_doc / flat_doc / wf_doc / tape_ok_doc) is extracted and run on the generated documents: dedoc.render_bin and dedoc.expected are checked against it and every path's value is compared with spec_value directly (stream spec_tie, keys tie-bin-*). Props/C04_walk.v: the three deserializer walks are executable Coq models run from the bytes (stream walk_model); each is proved equal to the specification walk over abstract documents (hence pairwise equal) for all configurations, shapes that fit and well-formed documents, the reader for every fitting capacity and fault-free schedule. Props/C04.v keeps the scalar-level laws. Findings N (u16 target on a token-id value) and O (rgb as an array element) are outside the fitting class and are replayed. [a_c04, wave 4] Props/C04_value.v: the value clauses of the statement (integers / booleans verbatim, floats through the flavor, strings through the encoding, ids through resolver / strategy, Options, rgb, ignored values) are theorems about the specification walk at any depth and, through C04_struct_on_all_paths, about what the three entry-point models return for a struct target; props/C04_shapes.py reaches every Deserializer method, every public entry point, size hints and exact skipping at depth on the implementation with model-independent oracles; findings P (newtype / enum / Option map keys on the tape path), Q (unit targets on the tape path), R (128-bit targets on the lexer paths).",
    "technique": "machine-checked proof in Coq over an executable model + specification oracle on the implementation",
}
