"""C17 / C16, wave 6 (engineer s_dom): size / boundary ladders.

One size-like dimension at a time on an otherwise small document (see audit/C17.md and audit/C16.md, section
"Size dimensions"): number of fields, duplicates of one key, distinct keys x duplicates, key length (x alignment of
the duplicates, x position of the first differing byte), header / parameter name length, array length, remainder
length, key-op-value triples inside a mixed array (x the phase of the 3-slot window), consecutive operators, nesting
depth of every container kind, scalar length, number of characters needing a JSON escape (x kind, x position),
digits of numbers.  The ladder is
    0 1 2 3 7 8 9 15 16 17 31 32 33 63 64 65 127 128 129 255 256 257 1023 1024 1025 4095 4096 4097 65533 .. 65536
cut per dimension where a case would cost more than ~50 ms (the cuts are listed in the audit files).

Streams of C17 (run_ladder): ladder_parse (tt.parse), ladder / ladder_big (dom.node, dom.iter, dom.leaf; `ladder` with
the extracted model, `ladder_big` implementation + oracles only: the model's iterators are cubic in the number of
fields), ladder_debug (the same cases in a debug build: no crash, same answers as release).
Oracles: the grammar-level references of props/C17.py and props/C17_iter.py on the tape string, plus the expected
counts BY CONSTRUCTION of each ladder document (fields_len, #groups, len, remainder length).
The documents are deterministic (no random choice): every seed runs the same ladder."""
import sys
from vlib import hexs

LAD = [0, 1, 2, 3, 7, 8, 9, 15, 16, 17, 31, 32, 33, 63, 64, 65, 127, 128, 129, 255, 256, 257, 1023, 1024, 1025,
       4095, 4096, 4097, 65533, 65534, 65535, 65536]
# (`?=` after a blank is the scalar `?` followed by `=`: left to the generators of props/C17.py)
OPS8 = [b"=", b"<", b"<=", b">", b">=", b"!=", b"==", b"="]

MODEL_ITER_TOKENS = 700       # dom.iter through the extracted model: cubic (600 tokens ~ 0.9 s)
MODEL_TOKENS = 2200           # dom.node / dom.leaf / json.* through the extracted model (2050 tokens ~ 0.4 s)
ITER_TOKENS = 2200            # dom.iter on the implementation is quadratic (size_hint re-counts from the cursor)
DEBUG_TOKENS = 2200
LEAF_TOKENS = 9000
LONG_LEAF = ("keylen-unquoted", "value-length-quoted", "escapes-latin1", "header-length")


def lad(lo, hi):
    return [x for x in LAD if lo <= x <= hi]


class Doc:
    """one ladder document: tag = dimension, val = the value reached, exp = [(node, field, value)] expected by construction
    (node: 'top' or 'first' = the first container token; field: fl / g / n / rem), flags: json (also used by C16),
    enc ('w' or 'wu'), deep (nesting above what serde_json's own parser follows: C16 uses the text streams only)"""
    def __init__(self, tag, val, doc, exp=(), enc="w", deep=False, light=False, json=True):
        self.tag, self.val, self.doc, self.exp, self.enc, self.deep, self.light, self.json = tag, val, doc, list(exp), enc, deep, light, json


def ladder_docs():
    out = []
    add = lambda *a, **k: out.append(Doc(*a, **k))
    # ---------------------------------------------------------------- counts of fields / duplicates / groups
    for n in lad(0, 4097):
        add("fields", n, b" ".join(b"k%d=%d" % (i, i) for i in range(n)), [("top", "fl", n), ("top", "g", n)])
    for n in lad(1, 1025):
        add("fields-nested", n, b"o={ " + b" ".join(b"k%d=%d" % (i, i) for i in range(n)) + b" } z=1", [("first", "fl", n), ("first", "g", n), ("top", "fl", 2)])
    for n in (8, 9, 64, 65, 300):
        add("fields-ops", n, b"o={ " + b" ".join(b"k%d %s %d" % (i, OPS8[i % 8], i) for i in range(n)) + b" }", [("first", "fl", n)])
    for n in lad(1, 4097):
        add("dups", n, b" ".join(b"a=%d" % i for i in range(n)), [("top", "fl", n), ("top", "g", 1)])
    for n in (2, 3, 17, 33, 65, 129, 300):
        add("dups-nested-ops", n, b"o={ " + b" ".join(b"a %s %d" % (OPS8[i % 8], i) for i in range(n)) + b" } a=1", [("first", "fl", n), ("first", "g", 1)])
    for n in (3, 64, 129, 300):
        vals = [b"{ 1 }", b"{ b=2 }", b"rgb { 3 }", b"{ }", b"{ c=1 7 }", b"x"]
        add("dups-containers", n, b" ".join(b"a=" + vals[i % 6] for i in range(n)), [("top", "fl", n), ("top", "g", 1)])
    for (k, m) in ((2, 150), (150, 2), (17, 18), (3, 100), (100, 3), (300, 1), (1, 300), (16, 16), (33, 9), (64, 5), (65, 5)):
        add("groups-interleaved", k * 1000 + m, b" ".join(b"g%d=%d" % (i, j) for j in range(m) for i in range(k)), [("top", "fl", k * m), ("top", "g", k)])
        add("groups-blocked", k * 1000 + m, b" ".join(b"g%d=%d" % (i, j) for i in range(k) for j in range(m)), [("top", "fl", k * m), ("top", "g", k)])
    # ---------------------------------------------------------------- key length, alignment, first differing byte
    for L in lad(0, 65536):
        if L >= 1:
            K = b"k" * L
            add("keylen-unquoted", L, K + b"=1 x=2 " + K + b"=3", [("top", "fl", 3), ("top", "g", 2)])
        K = b'"' + b"k" * L + b'"'
        add("keylen-quoted", L, K + b"=1 x=2 " + K + b"=3", [("top", "fl", 3), ("top", "g", 2)])
    for L in (1, 15, 16, 17, 31, 32, 33, 255, 256, 257, 4097):
        K = b"\xe9" * L
        add("keylen-nonascii", L, K + b"=1 x=2 " + K + b"=3", [("top", "fl", 3), ("top", "g", 2)], enc="wu")
    for L in (7, 8, 9, 15, 16, 17, 31, 32, 33, 63, 64, 65):
        K = bytes(97 + (i % 23) for i in range(L))
        K1 = K[:-1] + b"Z"                       # differs in the last byte
        K2 = b"Z" + K[1:]                        # differs in the first byte
        K3 = K[:L // 2] + b"Z" + K[L // 2 + 1:]  # differs in the middle
        for a in range(8):
            for g in (0, 3, 4, 7):
                d = b" " * a + K + b"=1" + b" " * (1 + g) + K + b"=2 " + K1 + b"=3 " + K2 + b"=4 " + K3 + b"=5 " + K + b"=6"
                ng = len({K, K1, K2, K3})
                add("keylen-x-alignment", L * 100 + a * 10 + g, d, [("top", "fl", 6), ("top", "g", ng)], light=True)
    for p in lad(0, 299) + [298, 299]:
        K1 = b"q" * 300
        K2 = K1[:p] + b"r" + K1[p + 1:]
        add("key-first-difference", p, K1 + b"=1 " + K2 + b"=2 " + K1 + b"=3 " + K2 + b"=4", [("top", "fl", 4), ("top", "g", 2)], light=True)
    for L in lad(1, 65536):
        add("header-length", L, b"a=" + b"h" * L + b"{ 1 2 }", [("top", "fl", 1)])
    for L in lad(1, 1025):
        add("parameter-length", L, b"a={ [[" + b"p" * L + b"] x=1 ] [[!" + b"p" * L + b"] y=2 ] }", [("first", "fl", 2)])
    # ---------------------------------------------------------------- array / remainder lengths
    for n in lad(0, 4097) + [65535, 65536]:
        # (the two longest: empty strings, 3 bytes of JSON per element under every narrowing mode: below the harness' 256 KiB bound)
        add("array-length", n, b"a={ " + (b"1 " if n <= 4097 else b'"" ') * n + b"}", [("first", "n", n)])
    for n in (0, 1, 3, 4, 17, 300):
        add("header-array-length", n, b"a=rgb{ " + b"1 " * n + b"}", [])
    for n in (1, 2, 3, 17, 129, 300, 1025):
        add("array-of-arrays", n, b"a={ " + b"{ 1 } " * n + b"}", [("first", "n", n)])
    for n in (3, 65, 300):
        add("array-of-objects", n, b"a={ " + b" ".join(b"{ b=%d b=%d }" % (i, i) for i in range(n)) + b" }", [("first", "n", n)])
    for n in lad(1, 1025):
        # (a leading {} would be a ghost: one plain value first); output far below tokens_len * factor
        add("array-of-empties", n, b"a={ 1 " + b"{} " * n + b"}", [("first", "n", n + 1)])
    for n in lad(1, 1025):
        add("remainder-length", n, b"a={ k=1 " + b" ".join(b"v%d" % i for i in range(n)) + b" }", [("first", "fl", 1), ("first", "rem", n)])
    for (f, r) in ((300, 1), (1, 300), (17, 17), (64, 64), (65, 63)):
        add("fields-x-remainder", f * 1000 + r, b"a={ " + b" ".join(b"k%d=%d" % (i % 7, i) for i in range(f)) + b" " + b" ".join(b"v%d" % i for i in range(r)) + b" }",
            [("first", "fl", f), ("first", "rem", r)])
    # key-op-value triples inside an array (InnerSerArray's 3-slot window): n triples after p plain values, s plain values between
    for n in (1, 2, 3, 4, 5, 7, 8, 9, 16, 17, 33, 65, 129, 300, 1025):
        for p in (1, 2, 3, 4):
            for s in (0, 1, 2):
                if n > 300 and (p, s) not in ((1, 0), (2, 1)):
                    continue
                items = [b"p%d" % i for i in range(p)]
                for i in range(n):
                    items.append(b"t%d %s %d" % (i, OPS8[i % 8], i))
                    items += [b"s%d" % i] * s
                add("triples", n * 100 + p * 10 + s, b"a={ " + b" ".join(items) + b" }", [("first", "n", p + 3 * n + s * n + 1)])      # + the marker
    for n in (1, 2, 3, 7, 8, 9, 17, 33, 65, 129, 300):      # triples in the remainder of an object that turns into an array
        add("remainder-triples", n, b"a={ k=1 v " + b" ".join(b"t%d %s %d" % (i, OPS8[i % 8], i) for i in range(n)) + b" }", [("first", "fl", 1), ("first", "rem", 1 + 3 * n)])
    for c in lad(0, 33):
        add("consecutive-operators", c, b"a={ 1 k" + b" =" * c + b" v }", [])
        add("consecutive-operators-mixed", c, b"a={ 1 k" + b"".join(b" " + OPS8[i % 8] for i in range(c)) + b" v w=x }", [])
    # ---------------------------------------------------------------- nesting depth of every container kind
    for d in (1, 2, 3, 7, 8, 9, 15, 16, 17, 31, 32, 33, 63, 64, 65, 126, 127, 128, 129, 130, 255, 256, 257, 1023, 1024, 1025):
        deep = d > 100
        add("depth-object", d, b"a={" * d + b"b=1" + b"}" * d, [("top", "fl", 1)], deep=deep)
        if d <= 257:
            add("depth-array", d, b"a=" + b"{" * d + b"1" + b"}" * d, [("top", "fl", 1)], deep=deep)
            add("depth-header", d, b"a=rgb{ " * d + b"1" + b" }" * d, [("top", "fl", 1)], deep=deep)
            add("depth-mixed", d, b"a=" + b"{ x=1 10 " * d + b"7" + b" }" * d, [("top", "fl", 1)], deep=deep)
            add("depth-operator", d, b"a>={ " * d + b"b<1" + b" }" * d, [("top", "fl", 1)], deep=deep)
        if d <= 129:       # two containers per level
            add("depth-triple-value", d, b"a=" + b"{ 1 k={ " * d + b"7" + b" } }" * d, [("top", "fl", 1)], deep=d > 50)
    # ---------------------------------------------------------------- scalar lengths, characters needing a JSON escape
    for L in lad(0, 65536):
        if L >= 1:
            add("value-length-unquoted", L, b"a=" + b"x" * L, [("top", "fl", 1)])
        add("value-length-quoted", L, b'a="' + (b"x y " * (L // 4 + 1))[:L] + b'"', [("top", "fl", 1)])
    for L in (0, 1, 15, 16, 17, 4097, 65536):
        add("element-length-quoted", L, b'a={ "' + b"x" * L + b'" 1 }', [("first", "n", 2)])
    ESC = {"dquote": b'\\"', "backslash": b"\\\\", "newline": b"\n", "tab": b"\t", "control": b"\x01", "latin1": b"\xe9", "euro": b"\x80"}
    for kind, e in sorted(ESC.items()):
        top = 4097 if kind == "control" else 65536
        for n in lad(1, top):
            add("escapes-" + kind, n, b'a="' + e * n + b'"', [("top", "fl", 1)], enc="wu" if kind in ("latin1", "euro") else "w")
    for kind in ("dquote", "control", "latin1"):
        for j in lad(0, 64):
            add("escape-position-" + kind, j, b'a="' + b"x" * j + ESC[kind] + b"x" * (64 - j) + b'"', [("top", "fl", 1)], light=True)
    for n in (1, 17, 300):
        add("key-escapes", n, b'"' + b'k\\"' * n + b'"=1 "' + b'k\\"' * n + b'"=2', [("top", "fl", 2), ("top", "g", 1)])
    # ---------------------------------------------------------------- numbers of every magnitude (each narrowing mode in C16)
    def numdoc(tag, val, nums):
        fs = b" ".join(b"n%d=%s" % (i, x) for i, x in enumerate(nums))
        qs = b" ".join(b'q%d="%s"' % (i, x) for i, x in enumerate(nums))
        add(tag, val, fs + b" " + qs + b" arr={ " + b" ".join(nums) + b" }", [("top", "fl", 2 * len(nums) + 1)])
    for sign in (b"", b"-"):
        numdoc("numbers-pow10" + sign.decode(), 25, [sign + str(10 ** k + o).encode() for k in range(0, 26) for o in (-1, 0, 1) if 10 ** k + o >= 0])
        numdoc("numbers-pow2" + sign.decode(), 70, [sign + str(2 ** k + o).encode() for k in range(0, 71) for o in (-1, 0, 1)])
    numdoc("numbers-leading-zeros", 33, [b"0" * z + t for z in lad(0, 33) for t in (b"1", b"9007199254740993", b"0", b"1.5")])
    numdoc("numbers-fraction-digits", 33, [h + b"." + b"1" * f for f in lad(1, 33) for h in (b"0", b"1", b"123456789", b"-0", b"")])
    numdoc("numbers-fraction-zeros", 33, [h + b"." + b"0" * f + t for f in lad(0, 33) for h in (b"1", b"-7") for t in (b"", b"5")][1:])
    numdoc("numbers-integer-digits", 33, [b"9" * i + t for i in lad(1, 33) for t in (b"", b".5", b".25")])
    for L in lad(1, 4097):
        if L > 33:
            numdoc("numbers-digit-run", L, [b"1" * L, b"-" + b"1" * L, b"0." + b"1" * L, b"0" * L + b"7"])
    return out


# ---------------------------------------------------------------------- running
def parse_ladder(ctx, docs, stream="ladder_parse"):
    """[(Doc, tape, toks)] of the ladder documents; every one of them must be accepted by the real parser"""
    cases = ["tt.parse\t%s" % hexs(x.doc) for x in docs]
    impl, _ = ctx.correspond(stream, cases, model=False, nontrivial=lambda c, i: i.startswith("ok"))
    base = len(impl) - len(cases)
    out = []
    for k, x in enumerate(docs):
        o = impl[base + k]
        if o in ("PANIC", "ABORT", "HANG"):
            ctx.fail("parse-crash", "ladder %s=%s: TextTape::from_slice = %s" % (x.tag, x.val, o), [cases[k]], [o], "Ok")
            continue
        if not o.startswith("ok "):
            ctx.fail("ladder-rejected", "ladder %s=%s: the parser refuses a document of the ladder" % (x.tag, x.val), [cases[k]], [o[:80]], "Ok")
            continue
        parts = o.split(" ", 2)
        tape = parts[2] if len(parts) > 2 else "-"
        toks = [] if tape == "-" else tape.split(" ")
        out.append((x, tape, toks))
        ctx.count("ladder:" + x.tag)
    return out


def pick_nodes(toks):
    """top + the container / header nodes; of a long list: the first 4, the last 3 and 5 evenly spaced ones"""
    ns = [i for i, k in enumerate(toks) if k[:2] in ("A:", "O:", "H:")]
    if len(ns) > 12:
        step = len(ns) // 6
        ns = sorted(set(ns[:4] + ns[-3:] + [ns[j * step] for j in range(1, 6)]))
    return ["top"] + [str(i) for i in ns]


def first_container(toks):
    for i, k in enumerate(toks):
        if k[:2] in ("A:", "O:"):
            return i
    return None


def check_expect(ctx, x, case, o, idx, toks):
    """the counts the document has BY CONSTRUCTION (independent of the tape string and of every reference)"""
    from props import C17
    fc = first_container(toks)
    for (node, field, val) in x.exp:
        want = "top" if node == "top" else (str(fc) if fc is not None else None)
        if want != idx:
            continue
        got = None
        if idx == "top":
            v = C17.parse_view(o)
            ob, ar = v, None
        else:
            parts = C17.split_node(o)
            if not parts:
                continue
            ob = C17.parse_view(parts[4]) if parts[4] != "E" else None
            ar = C17.parse_view(parts[5]) if parts[5] != "E" else None
        if field == "fl" and ob:
            got = (ob["fl"], ob["h"], len(ob["f"]))
            ok = got == (val, val, val)
        elif field == "g" and ob:
            got = (len(ob["g"]), ob["gh"])
            ok = got == (val, val)
        elif field == "rem" and ob:
            got = (ob["remlen"], len(ob["rem"]), len(ob["grem"]))
            ok = got == (val, val, val)
        elif field == "n" and ar:
            got = (ar["n"], len(ar["v"]), ar["vlo"], ar["vhi"])
            ok = got == (val, val, val, str(val))
        else:
            continue
        if not ok:
            ctx.fail("ladder-count", "ladder %s=%s, node %s: %s is %s, the document has %d by construction" % (x.tag, x.val, idx, field, got, val),
                     [case], [o[:300]], str(val))


def run_ladder(ctx):
    from props import C17, C17_iter
    sys.setrecursionlimit(max(sys.getrecursionlimit(), 20000))
    parsed = parse_ladder(ctx, ladder_docs())
    small, big, meta = [], [], {}
    for (x, tape, toks) in parsed:
        nt = len(toks)
        nodes = pick_nodes(toks)
        if x.light or nt > LEAF_TOKENS:
            nodes = nodes[:2]
        for enc in x.enc:
            for idx in nodes:
                kinds = ["dom.node"]
                if not x.light and nt <= ITER_TOKENS:
                    kinds.append("dom.iter")
                if not x.light and nt <= LEAF_TOKENS and len(x.doc) <= 20000:
                    kinds.append("dom.leaf")
                elif idx == "top" and x.val in (65535, 65536) and x.tag in LONG_LEAF:
                    kinds.append("dom.leaf")         # the longest scalars: read_str / read_string / decode on them (3 MB of output each)
                for kind in kinds:
                    c = "%s\t%s\t%s\t%s\t%s" % (kind, hexs(x.doc), tape, enc, idx)
                    lim = MODEL_ITER_TOKENS if kind == "dom.iter" else MODEL_TOKENS
                    (small if nt <= lim and len(x.doc) <= 20000 else big).append(c)
                    meta[c] = (x, toks, idx, kind, nt)
    ctx.count("ladder cases (with model)", len(small))
    ctx.count("ladder cases (implementation + oracles only)", len(big))
    results = {}
    for stream, cases, model in (("ladder", small, True), ("ladder_big", big, False)):
        impl, _ = ctx.correspond(stream, cases, model=model, nontrivial=lambda c, i: len(i) > 40)
        base = len(impl) - len(cases)
        for k, c in enumerate(cases):
            o = impl[base + k]
            results[c] = o
            x, toks, idx, kind, nt = meta[c]
            if o in ("ERR", "TAPE-MISMATCH", "BADCASE", "NOKIND"):
                ctx.fail("format", "ladder %s=%s: the harness refuses the case (%s)" % (x.tag, x.val, o), [c], [o])
            elif kind == "dom.node":
                C17.check_node(ctx, c, o, toks, idx)
                if o not in ("PANIC", "ABORT", "HANG", "UNREACH"):
                    check_expect(ctx, x, c, o, idx, toks)
            elif kind == "dom.iter":
                C17_iter.check_iter(ctx, c, o, toks, idx)
            else:
                C17_iter.check_leaf(ctx, c, o, toks, idx)
    # the same observations in a debug build (debug_assert! in FieldsIter::next, overflow checks on every index computation)
    dcases = [c for c in small + big if meta[c][4] <= DEBUG_TOKENS and len(meta[c][0].doc) <= 70000]
    dimpl, _ = ctx.correspond("ladder_debug", dcases, profile="debug", model=False, nontrivial=lambda c, i: len(i) > 40)
    db = len(dimpl) - len(dcases)
    for k, c in enumerate(dcases):
        o = dimpl[db + k]
        x = meta[c][0]
        if o in ("PANIC", "ABORT", "HANG"):
            ctx.fail("dom-crash", "ladder %s=%s: the DOM API crashes in a debug build" % (x.tag, x.val), [c], [o], "no panic")
        elif o != results[c]:
            ctx.fail("debug-release-differ", "ladder %s=%s: a debug build answers differently from a release build" % (x.tag, x.val), [c], [o[:300]], results[c][:300])
