"""Binary-reader part of C20: I/O failures of the underlying Read surface as errors (binary TokenReader)."""
from vlib import hexs, unhex
from props import C08 as B


def run_part(ctx):
    rng = ctx.rng
    docs = []
    for _ in range(ctx.scale(200, 2500)):
        toks = B.rand_doc(rng)
        docs.append(b"".join(B.enc(t) for t in toks))
    docs = [d for d in docs if d]
    cases, meta = [], []
    for d in docs:
        n = len(d)
        need = B.need_of(d)
        bases = [[1] * n, [3] * (n // 3 + 1), [7] * (n // 7 + 1), [n]]
        for bs in bases[:ctx.scale(3, 4)]:
            cap = rng.choice([need, need + 1, n + 5, 64 + need])
            idxs = list(range(len(bs) + 1))
            rng.shuffle(idxs)
            for fi in [0] + idxs[:ctx.scale(4, 10)]:
                one = bs[:fi] + ["F"] + bs[fi:]
                cases.append("bl.stream\t%s\t%d\t%s" % (hexs(d), cap, ",".join(str(x) for x in one))); meta.append((d, "one-shot", fi))
                pers = bs[:fi] + ["F"] * 8
                cases.append("bl.stream\t%s\t%d\t%s" % (hexs(d), cap, ",".join(str(x) for x in pers))); meta.append((d, "persistent", fi))
    free = ["bl.lex\t%s" % hexs(d) for d in docs]
    f_impl, _ = ctx.correspond("bin_fault_free", free, nontrivial=lambda c, i: True)
    fb = len(f_impl) - len(free)
    fmap = {d: f_impl[fb + k] for k, d in enumerate(docs)}
    impl, _ = ctx.correspond("bin_reader_faults", cases, nontrivial=lambda c, i: "ERR:100" in i)
    base = len(impl) - len(cases)
    for k, (d, kind, fi) in enumerate(meta):
        o = impl[base + k]
        if o in ("PANIC", "ABORT", "HANG"):
            ctx.fail("bin-fault-crash", "binary reader %s under a %s fault at read %d on %s" % (o, kind, fi, d.hex()), [cases[k]], [o]); continue
        try:
            toks, end, pos = o.split("|")
            ftoks, fend, fpos = fmap[d].split("|")
        except ValueError:
            ctx.fail("bin-fault-format", "unparsable output %s" % o[:100], [cases[k]], [o]); continue
        tl = [] if toks == "-" else toks.split(" ")
        fl = [] if ftoks == "-" else ftoks.split(" ")
        if tl != fl[:len(tl)]:
            ctx.fail("bin-fault-wrong", "%s fault at read %d: tokens %s differ from the fault-free %s on %s" % (kind, fi, toks[:80], ftoks[:80], d.hex()), [cases[k]], [o], fmap[d])
        elif end != "ERR:100" and (tl != fl or end != fend):
            # the fault was reached before the data ended (the schedule is shorter than the data) yet no I/O error surfaced
            ctx.fail("bin-fault-swallowed", "%s fault at read %d: reader finished with %s after %d of %d tokens without reporting the I/O error on %s" % (kind, fi, end, len(tl), len(fl), d.hex()), [cases[k]], [o], "ERR:100 or the fault-free result")
        elif int(pos) > len(d):
            ctx.fail("bin-fault-position", "position %s beyond the data" % pos, [cases[k]], [o])
    ctx.count("bin_fault_cases", len(cases))
