"""C02, part `hint` (engineer a_c02, wave 4): the Deserializer methods no runtime shape ever calls.

The shapes of harness/src/fam_de.rs reach deserialize_{string, bool, u*, i*, f*, option, seq, tuple, map, struct, enum,
any, ignored_any, identifier}.  Both text deserializers also implement char / str / bytes / byte_buf / unit /
unit_struct / newtype_struct / tuple_struct (and the tape one i128 / u128): what `char`, `&str`, `Cow<str>`, `&[u8]`,
`()`, unit structs, newtype structs, tuple structs and 128-bit integer fields of a typed struct go through.  Kind
`de.hint` (harness/src/fam_tde.rs) requests field `v` with an arbitrary deserialize_<hint> and records which visit
call arrives with what payload; field `w`, written after `v`, shows that the deserializer is still positioned after v.

Stream `hints`: documents  `<junk> v <op> <value> w = <scalar> <junk>`  with value = a scalar (ints of every width
boundary, yes/no, words, quoted strings with non-ASCII letters in both encodings), an array of scalars, or (map /
struct / unit / ignored hints) an object; every hint; the five entry points.  ORACLE: a direct Python reading of the
property text (decimal meaning / yes-no / decoded string, raw bytes for bytes hints, containers as sequences resp.
maps), independent of the Coq models; plus: the reader paths equal the slice path.
"""
import struct
from props import dedoc as D
from props.dedoc import hx

SCALAR_HINTS = ["any", "bool", "i8", "i16", "i32", "i64", "i128", "u8", "u16", "u32", "u64", "u128", "f32", "f64", "char", "str", "string",
                "bytes", "byte_buf", "option", "unit", "unit_struct", "newtype_struct", "map", "struct", "enum", "identifier", "ignored_any"]
ARRAY_HINTS = ["any", "bool", "i32", "i64", "u8", "u64", "f64", "char", "str", "string", "bytes", "byte_buf", "option", "unit", "unit_struct",
               "newtype_struct", "seq", "tuple", "tuple_struct", "identifier", "ignored_any"]
OBJECT_HINTS = ["map", "struct", "unit", "unit_struct", "ignored_any"]

LETTERS = "abcdefghijklmnopqrstuvwxyz0123456789_"
ODD = "éüâ¢ñ"


def gen_word(rng, quoted):
    n = rng.choice([1, 2, 5, 8, 15, 16, 17, 33])
    s = "".join(rng.choice(LETTERS + (ODD if rng.random() < 0.3 else "")) for _ in range(n))
    if quoted and rng.random() < 0.4:
        k = rng.randrange(len(s) + 1)
        s = s[:k] + rng.choice([" ", "=", "{", "}", "#", " x "]) + s[k:]
        s = s.strip() or "x"
    if not quoted and s[0] in "0123456789":
        s = "w" + s
    return s


def gen_scalar(rng):
    """-> (kind, python str of the decoded value, category)"""
    r = rng.random()
    if r < 0.4:
        n = rng.choice([0, 1, 7, 127, 128, 255, 256, 32767, 32768, 65535, 65536, 2 ** 31 - 1, 2 ** 31, 2 ** 32 - 1, 2 ** 32, 2 ** 63 - 1,
                        2 ** 63, 2 ** 64 - 1, -1, -128, -129, -32768, -2 ** 31, -2 ** 31 - 1, -2 ** 63 + 1, rng.randrange(-5000, 5000)])
        return ("Q" if rng.random() < 0.15 else "U", str(n), "int")
    if r < 0.5:
        return ("U", rng.choice(["yes", "no"]), "bool")
    if r < 0.58:
        return ("U", rng.choice(["1.5", "0.25", "-2.75", "100.125", "3.000"]), "float")
    q = rng.random() < 0.5
    w = gen_word(rng, q)
    return ("Q" if q else "U", w, "int" if w.isdigit() and w.isascii() else "word")


def rec_str(s):
    return "(str %s)" % hx(s.encode("utf-8"))


def f64_rec(x):
    return "(f64 %016x)" % struct.unpack(">Q", struct.pack(">d", x))[0]


def scalar_any(s):
    return rec_str(s)


def expect_scalar(hint, s, cat, raw, stream):
    """what the recording visitor must see for a scalar whose decoded text is s (raw = its bytes in the input)"""
    if hint in ("any", "char", "str", "string", "identifier", "map", "struct"):
        return rec_str(s)
    if hint in ("bytes", "byte_buf"):
        return "(bytes %s)" % hx(raw)
    if hint in ("unit", "unit_struct", "ignored_any"):
        return "(unit)"
    if hint == "option":
        return "(some %s)" % rec_str(s)
    if hint == "newtype_struct":
        return "(newtype %s)" % rec_str(s)
    if hint == "enum":
        return "(enum %s)" % hx(s.encode("utf-8"))
    if hint == "bool":
        return "(bool %d)" % (1 if s == "yes" else 0) if cat == "bool" else rec_str(s)
    if hint in ("i8", "i16", "i32", "i64", "i128"):
        if hint == "i128" and stream:
            return "ERR:de"                                   # see FINDING P below
        if cat == "int" and -2 ** 63 < int(s) < 2 ** 63:
            return "(i64 %d)" % int(s)
        return rec_str(s)
    if hint in ("u8", "u16", "u32", "u64", "u128"):
        if hint == "u128" and stream:
            return "ERR:de"
        if cat == "int" and 0 <= int(s) < 2 ** 64:
            return "(u64 %d)" % int(s)
        return rec_str(s)
    if hint in ("f32", "f64"):
        if cat == "float":
            return f64_rec(float(s))
        if cat == "int" and abs(int(s)) < 2 ** 53:
            return f64_rec(float(int(s)))
        if cat == "int":
            return None                                       # rounding of large integers is C11's subject
        return rec_str(s)
    raise RuntimeError(hint)


def render_scalar(kind, s, enc):
    b = D.enc_bytes(s, enc)
    return (b'"' + b + b'"') if kind == "Q" else b, b


def gap(rng):
    return rng.choice([b" ", b" ", b"\n", b"\t", b"  ", b" # c\n", b"\r\n"])


def run(ctx):
    rng = ctx.rng
    n = ctx.scale(2000, 15000)
    cases, exps, meta, good_exps = [], [], [], []
    for _ in range(n):
        enc = rng.choice(["w1252", "utf8"])
        r = rng.random()
        wk, ws, wc = gen_scalar(rng)
        wtxt, _ = render_scalar(wk, ws, enc)
        w_exp = rec_str(ws)
        op = rng.choice(["=", "=", "=", "<", ">=", "!=", "=="])
        if r < 0.6:
            hint = rng.choice(SCALAR_HINTS)
            k, s, cat = gen_scalar(rng)
            vtxt, raw = render_scalar(k, s, enc)
            form = "scalar"
        elif r < 0.85:
            hint = rng.choice(ARRAY_HINTS)
            items = [gen_scalar(rng) for _ in range(rng.randrange(0, 4))]
            vtxt = b"{" + b"".join(gap(rng) + render_scalar(k, s, enc)[0] for (k, s, _) in items) + gap(rng) + b"}"
            form = "array"
        else:
            hint = rng.choice(OBJECT_HINTS)
            fields = [("k%d" % j, gen_scalar(rng)) for j in range(rng.randrange(1, 4))]
            vtxt = b"{" + b"".join(gap(rng) + key.encode() + b"=" + render_scalar(k, s, enc)[0] for (key, (k, s, _)) in fields) + gap(rng) + b"}"
            form = "object"
        pre = b""
        if rng.random() < 0.3:
            pre = b"zz" + gap(rng) + b"=" + gap(rng) + rng.choice([b"1", b"{ 1 2 }", b"{ a = { b = c } }", b'"q"']) + gap(rng)
        txt = pre + b"v" + (b" " if op[0] == "!" else rng.choice([b"", b" "])) + op.encode() + rng.choice([b"", b" "]) + vtxt + gap(rng) + b"w" + b" = " + wtxt + gap(rng)
        if rng.random() < 0.3:
            txt += b"tail = { 1 2 3 }" + gap(rng)
        mt = max(24, len(vtxt) if form == "scalar" else 0, len(wtxt)) + 40
        chunks = ",".join(str(rng.choice([1, 2, 3, 5, 8, 9, 17])) for _ in range(rng.randrange(2, 5))) + "*"
        paths = ["slice", "tape", "objreader", rng.choice(["reader:32768:-", "reader:%d:1*" % mt, "reader:%d:%s" % (mt, chunks)]), "freader:" + chunks]
        for p in paths:
            stream = p.startswith(("reader:", "freader:"))
            if form == "scalar":
                e = expect_scalar(hint, s, cat, raw, stream)
            elif form == "array":
                el = " ".join(rec_str(si) for (_, si, _) in items)
                seq = "(seq" + (" " + el if el else "") + ")"
                if hint in ("unit", "unit_struct", "ignored_any"):
                    e = "(unit)"
                elif hint == "option":
                    e = "(some %s)" % seq
                elif hint == "newtype_struct":
                    e = "(newtype %s)" % seq
                else:
                    e = seq
            else:
                if hint in ("unit", "unit_struct", "ignored_any"):
                    e = "(unit)"
                else:
                    e = "(map" + "".join(" (%s %s)" % (rec_str(key), rec_str(si)) for (key, (_, si, _)) in fields) + ")"
            if e is None:
                continue
            cases.append("\t".join(["de.hint", p, enc, hint, hx(txt)]))
            exps.append(e if e.startswith("ERR") else "v=%s w=%s" % (e, w_exp))
            good_exps.append("v=%s w=%s" % (expect_scalar(hint, s, cat, raw, False), w_exp) if form == "scalar" else exps[-1])
            meta.append((hint, form, p))
            ctx.count("hint_" + form)
    impl, _ = ctx.correspond("hints", cases, nontrivial=lambda c, i: i.startswith("v="), model=False)
    base = len(impl) - len(cases)
    for k, e in enumerate(exps):
        o = impl[base + k]
        hint, form, p = meta[k]
        pk = p.split(":")[0]
        if hint in ("i128", "u128") and p.startswith(("reader:", "freader:")) and form == "scalar":
            # FINDING P: the stream deserializer does not implement deserialize_i128 / deserialize_u128 (serde's default:
            # "i128 is not supported"), the tape deserializer forwards them to i64 / u64.  Silent once repaired.
            good = good_exps[k]
            if o == good:
                continue
            if o == "ERR:de":
                ctx.count("known_P-stream-i128")
                if ctx.dist.get("known_P-stream-i128", 0) <= 2:
                    sl = [c for c in cases if c.split("\t")[2:] == cases[k].split("\t")[2:] and c.split("\t")[1] == "slice"]
                    ctx.fail("P-stream-i128", "i128 / u128 target: %s path returns %s, the document says %s (as the slice path does)" % (p, o, good[:120]), [cases[k]] + sl[:1], [o], good)
            else:
                ctx.fail("hint-" + pk, "deserialize_%s on a %s through %s: the visitor saw %s, the document says %s" % (hint, form, p, o[:200], good[:200]), [cases[k]], [o], good)
            continue
        if o != e:
            ctx.fail("hint-" + pk, "deserialize_%s on a %s through %s: the visitor saw %s, the document says %s" % (hint, form, p, o[:200], e[:200]), [cases[k]], [o], e)

    # ---- model side: the deserializer step of the extracted walks under the same hints (TextDeTape.tape_visit /
    # TextDeStream.stream_visit incl. the hints no runtime shape issues): kind de.hint.model.  Phase 1 asks the
    # implementation for the canonical tape / the reader tokens of each text (as the stream walk_model does).
    docs = sorted(set(tuple(c.split("\t")[2:5]) for c in cases))
    texts = sorted(set(d[2] for d in docs))
    p1 = ["tt.parse\t" + h for h in texts] + ["tr.slice\t" + h for h in texts]
    out, _ = ctx.correspond("hint_model-phase1", p1, model=False, nontrivial=lambda c, i: i.startswith("ok ") or " END" in i)
    b1 = len(out) - len(p1)
    tape, toks = {}, {}
    for k, h in enumerate(texts):
        o = out[b1 + k]
        if o.startswith("ok "):
            parts = o.split(" ", 2)
            tape[h] = parts[2] if len(parts) > 2 else "-"
        toks[h] = out[b1 + len(texts) + k]
    mcases = []
    for (enc, hint, h) in docs:
        if h in tape:
            mcases.append("\t".join(["de.hint.model", "tape", enc, hint, h, tape[h]]))
        if hint not in ("i128", "u128"):      # the stream deserializer has no 128-bit methods (finding P): nothing to model
            mcases.append("\t".join(["de.hint.model", "stream", enc, hint, h, toks[h]]))
    ctx.correspond("hint_model", mcases, nontrivial=lambda c, i: i.startswith("("))
