"""C08, wave-4 additions (engineer a_c08): the clauses audit/C08.md found uncovered.

* all_ids      every one of the 65536 lexeme ids through is_id / read_token / Token::write (one case, both sides)
* lex_ref      the real lexer against the independent python reference lexer (no model involved in the oracle)
* witness      the two `_refuted` round-trip witnesses (reserved id as Id, strings of >= 2^16 bytes) asserted on the code
* roundtrip_long  strings of 1000..65535 bytes
* remainder    Lexer::remainder() after every kind of call = input[position..]
* construct    TokenReader::new / builder().buffer_len / builder().buffer / a buffer recycled through into_parts
* stream_tail  the class `max_token <= cap` that `fits` excludes (a truncated tail or an invalid rgb block longer than the buffer)
* cap0         zero-length buffer (definitional witness C08_stream_cap0_*), model = implementation
* writelim     Token::write into a writer that runs out of room (io::Error path)
"""
from vlib import hexs


def run_more(ctx):
    from props import C08 as B
    rng = ctx.rng
    is_tok = lambda c, i: "|" in i and not i.startswith("-|")

    # ------------------------------------------------------------ all 65536 ids
    impl, _ = ctx.correspond("all_ids", ["bl.allids"], nontrivial=lambda c, i: True)
    got = impl[-1]
    exp = "notid:%s|lexid:%d|wr:65536|agree:65536" % (",".join(str(x) for x in sorted(B.RESERVED)), 65536 - len(B.RESERVED))
    if got != exp:
        ctx.fail("all-ids", "sweep over all 65536 lexeme ids: %s" % got[:300], ["bl.allids"], [got[:600]], exp)
    ctx.count("ids_exhaustive", 65536)

    # ------------------------------------------------------------ inputs of this part
    datas = []
    for _ in range(ctx.scale(250, 2500)):
        datas.append(b"".join(B.enc(t) for t in B.rand_seq(rng, rng.randrange(0, 9))))
    for _ in range(ctx.scale(120, 1200)):
        datas.append(b"".join(B.enc(t) for t in B.rand_doc(rng)))
    for _ in range(ctx.scale(250, 2500)):
        datas.append(B.raw_bytes(rng, rng.randrange(0, 48)))
    for _ in range(ctx.scale(150, 1500)):
        b = b"".join(B.enc(t) for t in B.rand_seq(rng, rng.randrange(1, 7)))
        datas.append(b[:rng.randrange(len(b))] if b else b)

    # ------------------------------------------------------------ real lexer vs python reference lexer
    lc = ["bl.lex\t%s" % hexs(d) for d in datas]
    lex_out, _ = ctx.correspond("lex_ref", lc, nontrivial=is_tok)
    lbase = len(lex_out) - len(lc)
    for k, d in enumerate(datas):
        ref = B.show_lex(d)
        if lex_out[lbase + k] != ref:
            ctx.fail("lex-reference", "Lexer gives %s, reference lexer %s" % (lex_out[lbase + k][:200], ref[:200]), [lc[k]], [lex_out[lbase + k][:1000]], ref[:1000])
    lex_of = lambda k: lex_out[lbase + k]

    # error accessors (LexerError / ReaderError position, kind, into_kind, Display): class + offset inside the input
    ec = ["bl.errapi\t%s" % hexs(d) for d in datas]
    ei, _ = ctx.correspond("error_api", ec, nontrivial=lambda c, i: "ERR" in i)
    for j in range(len(ec)):
        g = ei[len(ei) - len(ec) + j]
        ends = lex_of(j).split("|")[1]
        want = "END END" if ends == "END" else "%s:1 %s:1" % (ends, ends)
        if g != want:
            ctx.fail("error-api", "error accessors: %s (lexer run ends with %s)" % (g, ends), [ec[j]], [g], want)

    # ------------------------------------------------------------ the refuted round-trip witnesses, on the code
    wit = []   # (token spec text, expected bytes)
    body = B.enc(("Q", b"a" * 65532))                     # 65536 bytes, itself one string token
    for k in (0, 1, 5):
        s = b"\x0e\x00\x01\x0e\x00"[:k] + body       # `len as u16` = k: the first k bytes become the string, the rest is lexed
        for kind, lid in (("Q", B.QUOTED), ("U", B.UNQUOTED)):
            wit.append(("%s:%s T:9" % (kind, hexs(s)), B.le(lid, 2) + B.le(len(s) % 65536, 2) + s + B.le(9, 2), "witness-long-string"))
    for r in B.RESERVED:
        wit.append(("T:%d T:10285 T:10285 T:1 T:1 T:1 T:1 T:1 T:1 T:1 T:1 T:1 T:1 T:1 T:1 T:1" % r, B.le(r, 2) + B.le(10285, 2) * 2 + B.le(1, 2) * 13, "witness-reserved-id"))
    wcases = ["bl.write\t%s" % w[0] for w in wit]
    wimpl, _ = ctx.correspond("witness_write", wcases, nontrivial=lambda c, i: True)
    wbase = len(wimpl) - len(wcases)
    lcases = ["bl.lex\t%s" % hexs(w[1]) for w in wit]
    limpl, _ = ctx.correspond("witness_lex", lcases, nontrivial=is_tok)
    lb2 = len(limpl) - len(lcases)
    for k, (spec, bts, key) in enumerate(wit):
        if wimpl[wbase + k] != hexs(bts):
            ctx.fail(key, "Token::write of an ill-formed token no longer truncates as the witness theorem says: %s.. (expected %s..)" % (wimpl[wbase + k][:24], hexs(bts)[:24]),
                     [wcases[k][:400]], [wimpl[wbase + k][:400]], hexs(bts)[:400])
        ref = B.show_lex(bts)
        if limpl[lb2 + k] != ref:
            ctx.fail(key, "lexing the written ill-formed token: %s, witness says %s" % (limpl[lb2 + k][:120], ref[:120]), [lcases[k][:400]], [limpl[lb2 + k][:400]], ref[:400])
        first = limpl[lb2 + k].split(" ")[0].split("|")[0]
        if first == spec.split(" ")[0]:
            ctx.fail(key, "the ill-formed token %s round-trips: the guard of wf_tok is no longer necessary" % spec[:40], [wcases[k][:400]], [first[:200]])

    # ------------------------------------------------------------ long strings round trip
    seqs = []
    for ln in [65534, 65535, 32767, 32768] + [rng.randrange(1000, 65536) for _ in range(ctx.scale(4, 40))]:
        seqs.append([("T", 0x2d28), ("EQ",), (rng.choice(["Q", "U"]), B.rand_string(rng, ln)), ("RGB", (1, 2, 3, 4))])
    wc = ["bl.write\t%s" % " ".join(B.txt(t) for t in s) for s in seqs]
    wi, _ = ctx.correspond("roundtrip_long_write", wc, nontrivial=lambda c, i: True)
    wb = len(wi) - len(wc)
    lc2 = ["bl.lex\t%s" % wi[wb + k] for k in range(len(seqs))]
    li, _ = ctx.correspond("roundtrip_long_lex", lc2, nontrivial=is_tok)
    lb = len(li) - len(lc2)
    for k, s in enumerate(seqs):
        e = b"".join(B.enc(t) for t in s)
        if wi[wb + k] != hexs(e):
            ctx.fail("write-format", "Token::write of a %d-byte string" % len(s[2][1]), [wc[k][:300]], [wi[wb + k][:300]], hexs(e)[:300])
        exp = "%s|END|%d" % (" ".join(B.txt(t) for t in s), len(e))
        if li[lb + k] != exp:
            ctx.fail("roundtrip", "lex(write) of a %d-byte string: %s" % (len(s[2][1]), li[lb + k][:100]), [wc[k][:300], lc2[k][:300]], [li[lb + k][:300]], exp[:300])
    ctx.count("roundtrip_long", len(seqs))

    # ------------------------------------------------------------ Lexer::remainder
    prim = {"U32": "u32", "U64": "u64", "I32": "i32", "I64": "i64", "BOOL": "b", "Q": "s", "U": "s", "F32": "f32", "F64": "f64", "RGB": "rgb"}
    rcases = []
    for k, d in enumerate(datas):
        if rng.random() > ctx.scale(0.6, 1.0):
            continue
        toks, end, _ = B.py_lex(d)
        ops = ["rem"]
        for (t, s, e) in toks:
            kind = t.split(":")[0]
            m = rng.choice(["n", "t", "pp", "ip", "by"])
            if m == "pp": ops += ["pi", "pt", "rem", "t"]
            elif m == "ip" and kind in prim: ops += ["i", "rem", prim[kind]]
            elif m == "ip": ops += ["ni"]
            elif m == "by": ops += ["by%d" % (e - s)]
            else: ops += [m]
            ops.append("rem")
        ops += ["n", "rem", "t", "rem", "by1", "rem"]
        rcases.append((k, "bl.lops\t%s\t%s" % (hexs(d), ",".join(ops))))
    rimpl, _ = ctx.correspond("remainder", [c for _, c in rcases], nontrivial=lambda c, i: " " in i)
    rb = len(rimpl) - len(rcases)
    for j, (k, c) in enumerate(rcases):
        d = datas[k]
        for item in rimpl[rb + j].split(" "):
            if item.startswith("REM:"):
                body_, _, pos = item[4:].rpartition("@")
                if not pos.isdigit() or body_ != hexs(d[int(pos):]):
                    ctx.fail("remainder", "Lexer::remainder() at position %s is %s, input[position..] is %s" % (pos, body_[:80], hexs(d[int(pos):] if pos.isdigit() else b"")[:80]), [c], [rimpl[rb + j][:600]])
                    break

    # ------------------------------------------------------------ next_* vs read_*, peek_* vs read_* at any point, incl. the
    # end of the data and a stray / truncated tail (theorems C08_next_token_vs_read_token, C08_next_id_vs_read_id, C08_peek_*)
    ncases, nmeta = [], []
    probes = ["t", "n", "i", "ni", "pt", "pi", "rem"]
    for k, d in enumerate(datas):
        if rng.random() > ctx.scale(0.5, 1.0):
            continue
        toks, end, _ = B.py_lex(d)
        for j in sorted(set([len(toks), rng.randrange(len(toks) + 1)])):
            for pr in probes:
                ncases.append("bl.lops\t%s\t%s" % (hexs(d), ",".join(["t"] * j + [pr])))
            nmeta.append((k, j))
    nimpl, _ = ctx.correspond("next_vs_read", ncases, nontrivial=lambda c, i: True)
    nb = len(nimpl) - len(ncases)
    for g, (k, j) in enumerate(nmeta):
        res = {}
        for q, pr in enumerate(probes):
            res[pr] = nimpl[nb + g * len(probes) + q].split(" ")[j:]
        problem = check_next_vs_read(res)
        if problem:
            ctx.fail("next-vs-read", "after %d tokens: %s" % (j, problem), [ncases[g * len(probes) + q] for q in range(len(probes))],
                     [" ".join(res[pr])[:200] for pr in probes])

    # ------------------------------------------------------------ call mixes, run to the end of the op list (through failing
    # calls): reader = lexer call by call (theorem C08_reader_ops_eq_lexer_ops; model side = extracted BinOps)
    mcases, mgroups = [], []
    for k, d in enumerate(datas):
        if rng.random() > ctx.scale(0.6, 1.0):
            continue
        toks, end, _ = B.py_lex(d)
        rops, lops = [], []
        for _ in range(len(toks) + 3):
            r = rng.random()
            if r < 0.4: rops.append("n"); lops.append("n")
            elif r < 0.8: rops.append("r"); lops.append("t")
            else:
                nb = rng.choice([0, 1, 2, 3, 4, 6, 9]); rops.append("by%d" % nb); lops.append("by%d" % nb)
        need = max(B.ops_need(d, lops), 1)
        first = len(mcases)
        for s_ in rng.sample(B.schedules(rng, len(d), 2), 3):
            cap = rng.choice([need, need, need + 1, len(d) + 1])
            mcases.append("bl.mrops\t%s\t%d\t%s\t%s" % (hexs(d), cap, B.sched_str(s_), ",".join(rops)))
        mcases.append("bl.mlops\t%s\t%s" % (hexs(d), ",".join(lops)))
        mgroups.append((first, len(mcases) - 1))
    mimpl, _ = ctx.correspond("ops_model", mcases, nontrivial=lambda c, i: " " in i)
    mb = len(mimpl) - len(mcases)
    for first, last in mgroups:
        ref = mimpl[mb + last]
        for g in range(first, last):
            if mimpl[mb + g] != ref:
                ctx.fail("reader-ops-all", "call mix: reader %s, lexer %s" % (mimpl[mb + g][:300], ref[:300]), [mcases[g], mcases[last]], [mimpl[mb + g][:800]], ref[:800])

    # ------------------------------------------------------------ construction modes
    ccases, cmeta = [], []
    pool = [d for d in datas if len(d) >= 4] or [b"\x03\x00\x04\x00"]
    for k, d in enumerate(datas):
        need = B.need_of(d)
        n = len(d)
        for mode in ("new", "len", "rec", "rec"):
            s = rng.choice(B.schedules(rng, n, 2))
            cap = 32768 if mode == "new" else rng.choice([need, need, need + 1, max(100, need), max(1, need - 1)])
            first = rng.choice(pool) * rng.choice([1, 1, 3]) if mode == "rec" else b""
            n_first = rng.randrange(0, 12) if mode == "rec" else 0
            ccases.append("bl.mk\t%s\t%s\t%d\t%s\t%s\t%d" % (mode, hexs(d), cap, B.sched_str(s), hexs(first), n_first))
            cmeta.append((k, cap, need, None))
    # default buffer (32 KiB) against big strings: a token of exactly 32768 bytes fits, one of 32769 does not
    for ln in (30000, 32764, 32765, 40000):
        d = b"".join(B.enc(t) for t in [("T", 7), ("Q", B.rand_string(rng, ln)), ("BOOL", True)])
        for s in ([], [4096] * 12, [rng.randrange(1, 9000) for _ in range(40)]):
            ccases.append("bl.mk\tnew\t%s\t32768\t%s\t-\t0" % (hexs(d), B.sched_str(s)))
            cmeta.append((-1, 32768, B.need_of(d), B.show_lex(d)))
    cimpl, _ = ctx.correspond("construct", ccases, nontrivial=lambda c, i: is_tok(c, i) and c.split("\t")[4] != "-")
    cb = len(cimpl) - len(ccases)
    n_rec = 0
    for j, (k, cap, need, ref) in enumerate(cmeta):
        got = cimpl[cb + j]
        run, _, tail = got.partition(" buf=")
        ref = ref if ref is not None else lex_of(k)
        mode = ccases[j].split("\t")[1]
        n_rec += mode == "rec"
        if tail != "%d inner=1" % cap:
            ctx.fail("construct-parts", "mode %s cap %d: buffer length / inner reader reported as `%s`" % (mode, cap, tail), [ccases[j]], [got[:600]], "%d inner=1" % cap)
        elif cap >= need:
            if run != ref:
                ctx.fail("construct-eq-lexer", "reader built with mode %s (cap %d >= %d): %s, lexer %s" % (mode, cap, need, run[:200], ref[:200]), [ccases[j], "bl.lex\t" + ccases[j].split("\t")[2]], [got[:1000]], ref[:1000])
        elif "|" in run:
            problem = B.check_undersized(run, ref)
            if problem:
                ctx.fail("construct-small", "mode %s cap %d < %d: %s" % (mode, cap, need, problem), [ccases[j]], [got[:1000], ref[:1000]])
        else:
            ctx.fail("construct-small", "mode %s cap %d: %s" % (mode, cap, run[:100]), [ccases[j]], [got[:1000]])
    ctx.count("construct_recycled", n_rec)

    # ------------------------------------------------------------ largest token fits, the tail does not
    tcases, tmeta = [], []
    for _ in range(ctx.scale(300, 3000)):
        head = b"".join(B.enc(t) for t in B.rand_seq(rng, rng.randrange(0, 6)))
        r = rng.random()
        if r < 0.45:      # truncated string: a long announced length, few bytes present
            vis = rng.randrange(0, 40)
            tail = B.le(rng.choice([B.QUOTED, B.UNQUOTED]), 2) + B.le(rng.randrange(vis + 1, 65536), 2) + B.rand_string(rng, vis)
        elif r < 0.6:     # truncated fixed-width token / rgb
            full = B.enc(rng.choice([("U64", 5), ("I64", -5), ("F64", b"\x01" * 8), ("RGB", (1, 2, 3)), ("RGB", (1, 2, 3, 4)), ("U32", 9)]))
            tail = full[:rng.randrange(1, len(full))]
        elif r < 0.9:     # invalid rgb (needs 24 / 30 bytes to be seen)
            g = bytearray(B.enc(("RGB", (1, 2, 3)) if rng.random() < 0.5 else ("RGB", (1, 2, 3, 4))))
            off = rng.choice([2, 4, 10, 16, 22] + ([28] if len(g) == 30 else []))
            g[off:off + 2] = B.le(rng.choice([B.I32, B.CLOSE, B.OPEN, 0x2d28, B.U64]), 2)
            tail = bytes(g) + b"".join(B.enc(t) for t in B.rand_seq(rng, rng.randrange(0, 3)))
        else:             # one stray byte
            tail = bytes([rng.randrange(256)])
        d = head + tail
        toks, end, _ = B.py_lex(d)
        maxtok = max([e - s for (_, s, e) in toks] + [1])
        need = B.need_of(d)
        if need <= maxtok:
            continue
        caps = sorted(set([maxtok, maxtok + 1, need - 1, rng.randrange(maxtok, need)]))
        for cap in caps:
            for s in rng.sample(B.schedules(rng, len(d), 2), 3):
                tcases.append("bl.stream\t%s\t%d\t%s" % (hexs(d), cap, B.sched_str(s))); tmeta.append((d, cap, maxtok))
    timpl, _ = ctx.correspond("stream_tail", tcases, nontrivial=lambda c, i: is_tok(c, i))
    tb = len(timpl) - len(tcases)
    for j, (d, cap, maxtok) in enumerate(tmeta):
        got, ref = timpl[tb + j], B.show_lex(d)
        problem = check_largest_token(got, ref)
        if problem:
            ctx.fail("stream-largest-token", "cap %d holds the largest token (%d): %s (reader %s, lexer %s)" % (cap, maxtok, problem, got[:200], ref[:200]),
                     [tcases[j], "bl.lex\t" + hexs(d)], [got[:1000]], ref[:1000])
    ctx.count("stream_tail_cases", len(tcases))

    # ------------------------------------------------------------ zero-length buffer: everything is dropped (witness), model = impl
    zc = []
    for d in rng.sample(datas, min(len(datas), ctx.scale(60, 600))):
        zc.append("bl.stream\t%s\t0\t%s" % (hexs(d), B.sched_str(rng.choice(B.schedules(rng, len(d), 1)))))
        zc.append("bl.mk\tlen\t%s\t0\t-\t-\t0" % hexs(d))
    zi, _ = ctx.correspond("cap0", zc, nontrivial=lambda c, i: True)
    for j in range(len(zc)):
        g = zi[len(zi) - len(zc) + j]
        if not g.startswith("-|END|0"):
            ctx.fail("witness-cap0", "a reader with a zero-length buffer no longer answers a clean end at 0 (C08_stream_cap0_drops_everything): %s" % g[:100], [zc[j]], [g[:300]], "-|END|0")

    # ------------------------------------------------------------ Token::write into a bounded writer
    lcases, lmeta = [], []
    for _ in range(ctx.scale(400, 4000)):
        s = B.rand_seq(rng, rng.randrange(0, 7))
        e = [B.enc(t) for t in s]
        tot = sum(len(x) for x in e)
        lim = rng.choice([tot, tot + 1, max(0, tot - 1), rng.randrange(0, tot + 2), 0, 1, 2, 3])
        lcases.append("bl.writelim\t%s\t%d" % (" ".join(B.txt(t) for t in s) if s else "-", lim)); lmeta.append((e, lim))
    wl, _ = ctx.correspond("write_bounded", lcases, nontrivial=lambda c, i: i.startswith("ERR"))
    wlb = len(wl) - len(lcases)
    for j, (e, lim) in enumerate(lmeta):
        full = b"".join(e)
        used, n_ok = 0, 0
        for x in e:
            if used + len(x) > lim:
                break
            used += len(x); n_ok += 1
        exp = ("OK:%d:%s" % (len(e), hexs(full))) if len(full) <= lim else ("ERR:%d:%s" % (n_ok, hexs(full[:lim])))
        if wl[wlb + j] != exp:
            ctx.fail("write-bounded", "Token::write into a %d-byte writer: %s" % (lim, wl[wlb + j][:200]), [lcases[j]], [wl[wlb + j][:600]], exp[:600])


def check_largest_token(got, ref):
    """C08_stream_holds_largest_token: same tokens, same position, same end -- or BufferFull where the lexer errs"""
    try:
        gt, ge, gp = got.split("|")
        rt, re_, rp = ref.split("|")
    except ValueError:
        return "unparsable output"
    if gt != rt:
        return "tokens differ"
    if gp != rp:
        return "final position %s vs %s" % (gp, rp)
    if ge != re_ and not (ge == "ERR:101" and re_.startswith("ERR:")):
        return "ends with %s where the lexer ends with %s" % (ge, re_)
    return None


def check_next_vs_read(res):
    """res[probe] = [output of the probe op] after the same prefix of read_token calls"""
    try:
        t, n, i, ni, pt, pi, rem = (res[p][0] for p in ("t", "n", "i", "ni", "pt", "pi", "rem"))
    except IndexError:
        return None          # an earlier read_token failed: the probe was not reached
    start = rem.rpartition("@")[2]
    empty = rem.startswith("REM:-@")

    def pair(read, nxt, what):
        rv, _, rp = read.rpartition("@")
        nv, _, np_ = nxt.rpartition("@")
        if rv.startswith("ERR:"):
            want = "NONE" if (rv == "ERR:110" and empty) else rv
            if rp != start or nv != want or np_ != start:
                return "%s: read = %s, next = %s (data %s)" % (what, read, nxt, "exhausted" if empty else "not exhausted")
        elif (nv, np_) != (rv, rp):
            return "%s: read = %s, next = %s" % (what, read, nxt)
        return None
    p = pair(t, n, "token") or pair(i, ni, "id")
    if p:
        return p
    tv = t.rpartition("@")[0]
    iv = i.rpartition("@")[0]
    if pt != "%s@%s" % ("NONE" if tv.startswith("ERR:") else tv, start):
        return "peek_token = %s, read_token = %s" % (pt, t)
    if pi != "%s@%s" % ("NONE" if iv.startswith("ERR:") else iv, start):
        return "peek_id = %s, read_id = %s" % (pi, i)
    return None
