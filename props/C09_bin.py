"""C09 (binary half) Skipping a container or value lands exactly after its matching close."""
from vlib import hexs, unhex
from props import C08 as B

PROFILES = ["release", "debug"]

RULE = ("binary: generated documents (nested containers, rgb blocks, strings whose payload bytes look like OPEN/CLOSE ids) x every "
        "Open position (skip_container / skip_value(OPEN)) and every value position (skip_value(id)) x schedules (1-byte, periodic, "
        "random, whole, all compositions for short documents) x capacities from the largest token up; plus raw byte strings and "
        "truncated documents. non-trivial = the skipped container holds at least one nested token")
TRUSTED = B.TRUSTED
ASSUMPTIONS = B.ASSUMPTIONS + ["text half of C09 (text TokenReader::skip_container / skip_unquoted_value) is added separately"]


def count_close(allt, k):
    """allt: outputs `tok@pos` of next_token until the end; token k is an Open.  Position after the matching close, or None."""
    depth = 0
    for j in range(k, len(allt)):
        tok, pos = allt[j].rsplit("@", 1)
        if tok == "O":
            depth += 1
        elif tok == "C":
            depth -= 1
            if depth == 0:
                return int(pos), j
        elif tok.startswith(("ERR", "NONE")):
            return None
    return None


def run_binary(ctx):
    rng = ctx.rng
    docs = []
    for _ in range(ctx.scale(400, 2000)):
        body = B.rand_doc(rng)
        pre = B.rand_seq(rng, rng.randrange(0, 3))
        pre = [t for t in pre if t[0] not in ("O", "C")]
        toks = pre + [("T", 0x2d28), ("EQ",), ("O",)] + body + [("C",)] + [B.wf_fix(B.rand_token(rng), rng) for _ in range(rng.randrange(0, 3))]
        docs.append(("doc", b"".join(B.enc(t) for t in toks)))
    # strings made of open/close ids right inside and around containers
    for _ in range(ctx.scale(120, 800)):
        s = b"".join(B.le(rng.choice([B.OPEN, B.CLOSE]), 2) for _ in range(rng.randrange(1, 6)))
        toks = [("O",), (rng.choice(["Q", "U"]), s), ("O",), ("F32", s[:4].ljust(4, b"\x03")), ("U64", int.from_bytes((s * 4)[:8], "little")), ("C",),
                ("RGB", (0x00040003, 3, 4)), ("C",), ("T", 5)]
        docs.append(("looks", b"".join(B.enc(t) for t in toks)))
    for _ in range(ctx.scale(200, 1000)):
        d = b"".join(B.enc(t) for t in [("O",)] + B.rand_doc(rng) + [("C",)])
        r = rng.random()
        if r < 0.5 and len(d) > 2:
            d = d[:rng.randrange(2, len(d))]
            docs.append(("trunc", d))
        else:
            docs.append(("raw", B.le(B.OPEN, 2) + B.raw_bytes(rng, rng.randrange(0, 40))))
    for lab, _ in docs:
        ctx.count("input_" + lab)

    # token positions by the real lexer
    tc = ["bl.lops\t%s\tT" % hexs(d) for _, d in docs]
    timpl, _ = ctx.correspond("tokens", tc, nontrivial=lambda c, i: " " in i)
    tbase = len(timpl) - len(tc)

    cases, meta = [], []
    n_comp = 0
    for k, (lab, d) in enumerate(docs):
        allt = timpl[tbase + k].split(" ")
        ntok = sum(1 for x in allt if not x.startswith(("ERR", "NONE")))
        need = max(B.need_of(d), 1)
        opens = [j for j in range(ntok) if allt[j].rsplit("@", 1)[0] == "O"]
        vals = list(range(ntok))
        if len(vals) > 6:
            vals = rng.sample(vals, 6)
        # Lexer::skip_value(OPEN) after reading the Open, and skip_value(id) after read_id, for every position
        for j in opens:
            cc = count_close(allt, j)
            cases.append("bl.lops\t%s\t%s" % (hexs(d), ",".join(["t"] * (j + 1) + ["svo", "n"]))); meta.append((k, j, cc, "lexer"))
        for j in vals:
            tok, pos = allt[j].rsplit("@", 1)
            cc = count_close(allt, j) if tok == "O" else (int(pos), j)
            cases.append("bl.lops\t%s\t%s" % (hexs(d), ",".join(["t"] * j + ["svi", "n"]))); meta.append((k, j, cc, "lexer"))
        # TokenReader::skip_container under schedules and capacities
        for j in opens if len(opens) <= 5 else rng.sample(opens, 5):
            cc = count_close(allt, j)
            ops = ",".join(["n"] * (j + 1) + ["k", "n"])
            scheds = B.schedules(rng, len(d), ctx.scale(1, 4))
            if len(d) <= 9 and n_comp < ctx.scale(12, 80):
                n_comp += 1
                scheds = scheds + list(B.compositions(len(d)))
            for s in scheds:
                for cap in rng.sample([need, need + 1, max(need, 100), 65539], 2):
                    cases.append("bl.rops\t%s\t%d\t%s\t%s" % (hexs(d), cap, B.sched_str(s), ops)); meta.append((k, j, cc, "reader"))
            cases.append("bl.rsops\t%s\t%s" % (hexs(d), ops)); meta.append((k, j, cc, "reader"))
    impl, _ = ctx.correspond("skip", cases, nontrivial=lambda c, i: "OK@" in i)
    base = len(impl) - len(cases)
    n_checked = 0
    for j, (k, tokidx, cc, who) in enumerate(meta):
        out = impl[base + j].split(" ")
        allt = timpl[tbase + k].split(" ")
        if cc is None:
            continue   # token counting does not reach a matching close: the property makes no promise
        n_checked += 1
        p, closeidx = cc
        skip_res, after = out[-2], out[-1]
        exp_after = allt[closeidx + 1]
        if skip_res != "OK@%d" % p:
            ctx.fail("skip-position", "%s skip after token %d ends with %s, counting opens and closes ends at %d" % (who, tokidx, skip_res, p),
                     [cases[j], tc[k]], [impl[base + j][:600]], "OK@%d" % p)
        elif after != exp_after:
            ctx.fail("skip-next-token", "%s: token after the skip is %s, token after the matching close is %s" % (who, after, exp_after),
                     [cases[j], tc[k]], [impl[base + j][:600]], exp_after)
    pick = sorted(rng.sample(range(len(cases)), min(len(cases), ctx.scale(2500, 20000))))
    dimpl, _ = ctx.correspond("skip_debug_build", [cases[j] for j in pick], profile="debug", model=False)
    dbase = len(dimpl) - len(pick)
    for n_, j in enumerate(pick):
        if dimpl[dbase + n_] != impl[base + j]:
            ctx.fail("debug-build", "debug build answers %s, release build %s" % (dimpl[dbase + n_][:200], impl[base + j][:200]), [cases[j]], [dimpl[dbase + n_][:600], impl[base + j][:600]])
    ctx.count("skips_with_matching_close", n_checked)
    ctx.count("skips_total", len(cases))
    ctx.count("all_compositions_positions", n_comp)


# >>> a_c09 (wave 4)
def run_binary_more(ctx):
    """the WHOLE rest of the stream after a skip (not only the next token) and two skips in one run (state carried from
    one skip_container call to the next), lexer and reader, schedules x capacities"""
    rng = ctx.rng
    docs = []
    for _ in range(ctx.scale(120, 1200)):
        body = B.rand_doc(rng)
        toks = [("T", 0x2d28), ("EQ",), ("O",)] + body + [("C",)]
        for _ in range(rng.randrange(1, 3)):
            toks += [B.wf_fix(B.rand_token(rng), rng) for _ in range(rng.randrange(0, 3))]
            toks += [("T", 7), ("EQ",), ("O",)] + B.rand_doc(rng, depth=2) + [("C",)]
        toks += [("Q", b"\x03\x00\x04\x00"), ("T", 9)]
        docs.append(b"".join(B.enc(t) for t in toks))
    for _ in range(ctx.scale(40, 400)):
        # immediate close, and a container whose only content are payloads that look like ids
        s = b"".join(B.le(rng.choice([B.OPEN, B.CLOSE]), 2) for _ in range(rng.randrange(1, 5)))
        toks = [("O",), ("C",), ("O",), ("O",), ("C",), ("U", s), ("BOOL", True), ("C",), ("O",), ("Q", s), ("EQ",), ("RGB", (3, 4, 0x00040003)), ("C",), ("I32", 4)]
        docs.append(b"".join(B.enc(t) for t in toks))
    # every payload kind filled with words that are themselves lexeme ids (open, close, and ids that announce a payload)
    idw = [B.OPEN, B.CLOSE, B.QUOTED, B.U32, B.I64, B.BOOL, B.RGB, B.U64, B.F64]
    for _ in range(ctx.scale(80, 800)):
        w = lambda n: b"".join(B.le(rng.choice(idw), 2) for _ in range(n))
        pay = [("I64", int.from_bytes(w(4), "little", signed=True)), ("U64", int.from_bytes(w(4), "little")), ("F64", w(4)),
               ("I32", int.from_bytes(w(2), "little", signed=True)), ("U32", int.from_bytes(w(2), "little")), ("F32", w(2)),
               ("Q", w(rng.randrange(1, 4))), ("U", w(rng.randrange(1, 4)) + b"\x03"), ("BOOL", True),
               ("RGB", (int.from_bytes(w(2), "little"), 4, 3) + ((int.from_bytes(w(2), "little"),) if rng.random() < 0.5 else ()))]
        rng.shuffle(pay)
        toks = [("O",)] + pay[:5] + [("O",)] + pay[5:] + [("C",), ("C",), ("T", 0x2d28), ("O",), ("C",), ("T", 0x1234)]
        docs.append(b"".join(B.enc(t) for t in toks))
    tc = ["bl.lops\t%s\tT" % hexs(d) for d in docs]
    timpl, _ = ctx.correspond("tokens_more", tc, nontrivial=lambda c, i: " " in i)
    tbase = len(timpl) - len(tc)
    cases, meta = [], []
    for k, d in enumerate(docs):
        allt = timpl[tbase + k].split(" ")
        if not allt[-1].startswith("NONE"):
            continue
        opens = [j for j in range(len(allt)) if allt[j].rsplit("@", 1)[0] == "O"]
        need = max(B.need_of(d), 1)
        for j in (opens if len(opens) <= 4 else rng.sample(opens, 4)):
            cc = count_close(allt, j)
            if cc is None:
                continue
            c1 = cc[1]
            later = [x for x in opens if x > c1]
            plans = [(["n"] * (j + 1) + ["k", "T"], ["t"] * (j + 1) + ["svo", "T"], c1)]
            if later:
                j2 = rng.choice(later)
                cc2 = count_close(allt, j2)
                if cc2 is not None:
                    plans.append((["n"] * (j + 1) + ["k"] + ["n"] * (j2 - c1) + ["k", "T"], ["t"] * (j + 1) + ["svo"] + ["t"] * (j2 - c1) + ["svo", "T"], cc2[1]))
            for rops, lops, last_close in plans:
                exp = allt[last_close + 1:]
                cases.append("bl.lops\t%s\t%s" % (hexs(d), ",".join(lops))); meta.append((k, exp, "lexer"))
                cases.append("bl.rsops\t%s\t%s" % (hexs(d), ",".join(rops))); meta.append((k, exp, "slice reader"))
                for s_ in B.schedules(rng, len(d), 1)[:ctx.scale(3, 6)]:
                    cap = rng.choice([need, need + 1, max(need, 64), 65539])
                    cases.append("bl.rops\t%s\t%d\t%s\t%s" % (hexs(d), cap, B.sched_str(s_), ",".join(rops))); meta.append((k, exp, "reader cap %d" % cap))
    impl, _ = ctx.correspond("skip_rest", cases, nontrivial=lambda c, i: "OK@" in i)
    base = len(impl) - len(cases)
    for j, (k, exp, who) in enumerate(meta):
        out = impl[base + j].split(" ")
        got = out[len(out) - len(exp):] if len(out) >= len(exp) else out
        if got != exp or not out[len(out) - len(exp) - 1].startswith("OK@"):
            ctx.fail("skip-rest", "%s: after the skip(s) the stream continues with %s, after the matching close the lexer reads %s" %
                     (who, " ".join(got[:5]), " ".join(exp[:5])), [cases[j], tc[k]], [impl[base + j][:600]], " ".join(exp[:60]))
    ctx.count("skip_rest_cases", len(cases))
    run_long_strings(ctx)
# <<< a_c09


def run_long_strings(ctx):
    """strings at the u16 length boundary inside a skipped container (prefix + payload = 65535..65537 bytes), filled with words
    that read as lexemes at either alignment: a skip that mis-sizes the payload by any amount lands on a "token".  Release and
    debug builds (overflow checks); implementation only (the extracted model is quadratic in the length), the expectation is
    the generator's own token list."""
    rng = ctx.rng
    cases, meta = [], []
    for L in (255, 256, 65533, 65534, 65535):
        for kind in ("Q", "U"):
            for fill in (b"\x00\x04\x00", b"\x04\x00", b"\x03\x00\x04\x00\x04"):
                pay = (fill * (L // len(fill) + 1))[:L]
                toks = [("T", 0x2d28), ("EQ",), ("O",), ("I32", 1), (kind, pay), ("I32", 5), ("C",), ("T", 9), ("Q", b"ab")]
                d = b"".join(B.enc(t) for t in toks)
                after = sum(len(B.enc(t)) for t in toks[:7])
                h = hexs(d)
                cases.append("bl.lops\t%s\t%s" % (h, "t,t,t,svo,T")); meta.append((L, kind, after, "lexer"))
                cases.append("bl.rsops\t%s\t%s" % (h, "n,n,n,k,T")); meta.append((L, kind, after, "slice reader"))
                cases.append("bl.rops\t%s\t%d\t%s\t%s" % (h, 65600, rng.choice(["-", "4096,1,4095", "65536,3,1"]), "n,n,n,k,T")); meta.append((L, kind, after, "reader"))
    want = [B.txt(("T", 9)), B.txt(("Q", b"ab"))]
    for prof in ("release", "debug"):
        impl, _ = ctx.correspond("skip_long_strings_" + prof, cases, nontrivial=lambda c, i: "OK@" in i, profile=prof, model=False)
        base = len(impl) - len(cases)
        for j, (L, kind, after, who) in enumerate(meta):
            o = impl[base + j]
            out = o.split(" ")
            toks_after = [x.rsplit("@", 1)[0] for x in out if x.rsplit("@", 1)[0] in want]
            okpos = any(x == "OK@%d" % after for x in out)
            if o in ("PANIC", "ABORT", "HANG") or o.startswith("PANIC"):
                ctx.fail("skip-long-crash", "%s build, %s: skipping a container that holds a %d-byte %s string: %s" % (prof, who, L, kind, o[:60]), [cases[j][:300]], [o[:200]], "position %d then %s" % (after, " ".join(want)))
            elif not okpos or toks_after != want:
                ctx.fail("skip-long-string", "%s build, %s: after skipping a container that holds a %d-byte %s string the stream continues with %s; the matching close ends at %d and is followed by %s" % (prof, who, L, kind, " ".join(out[-4:])[:160], after, " ".join(want)), [cases[j][:300]], [o[-300:]], "OK@%d %s" % (after, " ".join(want)))
    ctx.count("skip_long_string_cases", len(cases))


def run(ctx):
    run_binary(ctx)


def search(ctx):
    import random
    ctx.rng = random.Random(ctx.seed + 1)
    old = ctx.tier
    ctx.tier = "thorough"
    try:
        run(ctx)
    finally:
        ctx.tier = old


CLAIM = {
    "text": "Binary half: Coq theorems over the faithful models of Lexer::skip_value/skip_container (binary/lexer.rs) and "
            "TokenReader::skip_container (binary/reader.rs): for ALL byte strings, if reading tokens and counting opens and closes from a "
            "position just after an Open reaches the matching Close, the skip ends exactly there (lexer; and reader for every fault-free "
            "schedule and every capacity holding the largest token). Strings/floats/integers whose payload bytes look like OPEN/CLOSE are "
            "covered because the theorem quantifies over all bytes. Tied to the code by differential execution of skip at every Open / "
            "value position of generated documents, raw bytes and truncations under schedules x capacities; the oracle (skip position = "
            "counting position, next token = token after the close) is evaluated on the implementation.",
    "note": "Trusted: Coq kernel, tools/gen_tables.py, extraction, the Rust harness and its scheduled Read. The text half is not part of this file yet.",
    "technique": "machine-checked proof in Coq over an executable model + model/implementation correspondence by extraction",
}
