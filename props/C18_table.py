"""C18: the attribute table of every `#[derive(JominiDeserialize)]` struct of the harness, read off the
harness SOURCE TEXT (harness/src/fam_derive*.rs) — not copied by hand.

What is extracted per field is exactly what the proc-macro (jomini_derive/src/lib.rs) looks at:
  * the arguments of all `#[jomini(..)]` attribute lists of the field, in source order
    (`word` or `word = literal`), lib.rs: the six walkers filter `attr.path.is_ident("jomini")`,
    take `Meta::List`, flat_map `nested`;
  * whether a segment of the field type's outer path is `Option`              (can_default)
  * for a duplicated field, the first generic argument of the last path segment, `[T; N]` -> T
    (builder_fields, the element type that is deserialized and pushed).
The precedence rules (duplicated over take_last, default fn over bare default / Option, first alias, first token) are
NOT applied here: the raw table goes to DeriveMacro.spec_of_attrs (Coq, extracted).  `fields_of`
applies the same rules in Python for the independent specification and is cross-checked against the
hand-written table of props/C18.py for the structs that have one.
"""
import os
import re

HERE = os.path.dirname(os.path.abspath(__file__))
SRC = [os.path.join(HERE, "..", "harness", "src", f) for f in ("fam_derive.rs", "fam_derive2.rs", "fam_derive3.rs")]      # fam_derive3.rs: wave 6 (s_c18)


class TableError(Exception):
    pass


def strip_comments(s):
    s = re.sub(r"/\*.*?\*/", "", s, flags=re.S)
    return re.sub(r"//[^\n]*", "", s)


def balanced(s, i, op, cl):
    """index just after the bracket that closes s[i] == op (string literals skipped)"""
    assert s[i] == op
    d = 0
    j = i
    while j < len(s):
        c = s[j]
        if c == '"':
            j = s.index('"', j + 1)
        elif c == op:
            d += 1
        elif c == cl:
            d -= 1
            if d == 0:
                return j + 1
        j += 1
    raise TableError("unbalanced " + op)


def split_top(s, sep=","):
    out, d, cur, i = [], 0, "", 0
    while i < len(s):
        c = s[i]
        if c == '"':
            j = s.index('"', i + 1)
            cur += s[i:j + 1]
            i = j + 1
            continue
        if s.startswith("=>", i):
            cur += "=>"
            i += 2
            continue
        if c in "<([{":
            d += 1
        elif c in ">)]}":
            d -= 1
        if c == sep and d == 0:
            out.append(cur)
            cur = ""
        else:
            cur += c
        i += 1
    if cur.strip():
        out.append(cur)
    return [x.strip() for x in out]


def parse_args(inner):
    """`alias = "core", duplicated` -> [("alias", "core"), ("duplicated", None)]; ints as int"""
    out = []
    for a in split_top(inner):
        if not a:
            continue
        m = re.match(r'^(\w+)\s*=\s*(.+)$', a, re.S)
        if not m:
            if not re.match(r"^\w+$", a):
                raise TableError("attribute argument " + a)
            out.append((a, None))
            continue
        v = m.group(2).strip()
        if v.startswith('"'):
            out.append((m.group(1), v[1:-1]))
        else:
            out.append((m.group(1), int(v.replace("_", ""), 0)))
    return out


def parse_structs(text):
    """{name: {"generics": [params], "fields": [{"name", "type", "args"}]}} of the JominiDeserialize structs"""
    s = strip_comments(text)
    out = {}
    for m in re.finditer(r"#\[derive\(([^)]*)\)\]\s*pub struct (\w+)", s):
        if "JominiDeserialize" not in m.group(1):
            continue
        name = m.group(2)
        i = m.end()
        generics = []
        if s[i] == "<":
            j = balanced(s, i, "<", ">")
            for g in split_top(s[i + 1:j - 1]):
                generics.append(g.split(":")[0].strip())
            i = j
        i = s.index("{", i)
        j = balanced(s, i, "{", "}")
        body = s[i + 1:j - 1]
        fields, args, k = [], [], 0
        lists = []          # >>> w_derive: the argument list of every #[jomini(..)] attribute, one entry per attribute <<<
        while True:
            while k < len(body) and body[k].isspace():
                k += 1
            if k >= len(body):
                break
            if body.startswith("#[", k):
                e = balanced(body, k + 1, "[", "]")
                a = body[k + 2:e - 1].strip()
                mm = re.match(r"^jomini\s*\((.*)\)$", a, re.S)
                if mm:
                    args += parse_args(mm.group(1))
                    lists.append(parse_args(mm.group(1)))      # w_derive
                k = e
                continue
            # ident : type ,
            rest = split_top(body[k:])[0]
            k = k + body[k:].index(rest) + len(rest)
            while k < len(body) and body[k] in ", \n\t":
                k += 1
            rest = re.sub(r"^pub(\([^)]*\))?\s+", "", rest)
            fname, ftype = rest.split(":", 1)
            fields.append({"name": fname.strip(), "type": " ".join(ftype.split()), "args": args, "arglists": lists})
            args = []
            lists = []
        out[name] = {"generics": generics, "fields": fields}
    return out


def parse_default_fns(text):
    """`fn f() -> T { literal }` -> {f: (T, body)}"""
    s = strip_comments(text)
    return {m.group(1): (" ".join(m.group(2).split()), m.group(3).strip())
            for m in re.finditer(r"fn (\w+)\(\)\s*->\s*([^{]+?)\s*\{([^{}]*)\}", s)}


def parse_instances(text):
    """instance name -> Rust type: the `instances!` table and the `"X" => fin(run_text::<T>(` arms"""
    s = strip_comments(text)
    out = {}
    m = re.search(r"\ninstances!\s*\{", s)
    if m:
        i = m.end() - 1
        j = balanced(s, i, "{", "}")
        for item in split_top(s[i + 1:j - 1]):
            if item:
                k, v = item.split("=>")
                out[k.strip().strip('"')] = v.strip()
    for m in re.finditer(r'"(\w+)"\s*=>\s*fin\(run_text::<([^()]+?)>\(', s):
        out[m.group(1)] = m.group(2).strip()
    return out


# ------------------------------------------------------------------------------------------ types
INTS = {"u8": ("u", 8), "u16": ("u", 16), "u32": ("u", 32), "u64": ("u", 64), "i8": ("i", 8), "i16": ("i", 16), "i32": ("i", 32), "i64": ("i", 64)}


def outer_path(ty):
    """(segments of the outer path, generic arguments of its last segment)"""
    ty = ty.strip()
    i = ty.find("<")
    if i < 0:
        return [x.strip() for x in ty.split("::") if x.strip()], []
    if not ty.endswith(">"):
        raise TableError("type " + ty)
    return [x.strip() for x in ty[:i].split("::") if x.strip()], split_top(ty[i + 1:-1])


def subst(ty, env):
    return re.sub(r"\b(\w+)\b", lambda m: env.get(m.group(1), m.group(1)), ty)


class Tables:
    def __init__(self, sources=None):
        self.structs, self.fns, self.instances = {}, {}, {}
        for p in sources or SRC:
            t = open(p).read()
            self.structs.update(parse_structs(t))
            self.fns.update(parse_default_fns(t))
            self.instances.update(parse_instances(t))
        self.by_type = {" ".join(v.split()): k for k, v in self.instances.items()}

    # ---- shapes (the vocabulary of props/dedoc.py) ----
    def shape(self, ty):
        ty = " ".join(ty.split())
        if ty in INTS:
            return INTS[ty]
        if ty in ("String", "Cow<'static, str>"):
            return "str"
        if ty in ("bool", "f32"):
            return ty
        if ty == "Date":
            return "date"
        segs, gen = outer_path(ty)
        if segs[-1] == "Option" and len(gen) == 1:
            return ("opt", self.shape(gen[0]))
        if segs == ["Vec"] and len(gen) == 1:
            return ("seq", self.shape(gen[0]))
        if segs == ["Box"] and len(gen) == 1:          # wave 6 (s_c18): Box<T> deserializes and shows as T (recursive derived structs)
            return self.shape(gen[0])
        if ty in self.by_type:
            return ("derived", self.by_type[ty])
        raise TableError("no shape for type " + ty)

    def type_default(self, sh):
        """canonical value of <T as Default>::default(), None if T has none"""
        k = sh[0] if isinstance(sh, tuple) else sh
        if k == "opt":
            return "(none)"
        if k == "u":
            return "(u 0)"
        if k == "i":
            return "(i 0)"
        if k == "bool":
            return "(bool 0)"
        if k == "str":
            return "(str -)"
        if k == "f32":
            return "(f32 00000000)"
        if k == "seq":
            return "(seq)"
        return None

    def fn_value(self, name):
        if name not in self.fns:
            raise TableError("default function %s not found in the harness source" % name)
        ty, body = self.fns[name]
        sh = self.shape(ty)

        def lit(sh, b):
            b = b.strip()
            k = sh[0] if isinstance(sh, tuple) else sh
            if k == "opt":
                if b == "None":
                    return "(none)"
                m = re.match(r"^Some\((.*)\)$", b)
                return "(some %s)" % lit(sh[1], m.group(1))
            if k in ("u", "i"):
                return "(%s %d)" % (k, int(b.replace("_", ""), 0))
            if k == "bool":
                return "(bool %d)" % (b == "true")
            if k == "str":
                m = re.match(r'^String::from\("(.*)"\)$', b)
                return "(str %s)" % (m.group(1).encode().hex() or "-")
            if k == "date":
                m = re.match(r"^Date::from_ymd\((-?\d+),\s*(\d+),\s*(\d+)\)$", b)
                return "(date %s %s %s 0)" % m.groups()
            raise TableError("default function body " + b)
        return lit(sh, body)

    # ---- the raw table of one instance ----
    def raw(self, inst):
        ty = self.instances[inst]
        segs, gen = outer_path(ty)
        st = self.structs[segs[-1]]
        if len(gen) != len(st["generics"]):
            raise TableError("instance %s: generic arity" % inst)
        env = dict(zip(st["generics"], gen))
        out = []
        for f in st["fields"]:
            fty = subst(f["type"], env)
            psegs, pgen = outer_path(fty)
            names = [a for a, _ in f["args"]]
            dup = "duplicated" in names
            if dup:
                el = pgen[0]
                m = re.match(r"^\[(.+);[^;]+\]$", el)
                vty = m.group(1).strip() if m else el          # lib.rs: GenericArgument::Type(Type::Array(..)) -> elem
            else:
                vty = fty
            dflt = next(((a, v) for a, v in f["args"] if a == "default"), None)
            withf = next((v for a, v in f["args"] if a == "deserialize_with"), None)
            out.append({
                "name": f["name"], "type": fty, "args": f["args"],
                "aliases": [v for a, v in f["args"] if a == "alias" and isinstance(v, str)],
                "tokens": [v for a, v in f["args"] if a == "token" and isinstance(v, int) and 0 <= v < 65536],
                "duplicated": dup, "take_last": "take_last" in names,
                "option": "Option" in psegs,
                "default": "a" if dflt is None else ("p" if isinstance(dflt[1], str) else "w"),
                "default_fn": dflt[1] if dflt and isinstance(dflt[1], str) else None,
                "with": withf, "value_type": vty,
            })
        return out

    def attrs_arg(self, inst):
        """the model argument of dw.*.m / dw.*.s"""
        hx = lambda b: (b.encode().hex() or "-")
        out = []
        for r in self.raw(inst):
            if r["duplicated"]:
                tdef = None                                   # never consulted (the model ignores it as well)
            else:
                tdef = self.type_default(self.shape(r["type"]))
            pdef = self.fn_value(r["default_fn"]) if r["default_fn"] else None
            out.append(":".join([
                hx(r["name"]), ",".join(hx(a) for a in r["aliases"]) or "-", ",".join("%04x" % t for t in r["tokens"]) or "-",
                "1" if r["duplicated"] else "0", "1" if r["take_last"] else "0", "1" if r["option"] else "0", r["default"],
                hx(tdef) if tdef else "-", hx(pdef) if pdef else "-"]))
        return ";".join(out)

    # >>> w_derive: the RAW syntax of the fields (argument of dc.*.m, DeriveCode.raw_field): nothing of what the macro
    # decides is applied here -- the attribute lists stay apart, literals keep their kind, the type is its path segments
    def raw_arg(self, inst):
        hx = lambda b: (b.encode().hex() or "-")
        ty = self.instances[inst]
        segs, gen = outer_path(ty)
        st = self.structs[segs[-1]]
        env = dict(zip(st["generics"], gen))

        def enc(a, v):
            if v is None:
                return "w" + hx(a)
            if isinstance(v, str):
                return "s%s.%s" % (hx(a), hx(v))
            return "i%s.%d" % (hx(a), v) if v >= 0 else "o" + hx(a)
        out = []
        for f in st["fields"]:
            fty = subst(f["type"], env)
            lists = f["arglists"]
            ls = "-" if not lists else "|".join("_" if not l else ",".join(enc(a, v) for a, v in l) for l in lists)
            path = "-" if fty[:1] in "[(&*" else ",".join(hx(x) for x in outer_path(fty)[0])
            try:
                tdef = self.type_default(self.shape(fty))
            except TableError:
                tdef = None
            if any(a == "duplicated" for l in lists for a, _ in l):
                tdef = None          # the element type's shape is what `shape` knows; never consulted for a duplicated field
            fns = [(v, self.fn_value(v)) for l in lists for a, v in l if a == "default" and isinstance(v, str)]
            out.append(":".join([hx(f["name"]), ls, path or "-", hx(tdef) if tdef else "-",
                                 ",".join("%s.%s" % (hx(n), hx(v)) for n, v in fns) or "-"]))
        return ";".join(out)
    # <<< w_derive

    # ---- the same rules in Python, for the specification (format of props/C18.py:STRUCTS + extras) ----
    def fields_of(self, inst):
        """lib.rs can_default: the `default` argument first (`= "fn"` -> the function, bare -> Default::default()),
        then an Option type (None), otherwise required"""
        out = []
        for r in self.raw(inst):
            dup = "dup" if r["duplicated"] else ("last" if r["take_last"] else "once")
            sh = self.shape(r["value_type"])
            if dup == "dup":
                miss = "req"
            elif r["default"] == "p":
                miss = ("def", self.fn_value(r["default_fn"]))
            elif r["default"] == "w":
                miss = ("def", self.type_default(sh))
            elif r["option"]:
                miss = ("def", "(none)")
            else:
                miss = "req"
            out.append({"name": r["name"], "key": r["aliases"][0] if r["aliases"] else r["name"], "sh": sh, "dup": dup,
                        "miss": miss, "token": r["tokens"][0] if r["tokens"] else None, "with": r["with"]})
        return out

    def accepts(self, inst):
        n = sum(1 for r in self.raw(inst) if r["tokens"])
        return n == 0 or n == len(self.raw(inst))


def old_format(fields):
    """(fields in the format of props/C18.py:STRUCTS, option field names): Option unwrapped from `sh`"""
    out, opts = [], set()
    for f in fields:
        g = dict(f)
        if g["dup"] != "dup" and isinstance(g["sh"], tuple) and g["sh"][0] == "opt":
            g["sh"] = g["sh"][1]
            opts.add(g["name"])
        out.append(g)
    return out, opts
