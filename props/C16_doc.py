"""C16, wave 5 (engineer w_json): the whole-document walk and the declarative window reading, run against json().

stream atoms   kind json.atoms: implementation = the keys and leaves, in text order, of the JSON the real root reader
               produces (Preserve / KeyValuePairs x 3 narrowings x both encodings); model = JsonDoc.doc_eatoms, a single
               left-to-right walk over the TAPE (no reader, no iterator, no window).  Props/C16_doc.v proves the walk
               equal to the atoms of the model's tree and, on doc_clean tapes, that it consumes every token once in order.
stream aspec   kind json.aspec: implementation = ArrayReader::json() of a node (same observation as json.ser); model = the
               array of JsonDoc.elem_tree over JsonDoc.win_read (the declarative reading of InnerSerArray's window),
               with the node's options.  Props/C16_array.v proves it equal to Json.ser_window.
oracle doc-order-atoms (on the implementation's atoms alone): under (Preserve, None) every plain scalar token of the
               tape appears among the string atoms, in document order.
"""
from vlib import hexs, unhex
from props import C17

MIX_ITEMS = [b"1", b"10", b"yes", b"abc", b'"q s"', b"-5", b"0.25", b"c=d", b"k<3", b"k >= 4", b"a = 1", b"0=2", b"x?=y",
             b'"k k"=v', b"a={b=1}", b"a={1 2}", b"k!={ 1 a=2 }", b"{}", b"{ 1 }", b"{ a=b }", b"{ x } = y", b"rgb { 1 2 3 }",
             b"c = rgb { 1 }", b"hsv{1}=3", b"a = b = c", b"= d", b"1 = 2 = 3", b"9007199254740993", b"k=9007199254740993",
             b"a == 1.5", b"@v = 1", b"k=no", b'k="no"', b"[[p] x=1 ]", b"e={ f={ 1 g=2 } 3 }"]


def mixed_docs(rng, n):
    """documents whose containers are mixed in both directions, with triples, nested nodes and headers inside"""
    docs = [b"m={ a=1 10 c=2 }", b"levels={ 10 0=2 }", b"a={ 1 2 c=d e>f }", b"a = { b=1 2 3 {} c = rgb { 1 } }",
            b"a = { 1 { x } = y }", b"a={ 1 rgb {1} = 3 }", b"a={ 1 b=c=d }", b"a={ 1 = }", b"a={ 1 b= }", b"a={ k=1 2 k=3 k=4 }",
            b"a={ 1 k={ 2 j=3 } 4 }", b"a={ x=1 y 2 z<3 }", b"t={ 1 a=no b=\"no\" c=1.5 d=9007199254740993 }",
            b"a={ b=1 2 c={ d=3 4 e=5 } f=6 }", b"a={ 1 2 } b={ c=1 2 } 3 d=4"]
    for _ in range(n):
        k = rng.randrange(1, 8)
        items = [rng.choice(MIX_ITEMS) for _ in range(k)]
        body = b" ".join(items)
        r = rng.random()
        if r < 0.6:
            docs.append(rng.choice(C17.KEYS) + b"={ " + body + b" }")
        elif r < 0.8:
            docs.append(b"x=1 " + rng.choice(C17.KEYS) + b" = { " + body + b" } y=2")
        else:
            docs.append(body)
    return docs


INVALID_KEY = "K" + b"__invalid_key".hex()


def plain(raw):
    return len(raw) > 0 and all(32 < b < 127 and b not in (92, 34) for b in raw)


def run_doc(ctx, parsed):
    """parsed: [(doc, tape, toks)] of the main run"""
    rng = ctx.rng
    extra = C17.parse_docs(ctx, mixed_docs(rng, ctx.scale(500, 5000)), stream="parse_mixed")
    ctx.count("mixed documents accepted", len(extra))
    seen = set(d for d, _, _ in parsed)
    docs = list(parsed) + [x for x in extra if x[0] not in seen]

    # ---- stream atoms: the root, Preserve / KeyValuePairs x narrowings x encodings
    cases, meta = [], []
    for di, (d, tape, toks) in enumerate(docs):
        for enc in "wu":
            for du in "pk":
                for na in "aun":
                    if enc == "u" and (du, na) not in (("p", "n"), ("k", "a")) and rng.random() < 0.6:
                        continue
                    cases.append("json.atoms\t%s\t%s\t%s\t%s\t%s" % (hexs(d), tape, enc, du, na))
                    meta.append((di, enc, du, na))
    ctx.count("atoms cases", len(cases))
    impl, _ = ctx.correspond("atoms", cases, nontrivial=lambda c, i: "," in i)
    base = len(impl) - len(cases)
    for k, (di, enc, du, na) in enumerate(meta):
        o, c = impl[base + k], cases[k]
        if o in ("PANIC", "ABORT", "HANG", "OUTPUT-LIMIT"):
            ctx.fail("json-crash", "json() of the root crashes / runs away", [c], [o], "a JSON text"); continue
        if o.startswith(("INVALID", "FLOAT-LEX", "ENTRY-MISMATCH")):
            ctx.fail("json-invalid", "the root's text is not valid JSON: %s" % o, [c], [o], "valid JSON"); continue
        if not (du == "p" and na == "n" and enc == "w"):
            continue
        # every plain scalar token appears, in document order, among the string atoms
        toks = docs[di][2]
        want = [t[2:] for t in toks if t[:2] in ("U:", "Q:", "H:") and plain(unhex(t[2:]))]
        have = [a[1:] if a[0] == "K" else a[2:] for a in o.split(",") if a and (a[0] == "K" or a[:2] == "Vs")] if o else []
        j = 0
        for w in want:
            while j < len(have) and have[j] != w:
                j += 1
            if j == len(have):
                if INVALID_KEY in o.split(","):
                    # a container used as the key of a `k op v` triple inside an array is rendered as "__invalid_key" and its
                    # content is dropped (SingleObject; Props/C16_doc.v C16_doc_unclean_key_refuted): a finding, reported 3 times
                    if ctx.dist.get("invalid-key-loss reported", 0) < 3:
                        ctx.count("invalid-key-loss reported")
                        ctx.fail("invalid-key-loss", "scalar %r is missing from the JSON text: its container is the key of a triple and "
                                 "becomes \"__invalid_key\"" % unhex(w), [c], [o[:300]], "every scalar, in document order")
                else:
                    ctx.fail("doc-order-atoms", "scalar %r of the document is missing from the JSON text (or out of document order)" % unhex(w),
                             [c], [o[:300]], "every scalar, in document order")
                break
            j += 1

    # ---- stream aspec: array nodes through the declarative window reading
    acases = []
    for di, (d, tape, toks) in enumerate(docs):
        nodes = [i for i, t in enumerate(toks) if t[:2] in ("A:", "O:", "H:")]
        for idx in nodes:
            mixed = toks[idx][:2] == "O:" or any(t == "M" or t.startswith("OP:") for t in toks[idx:idx + 12])
            if not mixed and rng.random() < 0.7:
                continue
            combos = [("p", "a"), ("g", "n"), ("k", "u")]
            if rng.random() < 0.3:
                combos += [("p", "n"), ("k", "a"), ("g", "u")]
            for du, na in combos:
                acases.append("json.aspec\t%s\t%s\t%s\t%d\ta\t0\t%s\t%s" % (hexs(d), tape, rng.choice("wwu"), idx, du, na))
    ctx.count("aspec cases", len(acases))
    ctx.correspond("aspec", acases, nontrivial=lambda c, i: "," in i)
