"""C04, wave 6 (engineer s_c04): SIZE ladders -- one size-like dimension at a time on an otherwise small document.

Four rounds of blind mutation testing showed one recurring weakness of the generators: a change that only misbehaves beyond some size
boundary they never reach.  Every stream here walks ONE dimension along

    0 1 2 3 7 8 9 15 16 17 31 32 33 63 64 65 127 128 129 255 256 257 1023 1024 1025 4095 4096 4097 65533 65534 65535 65536

(cut where the format bounds the dimension or one case would cost more than ~50 ms) on the three paths -- tape, on-demand, streaming with
a just-sufficient buffer + fill reads, a slightly larger buffer + 1-byte reads, a 32 KiB buffer + chunked reads, the default-buffer
convenience entry points -- plus the pairs the code couples (largest token x buffer size x offset of the token, string length x position of
the non-ASCII byte relative to the decoders' 8-byte blocks, number of ids x resolver size).

Oracle: the expected value of every case is built HERE, by construction, from the same loop that builds the bytes (no reference to the
implementation or to the Coq model); where the finished documents are small enough (<= MODEL_MAX bytes: the extracted walks are roughly
quadratic in the length of the input) the same case also runs through the three extracted walk models (stream walk_model_sizes).
Release on everything, debug on everything up to DEBUG_MAX bytes except 1-byte schedules with more than 2048 refills inside one token
(known finding N-refill-recursion-opt0 of C05: an unoptimised build recurses once per refill).

dimension (tag)            what grows
  strlen-{value,key,elem,skipped}   length of a quoted / unquoted string token (u16 prefix: reaches 65535) that is CAPTURED as a struct
                                     field, a map key, an array element -- or skipped; ASCII (borrowed) and non-ASCII (owned) contents
  siblings-{root,nested}            fields of one object captured by map(i32); unknown-{root,nested}: unknown fields skipped one by one
  dups                              occurrences of ONE key (collect `*`, last `!`, once -> duplicate error)
  elements                          elements of one array (seq / any / seq(ign) / tuple of exactly n)
  size-hint                         entries whose remaining count BinaryMap / BinarySequence::size_hint reports at every step
  ghosts-*                          consecutive `{}` in key position: between fields, before `}`, at the end of the root, inside a skipped
                                     container, in front of an array-valued / object-valued field
  skipdepth-*                       nesting depth of a value that is skipped (arrays, objects, ghosts inside) through four mechanisms
  depth-*                           nesting depth of the TARGET type and of the captured value (seq / struct / map / opt / newtype / any)
  buffer                            largest token T x buffer {T-1: must refuse with BufferFull, T, T+1, ..} x schedule x offset of the token
  resolver-entries / -namelen       entries of the resolver (to all 65536 ids), length of one resolved name (as key and as value)
  all-ids                           EVERY token id that is not a lexeme as a key: resolved (65536-entry resolver), stringified, ignored
  unknown-{keys,values,elems}       number of unresolvable ids under Error / Stringify / Ignore
  fields                            fields of the target struct (by name and by token id)
  rgb-value / rgb-count             channel values across the u8 / u16 / u32 boundaries, number of rgb-valued fields in one object
  intkey                            integer keys at the width boundaries
  decode                            string length x position of the only non-ASCII byte (decode_utf8 works on 8-byte blocks)
  resfile-*                         BasicTokenResolver::from_text_lines: lines, duplicate ids, zero padding, `0x` prefixes, name length,
                                     trailing whitespace (stream resolver-lines-sizes; the extracted Resolver model runs the small ones)
"""
import struct
from props import dedoc as D
from props.dedoc import hx

LADDER = [0, 1, 2, 3, 7, 8, 9, 15, 16, 17, 31, 32, 33, 63, 64, 65, 127, 128, 129, 255, 256, 257, 1023, 1024, 1025, 4095, 4096, 4097,
          65533, 65534, 65535, 65536]
MODEL_MAX = 520             # bytes of a document the extracted walks still run in a few ms
DEBUG_MAX = 70000           # bytes of a document also run on the unoptimised build
REPLAY_MAX = 400000         # characters of a case line kept verbatim in a failure record

LEXEMES = {0x0001, 0x0003, 0x0004, 0x000c, 0x000d, 0x000e, 0x000f, 0x0014, 0x0017, 0x0167, 0x0243, 0x029c, 0x0317}
IGN = D.IGNORE_ID


def lad(hi, lo=0):
    return [x for x in LADDER if lo <= x <= hi]


def ladc(hi=4097):
    """ladder of a COUNT (not bounded by the format): dense to `hi`, then the u16 boundary once"""
    return lad(hi) + [65535, 65536]


def I32(n):
    return D.tok(0x0c) + struct.pack("<i", n)


def U32(n):
    return D.tok(0x14) + struct.pack("<I", n)


def U64(n):
    return D.tok(0x29c) + struct.pack("<Q", n)


def I64(n):
    return D.tok(0x317) + struct.pack("<q", n)


def BOOL(b):
    return D.tok(0x0e) + (b"\x01" if b else b"\x00")


def QS(b):
    return D.bstr(b, True)


def US(b):
    return D.bstr(b, False)


def F(k, v):
    return k + D.EQ + v


def RGB(cs):
    return D.tok(0x243) + D.OPEN + b"".join(U32(c) for c in cs) + D.CLOSE


GHOST = D.OPEN + D.CLOSE


def text(n, salt=0):
    """n bytes of letters / digits: no whitespace (the decoders trim it at the end), no backslash (they drop it)"""
    al = b"abcdefghijklmnopqrstuvwxyz0123456789_"
    reps = (al[salt % 37:] + al[:salt % 37]) * (n // 37 + 1)
    return reps[:n]


def vstr(b):
    return "(str %s)" % hx(b)


def vstruct(pairs):
    return "(struct%s)" % "".join(" (%s %s)" % (hx(k), v) for k, v in pairs)


def vmap(pairs):
    return "(map%s)" % "".join(" (%s %s)" % (hx(k), v) for k, v in pairs)


def vseq(vs):
    return "(seq%s)" % "".join(" " + v for v in vs)


def sstruct(fields, kind="struct"):
    """fields: (name, mode, shape string[, token id])"""
    out = []
    for f in fields:
        out.append(hx(f[0]) + ("#%04x" % f[3] if kind == "tstruct" else "") + f[1] + ":" + f[2])
    return "%s(%s)" % (kind, ",".join(out))


_FIX = {0x0c: 4, 0x14: 4, 0x29c: 8, 0x317: 8, 0x0e: 1, 0x0d: 4, 0x167: 8}


def max_token(b):
    """bytes of the longest token of a well-formed token stream, as the streaming reader cuts it (an rgb block is ONE token)"""
    i, m, n = 0, 2, len(b)
    while i + 2 <= n:
        t = b[i] | (b[i + 1] << 8)
        st = i
        i += 2
        if t in _FIX:
            i += _FIX[t]
        elif t in (0x0f, 0x17):
            i += 2 + (b[i] | (b[i + 1] << 8))
        elif t == 0x243 and b[i:i + 2] == D.OPEN:
            j = i + 2
            k = 0
            while b[j:j + 2] == D.tok(0x14) and k < 4:
                j += 6
                k += 1
            if k in (3, 4) and b[j:j + 2] == D.CLOSE:
                i = j + 2
        m = max(m, i - st)
    return m


class Lad:
    """collects the cases of all the ladders"""

    def __init__(self, ctx):
        self.ctx = ctx
        self.rng = ctx.rng
        self.items = []          # (case, expected, dim, n, path label, model?, debug?)

    def paths(self, T, nbytes, strat, default_ok=True, few=False):
        """T = the longest token of the document in bytes (what the streaming buffer has to hold).  (path, debug?) pairs"""
        rng = self.rng
        T = max(T, 2)
        out = [("tape", True), ("slice", True), ("reader:%d:-" % T, True)]
        if nbytes <= 300000:
            out.append(("reader:%d:1*" % (T + rng.randrange(0, 4)), T <= 2048))
        if not few:
            big = 32768 if T <= 32768 else T + 61
            out.append(("reader:%d:%s" % (big, rng.choice(["4096,1,4095*", "3,5*", "16,17*", "4095,2*", "-"])), True))
            out.append(("reader:%d:%s" % (T + rng.choice([1, 2, 7, 8, 9, 60]), rng.choice(["2*", "3,5*", "2,7,1", "7*", "8,9*"])), T <= 8192))
        if strat == "ignore" and default_ok and T <= 32768 and not few:
            out.append((rng.choice(["fslice", "freader:-", "freader:1*" if nbytes <= 100000 and T <= 2048 else "freader:3,5*"]), True))
        return out

    def add(self, dim, n, body, shape, exp, T=None, strat="ignore", res="map:-", fl="raw", model=True, default_ok=True, few=False, paths=None):
        """one document on every path; all must return exp.  T (the longest token) is measured on the bytes"""
        h = hx(body)
        T = max_token(body)
        self.ctx.count("sizes_%s_docs" % dim)
        for (p, dbg) in (paths or self.paths(T, len(body), strat, default_ok, few)):
            if p in ("fslice",) or p.startswith("freader"):
                if strat != "ignore":
                    continue
            c = "\t".join(["de.bin", p, strat, res, fl, shape, h])
            m = model and len(body) <= MODEL_MAX and len(shape) <= 4000 and len(res) <= 4000 and not p.startswith("freader")
            self.items.append((c, exp, dim, n, p.split(":")[0], m, dbg and len(body) <= DEBUG_MAX and len(res) <= DEBUG_MAX))

    def one(self, dim, n, path, body, shape, exp, strat="ignore", res="map:-", fl="raw", model=True, debug=True):
        c = "\t".join(["de.bin", path, strat, res, fl, shape, hx(body)])
        m = model and len(body) <= MODEL_MAX and len(shape) <= 4000 and not path.startswith("freader")
        self.items.append((c, exp, dim, n, path.split(":")[0], m, debug and len(body) <= DEBUG_MAX))


# ------------------------------------------------------------------------------------------ string lengths
def lad_strlen(L):
    rng = L.rng
    tail = F(US(b"z"), I32(7))
    for n in lad(65535):
        for variant in range(3 if n in (0, 1, 255, 256, 257, 65533, 65534, 65535) else 1):
            quoted = (n + variant) % 2 == 0
            S = QS if quoted else US
            kind = rng.choice(["ascii", "ascii", "hi-last", "hi-first", "hi-mid"]) if n else "ascii"
            fl = rng.choice(["raw", "eu4"])
            s = text(n, rng.randrange(37))
            dec = s
            if kind != "ascii":
                # one character outside ASCII: the decoders leave the borrowed fast path
                if fl == "eu4":
                    pos = {"hi-last": n - 1, "hi-first": 0, "hi-mid": n // 2}[kind]
                    s = s[:pos] + b"\xe9" + s[pos + 1:]
                    dec = s[:pos] + "é".encode() + s[pos + 1:]
                elif n >= 2:
                    pos = {"hi-last": n - 2, "hi-first": 0, "hi-mid": (n - 2) // 2}[kind]
                    s = s[:pos] + "é".encode() + s[pos + 2:]
                    dec = s
            T = n + 4
            # captured as a struct field
            tsh = rng.choice(["str", "str", "any", "opt(str)"])
            val = vstr(dec) if tsh != "opt(str)" else "(some %s)" % vstr(dec)
            L.add("strlen-value", n, F(US(b"k"), S(s)) + tail, sstruct([("k", "", tsh), ("z", "", "i32")]), vstruct([("k", val), ("z", "(i 7)")]),
                  fl=fl, strat=rng.choice(["ignore", "error", "stringify"]))
            # as a map key
            L.add("strlen-key", n, F(S(s), I32(5)) + F(US(b"z"), I32(7)), "map(i32)", vmap([(dec, "(i 5)"), (b"z", "(i 7)")]), T, fl=fl, few=n > 4097)
            # as an array element
            L.add("strlen-elem", n, F(US(b"k"), D.OPEN + S(s) + US(b"e") + D.CLOSE) + tail, sstruct([("k", "", "seq(str)"), ("z", "", "i32")]),
                  vstruct([("k", vseq([vstr(dec), vstr(b"e")])), ("z", "(i 7)")]), T, fl=fl, few=n > 4097)
            # skipped: unknown field / ignored field / inside a skipped container
            mech = rng.choice(["unknown", "ign", "inner"])
            if mech == "unknown":
                L.add("strlen-skipped", n, F(US(b"k"), S(s)) + tail, sstruct([("z", "", "i32")]), vstruct([("z", "(i 7)")]), T, fl=fl, few=n > 4097)
            elif mech == "ign":
                L.add("strlen-skipped", n, F(US(b"k"), S(s)) + tail, sstruct([("k", "", "ign"), ("z", "", "i32")]), vstruct([("k", "(ign)"), ("z", "(i 7)")]), T, fl=fl, few=n > 4097)
            else:
                L.add("strlen-skipped", n, F(US(b"k"), D.OPEN + F(S(s), S(s)) + GHOST + D.CLOSE) + tail, sstruct([("z", "", "i32")]), vstruct([("z", "(i 7)")]), T, fl=fl, few=n > 4097)
    # the field NAME of the target (and the key that selects it) at the ladder: names are not u16-bounded on the target side
    for n in lad(4097, 1):
        name = text(n, 3)
        L.add("strlen-fieldname", n, F(QS(name), I32(1)) + F(US(name[:-1] + b"X"), I32(2)), sstruct([(name, "", "i32")]), vstruct([(name, "(i 1)")]), n + 4, few=True)


# ------------------------------------------------------------------------------------------ counts of siblings / duplicates / elements
def lad_siblings(L):
    rng = L.rng
    for n in ladc():
        keys = [b"k%d" % i for i in range(n)]
        body = b"".join(F((QS if i % 3 else US)(k), I32(i)) for i, k in enumerate(keys))
        exp = vmap([(k, "(i %d)" % i) for i, k in enumerate(keys)])
        L.add("siblings-root", n, body, "map(i32)", exp, 12, few=n > 4097, strat=rng.choice(["ignore", "error"]))
        if n <= 4097:
            nested = F(US(b"w"), D.OPEN + body + D.CLOSE) + F(US(b"t"), I32(1))
            L.add("siblings-nested", n, nested, sstruct([("w", "", "map(i32)"), ("t", "", "i32")]), vstruct([("w", exp), ("t", "(i 1)")]), 12)
    # unknown fields of rotating kinds, skipped one by one; the known field comes last
    kinds = [lambda i: I32(i), lambda i: QS(b"s%d" % i), lambda i: D.OPEN + I32(i) + I32(i + 1) + D.CLOSE, lambda i: D.OPEN + F(US(b"a"), BOOL(1)) + GHOST + D.CLOSE,
             lambda i: RGB([1, 2, 3]), lambda i: BOOL(i % 2), lambda i: U64(i), lambda i: D.tok(0x167) + struct.pack("<q", i), lambda i: D.OPEN + D.CLOSE,
             lambda i: D.tok(0x0d) + b"\x03\x00\x04\x00", lambda i: I64(-i), lambda i: RGB([4, 5, 6, 7]), lambda i: D.tok(0x2d00 + i % 7)]
    for n in ladc():
        body = b"".join(F(US(b"u%d" % i), kinds[i % len(kinds)](i)) for i in range(n)) + F(US(b"known"), I32(1))
        L.add("unknown-root", n, body, sstruct([("known", "", "i32")]), vstruct([("known", "(i 1)")]), 30, few=n > 4097)
        if n <= 4097:
            nested = F(US(b"w"), D.OPEN + body + D.CLOSE) + F(US(b"t"), I32(1))
            L.add("unknown-nested", n, nested, sstruct([("w", "", sstruct([("known", "", "i32")])), ("t", "", "i32")]),
                  vstruct([("w", vstruct([("known", "(i 1)")])), ("t", "(i 1)")]), 30)
    # occurrences of ONE key
    for n in ladc():
        body = F(US(b"pre"), I32(3)) + b"".join(F((US if i % 2 else QS)(b"a"), I32(i)) for i in range(n))
        L.add("dups", n, body, sstruct([("a", "*", "i32"), ("pre", "", "i32")]), vstruct([("a", vseq(["(i %d)" % i for i in range(n)])), ("pre", "(i 3)")]), 9, few=n > 4097)
        if n <= 4097:
            L.add("dups", n, body, sstruct([("a", "!", "i32"), ("pre", "", "i32")]), vstruct([("a", "(i %d)" % (n - 1)), ("pre", "(i 3)")]) if n else "ERR:missing", 9, few=True)
            L.add("dups", n, body, sstruct([("a", "", "opt(i32)"), ("pre", "", "i32")]),
                  "ERR:dup" if n > 1 else vstruct([("a", "(some (i 0))" if n else "(none)"), ("pre", "(i 3)")]), 9, few=True)
            # duplicates inside a map target: every occurrence is an entry
            nested = F(US(b"w"), D.OPEN + b"".join(F(US(b"a"), I32(i)) for i in range(n)) + D.CLOSE)
            L.add("dups", n, nested, sstruct([("w", "", "map(i32)")]), vstruct([("w", vmap([(b"a", "(i %d)" % i) for i in range(n)]))]), 9, few=True)


def lad_elements(L):
    rng = L.rng
    tail = F(US(b"s"), I32(7))
    for n in ladc():
        arr = D.OPEN + b"".join(I32(i) for i in range(n)) + D.CLOSE
        vals = ["(i %d)" % i for i in range(n)]
        L.add("elements", n, F(US(b"x"), arr) + tail, sstruct([("x", "", "seq(i32)"), ("s", "", "i32")]), vstruct([("x", vseq(vals)), ("s", "(i 7)")]), 6, few=n > 4097)
        if n <= 4097:
            L.add("elements", n, F(US(b"x"), arr) + tail, sstruct([("x", "", "any"), ("s", "", "i32")]), vstruct([("x", vseq(vals)), ("s", "(i 7)")]), 6, few=n > 1025)
            L.add("elements", n, F(US(b"x"), arr) + tail, sstruct([("x", "", "seq(ign)"), ("s", "", "i32")]), vstruct([("x", vseq(["(ign)"] * n)), ("s", "(i 7)")]), 6, few=n > 1025)
        if n <= 4097:
            # strings / nested arrays / ids as elements
            sarr = D.OPEN + b"".join((QS if i % 2 else US)(b"e%d" % i) for i in range(n)) + D.CLOSE
            L.add("elements", n, F(US(b"x"), sarr) + tail, sstruct([("x", "", "seq(str)"), ("s", "", "i32")]),
                  vstruct([("x", vseq([vstr(b"e%d" % i) for i in range(n)])), ("s", "(i 7)")]), 12, few=True)
            narr = D.OPEN + b"".join(D.OPEN + I32(i) + D.CLOSE for i in range(n)) + D.CLOSE
            L.add("elements", n, F(US(b"x"), narr) + tail, sstruct([("x", "", "seq(seq(i8))" if n <= 128 else "seq(seq(i32))"), ("s", "", "i32")]),
                  vstruct([("x", vseq([vseq(["(i %d)" % i]) for i in range(n)])), ("s", "(i 7)")]), 6, few=True)
        if 1 <= n <= 1025:
            # a tuple of exactly n (the end is not probed by the visitor: the deserializer has to consume the close itself)
            L.add("elements", n, F(US(b"x"), arr) + tail, sstruct([("x", "", "tup(%s)" % ",".join(["i32"] * n)), ("s", "", "i32")]), vstruct([("x", vseq(vals)), ("s", "(i 7)")]), 6, few=True)
    # size hints: the number of entries still to come at every step on the tape path, nothing on the lexer paths
    for n in lad(1025):
        arr = D.OPEN + b"".join(I32(i) if i % 5 else D.OPEN + I32(i) + I32(i) + D.CLOSE for i in range(n)) + D.CLOSE
        body = F(US(b"x"), arr) + tail
        obj = D.OPEN + b"".join((GHOST if i % 4 == 3 else b"") + F(US(b"k%d" % i), I32(i) if i % 3 else D.OPEN + F(US(b"q"), I32(1)) + GHOST + D.CLOSE) for i in range(n)) + D.CLOSE
        obody = F(US(b"x"), obj) + tail
        for p in ("tape", "slice", "reader:12:%s" % rng.choice(["-", "1*"])):
            hint = ",".join(str(n - i) if p == "tape" else "-" for i in range(n + 1))
            L.one("size-hint", n, p, body, sstruct([("x", "", "hseq(ign)"), ("s", "", "i32")]), vstruct([("x", "(hint %s %s)" % (hint, vseq(["(ign)"] * n))), ("s", "(i 7)")]), model=False)
            L.one("size-hint", n, p, obody, sstruct([("x", "", "hmap(ign)"), ("s", "", "i32")]),
                  vstruct([("x", "(hint %s %s)" % (hint, vmap([(b"k%d" % i, "(ign)") for i in range(n)]))), ("s", "(i 7)")]), model=False)


# ------------------------------------------------------------------------------------------ ghosts
def lad_ghosts(L):
    rng = L.rng
    for n in ladc():
        g = GHOST * n
        few = n > 4097
        a, b = rng.randrange(1, 100), rng.randrange(1, 100)
        # between two fields of the root, and behind the last one
        L.add("ghosts-root", n, F(US(b"a"), I32(a)) + g + F(US(b"b"), I32(b)) + g, sstruct([("b", "", "i32"), ("a", "", "i32")]), vstruct([("b", "(i %d)" % b), ("a", "(i %d)" % a)]), 6, few=few)
        # between fields of a nested object and in front of its `}`; map and struct targets
        inner = D.OPEN + F(US(b"a"), I32(a)) + g + F(D.tok(0x2d82), I32(b)) + g + D.CLOSE
        body = F(US(b"w"), inner) + g + F(US(b"t"), I32(9))
        L.add("ghosts-nested", n, body, sstruct([("w", "", "map(i32)"), ("t", "", "i32")]), vstruct([("w", vmap([(b"a", "(i %d)" % a), (b"0x2d82", "(i %d)" % b)])), ("t", "(i 9)")]), 6,
              strat="stringify", few=few)
        if n <= 4097:
            L.add("ghosts-nested", n, body, sstruct([("w", "", sstruct([("a", "", "i32"), ("zz", "", "opt(i32)")])), ("t", "", "i32")]),
                  vstruct([("w", vstruct([("a", "(i %d)" % a), ("zz", "(none)")])), ("t", "(i 9)")]), 6, few=True)
            # in front of a field whose value is a container / an rgb / written without `=`
            v = rng.choice([D.OPEN + I32(1) + I32(2) + D.CLOSE, RGB([1, 2, 3])])
            exp = "(seq (i 1) (i 2))" if v[:2] == D.OPEN else "(seq (str %s) (seq (u 1) (u 2) (u 3)))" % hx("rgb")
            L.add("ghosts-before-container", n, F(US(b"a"), I32(a)) + g + F(US(b"c"), v) + g + F(US(b"t"), I32(9)), sstruct([("c", "", "any"), ("t", "", "i32")]),
                  vstruct([("c", exp), ("t", "(i 9)")]), 24, few=True)
            L.add("ghosts-before-container", n, F(US(b"a"), I32(a)) + g + US(b"c") + D.OPEN + I32(1) + D.CLOSE + g + F(US(b"t"), I32(9)), sstruct([("c", "", "seq(u8)"), ("t", "", "i32")]),
                  vstruct([("c", "(seq (u 1))"), ("t", "(i 9)")]), 6, few=True)
        # inside a container that is skipped (depth counting instead of the key loop)
        skipped = D.OPEN + F(US(b"a"), I32(a)) + g + F(US(b"b"), D.OPEN + I32(1) + D.CLOSE) + g + D.CLOSE
        L.add("ghosts-skipped", n, F(US(b"u"), skipped) + F(US(b"t"), I32(9)), sstruct([("t", "", "i32")]), vstruct([("t", "(i 9)")]), 6, few=few)


# ------------------------------------------------------------------------------------------ depth of skipped values
def lad_skipdepth(L):
    rng = L.rng
    for n in ladc():
        few = n > 4097
        arr = D.OPEN * n + I32(5) + D.CLOSE * n                                       # { { { 5 } } }   (n = 0: the scalar itself)
        obj = b"".join(D.OPEN + US(b"a") + D.EQ for _ in range(n)) + I32(5) + D.CLOSE * n      # { a = { a = 5 } }
        mix = b"".join((D.OPEN + US(b"a") + D.EQ) if i % 2 else (D.OPEN + I32(i) if i % 4 == 0 else D.OPEN) for i in range(n)) + QS(b"x") + (GHOST if n % 2 == 0 and n else b"") + D.CLOSE * n
        for name, v in (("arr", arr), ("obj", obj), ("mix", mix)):
            if name == "mix" and n > 4097:
                continue
            mech = rng.choice(["unknown", "ign", "optign", "seqign", "mapign"])
            pre, post = F(US(b"pre"), I32(3)), F(US(b"post"), U32(4))
            if mech == "unknown":
                L.add("skipdepth-" + name, n, pre + F(US(b"u"), v) + post, sstruct([("pre", "", "i32"), ("post", "", "u32")]), vstruct([("pre", "(i 3)"), ("post", "(u 4)")]), 7, few=few)
            elif mech in ("ign", "optign"):
                L.add("skipdepth-" + name, n, pre + F(US(b"u"), v) + post, sstruct([("pre", "", "i32"), ("u", "", "ign" if mech == "ign" else "opt(ign)"), ("post", "", "u32")]),
                      vstruct([("pre", "(i 3)"), ("u", "(ign)" if mech == "ign" else "(some (ign))"), ("post", "(u 4)")]), 7, few=few)
            elif mech == "seqign":
                L.add("skipdepth-" + name, n, pre + F(US(b"u"), D.OPEN + I32(1) + v + v + D.CLOSE) + post, sstruct([("pre", "", "i32"), ("u", "", "seq(ign)"), ("post", "", "u32")]),
                      vstruct([("pre", "(i 3)"), ("u", "(seq (ign) (ign) (ign))"), ("post", "(u 4)")]), 7, few=few)
            else:
                L.add("skipdepth-" + name, n, pre + F(US(b"u"), D.OPEN + F(US(b"p"), v) + GHOST + F(US(b"q"), v) + D.CLOSE) + post,
                      sstruct([("pre", "", "i32"), ("u", "", "map(ign)"), ("post", "", "u32")]),
                      vstruct([("pre", "(i 3)"), ("u", vmap([(b"p", "(ign)"), (b"q", "(ign)")])), ("post", "(u 4)")]), 7, few=few)


# ------------------------------------------------------------------------------------------ depth of the target type / of the captured value
def lad_depth(L):
    for n in lad(257):
        tail = F(US(b"t"), I32(9))
        # seq(seq(..(i32)))
        v, sh, ex = I32(5), "i32", "(i 5)"
        for _ in range(n):
            v, sh, ex = D.OPEN + v + D.CLOSE, "seq(%s)" % sh, "(seq %s)" % ex
        L.add("depth-seq", n, F(US(b"x"), v) + tail, sstruct([("x", "", sh), ("t", "", "i32")]), vstruct([("x", ex), ("t", "(i 9)")]), 6, few=True)
        if n:
            av = D.OPEN * n + I32(5) + D.CLOSE * n
            L.add("depth-any", n, F(US(b"x"), av) + tail, sstruct([("x", "", "any"), ("t", "", "i32")]), vstruct([("x", ex), ("t", "(i 9)")]), 6, few=True)
            # tuples: the close of every level is consumed by the deserializer, not by the visitor
            v2, sh2, ex2 = I32(5), "i32", "(i 5)"
            for _ in range(n):
                v2, sh2, ex2 = D.OPEN + v2 + I32(1) + D.CLOSE, "tup(%s,u8)" % sh2, "(seq %s (u 1))" % ex2
            L.add("depth-tup", n, F(US(b"x"), v2) + tail, sstruct([("x", "", sh2), ("t", "", "i32")]), vstruct([("x", ex2), ("t", "(i 9)")]), 6, few=True)
        # struct in struct, a ghost and a trailing field at every level
        v, sh, ex = I32(5), "i32", "(i 5)"
        for i in range(n):
            v = D.OPEN + F(US(b"a"), v) + (GHOST if i % 2 else b"") + F(US(b"b"), I32(i % 100)) + D.CLOSE
            sh = sstruct([("b", "", "i32"), ("a", "", sh)])
            ex = vstruct([("b", "(i %d)" % (i % 100)), ("a", ex)])
        L.add("depth-struct", n, F(US(b"x"), v) + tail, sstruct([("x", "", sh), ("t", "", "i32")]), vstruct([("x", ex), ("t", "(i 9)")]), 6, few=True)
        # map in map
        v, sh, ex = I32(5), "i32", "(i 5)"
        for i in range(n):
            v, sh, ex = D.OPEN + F(QS(b"m"), v) + D.CLOSE, "map(%s)" % sh, vmap([(b"m", ex)])
        L.add("depth-map", n, F(US(b"x"), v) + tail, sstruct([("x", "", sh), ("t", "", "i32")]), vstruct([("x", ex), ("t", "(i 9)")]), 6, few=True)
        # Option<Option<..>> and newtype wrappers around one scalar: visit_some(self) / visit_newtype_struct(self) n times
        sh, ex = "i32", "(i 5)"
        for _ in range(n):
            sh, ex = "opt(%s)" % sh, "(some %s)" % ex
        L.add("depth-opt", n, F(US(b"x"), I32(5)) + tail, sstruct([("x", "", sh), ("t", "", "i32")]), vstruct([("x", ex), ("t", "(i 9)")]), 6, few=True)
        sh = "str"
        for _ in range(n):
            sh = "newtype(%s)" % sh
        L.add("depth-newtype", n, F(US(b"x"), QS(b"v")) + tail, sstruct([("x", "", sh), ("t", "", "i32")]), vstruct([("x", vstr(b"v")), ("t", "(i 9)")]), 6, few=True, model=False)


# ------------------------------------------------------------------------------------------ streaming buffer x largest token x offset
def lad_buffer(L):
    rng = L.rng
    scheds = ["-", "1*", "2*", "3,5*", "7*", "2,7,1", "16,17*"]
    sizes = [0, 1, 2, 3, 4, 5, 7, 8, 9, 11, 12, 13, 15, 16, 17, 27, 28, 29, 31, 32, 33, 59, 60, 61, 63, 64, 65, 123, 124, 125, 127, 128, 129, 251, 252, 253, 255, 256, 257,
             1019, 1020, 1021, 1023, 1024, 1025, 4091, 4092, 4093, 4095, 4096, 4097, 32763, 32764, 32765, 65531, 65533, 65534, 65535]
    for n in sizes:
        s = text(n, n)
        for pre in ([0, 1, 2, 3] if n <= 4097 else [0, rng.choice([1, 2, 3])]):
            # pre = number of small fields in front: 7 bytes each (id = bool), so the long token starts at offsets 0, 7+2+2, 14+4, ..
            head = b"".join(F(D.tok(0x2d00 + i), BOOL(i % 2)) for i in range(pre))
            body = head + F(US(b"k"), QS(s)) + F(US(b"z"), I32(7))
            shape = sstruct([("k", "", "str"), ("z", "", "i32")])
            exp = vstruct([("k", vstr(s)), ("z", "(i 7)")])
            Tm = max_token(body)
            for B in sorted(set([Tm - 1, Tm, Tm + 1, Tm + 2, Tm + rng.randrange(3, 12)])):
                sc = rng.choice(scheds if n <= 2048 else ["-", "3,5*", "4096,1,4095*", "16,17*"])
                L.one("buffer", n, "reader:%d:%s" % (B, sc), body, shape, exp if B >= Tm else "ERR:full", strat="ignore", debug=n <= 2048 or sc == "-")
            # the same token skipped (unknown field; inside a skipped container the reader's skip loop needs it whole as well)
            sk = head + F(US(b"u"), rng.choice([QS(s), D.OPEN + QS(s) + D.CLOSE, D.OPEN + F(US(b"a"), US(s)) + D.CLOSE])) + F(US(b"z"), I32(7))
            for B in (Tm - 1, Tm, Tm + 1):
                L.one("buffer", n, "reader:%d:%s" % (B, rng.choice(["-", "3,5*", "16,17*"])), sk, sstruct([("z", "", "i32")]), vstruct([("z", "(i 7)")]) if B >= Tm else "ERR:full")
    # the default buffer (32 KiB) of the convenience entry points: a 32768-byte token fits, a 32769-byte token cannot
    for n in (32763, 32764, 32765):
        s = text(n, 1)
        body = F(D.tok(0x2d00), BOOL(1)) + F(US(b"k"), QS(s)) + F(US(b"z"), I32(7))
        for p in ("freader:-", "freader:4096,1,4095*", "fslice"):
            ok = n + 4 <= 32768 or p == "fslice"
            L.one("buffer-default", n, p, body, sstruct([("k", "", "str"), ("z", "", "i32")]), vstruct([("k", vstr(s)), ("z", "(i 7)")]) if ok else "ERR:full")
    # the other wide tokens as the largest one: u64 / f64 (10 bytes), rgb (24), rgba (30); bool only (3)
    wide = [(U64(2 ** 63 + 5), "u64", "(u %d)" % (2 ** 63 + 5), 10), (I64(-7), "i64", "(i -7)", 10), (D.tok(0x167) + struct.pack("<d", 1.5), "f64", "(f64 %016x)" % D.f64_bits(1.5), 10),
            (RGB([1, 2, 3]), "any", "(seq (str %s) (seq (u 1) (u 2) (u 3)))" % hx("rgb"), 24), (RGB([1, 2, 3, 4]), "any", "(seq (str %s) (seq (u 1) (u 2) (u 3) (u 4)))" % hx("rgb"), 30),
            (BOOL(1), "bool", "(bool 1)", 3), (U32(9), "u32", "(u 9)", 6), (D.tok(0x0d) + struct.pack("<f", 2.5), "f32", "(f32 %08x)" % struct.unpack("<I", struct.pack("<f", 2.5))[0], 6)]
    for (v, sh, ex, T) in wide:
        for pre in range(4):
            head = b"".join(F(D.tok(0x2d00 + i), BOOL(i % 2)) for i in range(pre))
            body = head + F(D.tok(0x2d10), v) + F(D.tok(0x2d11), BOOL(0))
            shape = sstruct([("k", "", sh, 0x2d10), ("z", "", "bool", 0x2d11)], "tstruct")
            for B in (T - 1, T, T + 1, T + 2, T + 5):
                if B < 1:
                    continue
                for sc in ("-", "1*", rng.choice(scheds)):
                    L.one("buffer-wide", T, "reader:%d:%s" % (B, sc), body, shape, vstruct([("k", ex), ("z", "(bool 0)")]) if B >= T else "ERR:full")


# ------------------------------------------------------------------------------------------ resolver
def idname(i):
    return b"n%04x" % i


def lad_resolver(L):
    rng = L.rng
    allids = list(range(65536))
    for n in lad(65536):
        ids = sorted(rng.sample(allids, n)) if n < 65536 else allids
        known = set(ids)
        for kind in ("map", "lines"):
            if n > 4097 and kind == "lines" and n != 65536:
                continue
            res = kind + ":" + (",".join("%04x=%s" % (i, hx(idname(i))) for i in ids) or "-")
            probe = [i for i in ([ids[0], ids[-1], ids[len(ids) // 2]] if ids else []) if i not in LEXEMES]
            probe += [i for i in (rng.randrange(65536) for _ in range(3)) if i not in LEXEMES]
            probe = list(dict.fromkeys(probe))
            body = b"".join(F(D.tok(i), D.tok(i)) for i in probe)
            exp = vmap([(idname(i) if i in known else b"0x%x" % i, vstr(idname(i) if i in known else b"0x%x" % i)) for i in probe])
            L.add("resolver-entries", n, body, "map(str)", exp, 2, strat="stringify", res=res, few=True, model=n <= 257)
    for n in lad(65536):
        name = text(n, 5)
        for kind in ("map", "lines"):
            res = "%s:2d82=%s" % (kind, hx(name))
            body = F(D.tok(0x2d82), D.tok(0x2d82)) + F(US(b"e"), D.OPEN + D.tok(0x2d82) + D.CLOSE)
            exp = vmap([(name, vstr(name)), (b"e", vseq([vstr(name)]))])
            L.add("resolver-namelen", n, body, "map(any)", exp, 2, strat="error", res=res, few=True, model=n <= 1025)
            if 1 <= n <= 4097:
                # the resolved name selects a struct field / an enum variant
                L.add("resolver-namelen", n, body, sstruct([(name, "", "enum(%s,%s)" % (hx("other"), hx(name))), ("e", "", "ign")]),
                      vstruct([(name, "(enum %s)" % hx(name)), ("e", "(ign)")]), 2, strat="error", res=res, few=True, model=n <= 1025)


def lad_all_ids(L):
    """every token id that is not a lexeme, as a key, 4096 per document: resolved by a resolver that knows all 65536 ids, stringified,
    ignored; and as a value / element"""
    for blk in range(16):
        ids = [i for i in range(blk * 4096, (blk + 1) * 4096) if i not in LEXEMES]
        full = L.rng.choice(["map:", "lines:"]) + ",".join("%04x=%s" % (i, hx(idname(i))) for i in ids)       # (all 65536 entries at once: resolver-entries)
        body = b"".join(F(D.tok(i), I32(i & 0xff)) for i in ids)
        vbody = F(US(b"v"), D.OPEN + b"".join(D.tok(i) for i in ids) + D.CLOSE)
        for (strat, res, nm) in (("error", full, idname), ("stringify", "map:-", lambda i: b"0x%x" % i), ("ignore", "lines:-", lambda i: IGN.encode()),
                                 ("stringify", "map:0243=" + hx("never"), lambda i: b"0x%x" % i)):
            for p in ("tape", "slice", "reader:%d:%s" % (L.rng.choice([6, 7, 64, 32768]), L.rng.choice(["-", "3,5*"]))):
                L.one("all-ids", blk, p, body, "map(i32)", vmap([(nm(i), "(i %d)" % (i & 0xff)) for i in ids]), strat=strat, res=res, model=False, debug=False)
            p = L.rng.choice(["tape", "slice", "reader:16:3,5*"])
            L.one("all-ids", blk, p, vbody, sstruct([("v", "", "seq(str)")]), vstruct([("v", vseq([vstr(nm(i)) for i in ids]))]), strat=strat, res=res, model=False, debug=False)


def lad_unknown(L):
    rng = L.rng
    pool = [i for i in range(0x18, 0x10000) if i not in LEXEMES]
    for n in ladc():
        few = n > 1025
        ids = [pool[(i * 7919 + 13) % len(pool)] for i in range(n)]
        kbody = b"".join(F(D.tok(t), I32(i)) for i, t in enumerate(ids)) + F(US(b"z"), I32(7))
        vbody = b"".join(F(US(b"k%d" % i), D.tok(t)) for i, t in enumerate(ids)) + F(US(b"z"), QS(b"end"))
        ebody = F(US(b"x"), D.OPEN + b"".join(D.tok(t) for t in ids) + D.CLOSE) + F(US(b"z"), I32(7))
        res = rng.choice(["map:-", "lines:-", "map:0010=" + hx("other")])
        for strat in ("error", "stringify", "ignore"):
            nm = (lambda t: b"0x%x" % t) if strat == "stringify" else (lambda t: IGN.encode())
            err = strat == "error" and n > 0
            # keys: captured by a map, skipped by a struct (the key still goes through the resolver), matched as u16 by a token struct
            L.add("unknown-keys", n, kbody, "map(i32)", "ERR:unktoken" if err else vmap([(nm(t), "(i %d)" % i) for i, t in enumerate(ids)] + [(b"z", "(i 7)")]), 6, strat=strat, res=res, few=few)
            if n <= 4097:
                L.add("unknown-keys", n, kbody, sstruct([("z", "", "i32")]), "ERR:unktoken" if err else vstruct([("z", "(i 7)")]), 6, strat=strat, res=res, few=True)
                tb = b"".join(F(D.tok(t), I32(i)) for i, t in enumerate(ids)) + F(D.tok(0x0010), I32(7))
                L.add("unknown-keys", n, tb, sstruct([("z", "", "i32", 0x0010)], "tstruct"), vstruct([("z", "(i 7)")]), 6, strat=strat, res="map:-", few=True)
            # values / elements
            if n <= 4097:
              L.add("unknown-values", n, vbody, "map(str)", "ERR:unktoken" if err else vmap([(b"k%d" % i, vstr(nm(t))) for i, t in enumerate(ids)] + [(b"z", vstr(b"end"))]), 7, strat=strat, res=res, few=few)
            if n <= 4097:
                # unknown ids in values that are skipped never reach the resolver
                L.add("unknown-values", n, vbody, sstruct([("z", "", "str")]), vstruct([("z", vstr(b"end"))]), 7, strat=strat, res=res, few=True)
                L.add("unknown-elems", n, ebody, sstruct([("x", "", "seq(str)"), ("z", "", "i32")]), "ERR:unktoken" if err else vstruct([("x", vseq([vstr(nm(t)) for t in ids])), ("z", "(i 7)")]), 6,
                      strat=strat, res=res, few=True)


# ------------------------------------------------------------------------------------------ target width, rgb, integer keys
def lad_fields(L):
    for n in lad(1025):
        names = [b"f%d" % i for i in range(n)]
        body = b"".join(F(US(nm), I32(i)) for i, nm in reversed(list(enumerate(names)))) + F(US(b"extra"), I32(1))
        L.add("fields", n, body, sstruct([(nm, "", "i32") for nm in names]), vstruct([(nm, "(i %d)" % i) for i, nm in enumerate(names)]), 11, few=True)
        toks = [0x400 + i * 7 for i in range(n)]
        tbody = b"".join(F(D.tok(t), I32(i)) for i, t in reversed(list(enumerate(toks)))) + F(D.tok(0x3ff), I32(1))
        L.add("fields", n, tbody, sstruct([(nm, "", "i32", t) for nm, t in zip(names, toks)], "tstruct"), vstruct([(nm, "(i %d)" % i) for i, nm in enumerate(names)]), 6, few=True, strat="error")
        # every field absent: Option fields come out as None
        if n <= 257:
            L.add("fields", n, F(US(b"extra"), I32(1)), sstruct([(nm, "", "opt(i32)") for nm in names]), vstruct([(nm, "(none)") for nm in names]), 11, few=True)


def lad_rgb(L):
    rng = L.rng
    vals = [0, 1, 2, 3, 7, 8, 9, 15, 16, 17, 31, 32, 33, 63, 64, 65, 127, 128, 129, 255, 256, 257, 1023, 1024, 1025, 4095, 4096, 4097, 65533, 65534, 65535, 65536,
            2 ** 24 - 1, 2 ** 24, 2 ** 31 - 1, 2 ** 31, 2 ** 32 - 2, 2 ** 32 - 1]
    tail = F(US(b"t"), I32(9))
    for v in vals:
        for nch in (3, 4):
            for pos in range(nch):
                cs = [rng.randrange(200) for _ in range(nch)]
                cs[pos] = v
                w = rng.choice([8, 16, 32, 64])
                ok = all(c < 2 ** w for c in cs)
                inner = vseq(["(u %d)" % c for c in cs])
                full = "(seq (str %s) %s)" % (hx("rgb"), inner)
                L.add("rgb-value", v, F(US(b"c"), RGB(cs)) + tail, sstruct([("c", "", "tup(str,seq(u%d))" % w), ("t", "", "i32")]),
                      vstruct([("c", full), ("t", "(i 9)")]) if ok else "ERR:de", 30, few=True)
                L.add("rgb-value", v, F(US(b"c"), RGB(cs)) + tail, sstruct([("c", "", rng.choice(["any", "tup(str,any)", "seq(any)"])), ("t", "", "i32")]), vstruct([("c", full), ("t", "(i 9)")]), 30, few=True)
    # number of rgb-valued fields in one object
    for n in lad(4097):
        body = b"".join(F(US(b"c%d" % i), RGB([i & 0xff, i >> 8, 3] + ([i] if i % 3 == 0 else []))) for i in range(n)) + tail
        exp = vmap([(b"c%d" % i, "(seq (str %s) %s)" % (hx("rgb"), vseq(["(u %d)" % c for c in [i & 0xff, i >> 8, 3] + ([i] if i % 3 == 0 else [])]))) for i in range(n)] + [(b"t", "(i 9)")])
        L.add("rgb-count", n, body, "map(any)", exp, 30, few=True)
    # rgb blocks with other channel counts are not well-formed: no oracle, the three walk models must mirror their paths
    for nch in (0, 1, 2, 5, 6, 7, 8):
        body = F(US(b"c"), RGB(list(range(1, nch + 1)))) + tail
        for p in ("tape", "slice", "reader:64:-"):
            for sh in ("any", "seq(any)", "ign"):
                L.one("rgb-channels-model", nch, p, body, sstruct([("c", "", sh), ("t", "", "i32")]), None)


def lad_intkey(L):
    vals = [0, 1, -1, 2, 127, 128, 129, 255, 256, 257, 32767, 32768, 65535, 65536, 65537, 2 ** 31 - 1, -2 ** 31, -2 ** 31 + 1, 2 ** 31, 2 ** 32 - 1, 2 ** 32, 2 ** 63 - 1, 2 ** 63, 2 ** 64 - 1, -2 ** 63, -129, -32769]
    for v in vals:
        for (enc, lo, hi, s) in ((I32, -2 ** 31, 2 ** 31, "i"), (U32, 0, 2 ** 32, "u"), (U64, 0, 2 ** 64, "u"), (I64, -2 ** 63, 2 ** 63, "i")):
            if not (lo <= v < hi):
                continue
            ex = "(%s %d)" % (s, v)
            L.add("intkey", v, F(US(b"m"), D.OPEN + F(enc(v), I32(1)) + GHOST + F(enc(v), I32(2)) + D.CLOSE) + F(US(b"t"), I32(9)), sstruct([("m", "", "kmap(any,i32)"), ("t", "", "i32")]),
                  vstruct([("m", "(amap (%s (i 1)) (%s (i 2)))" % (ex, ex)), ("t", "(i 9)")]), 10, few=True, model=False)


def lad_decode(L):
    """string length x position of the only byte outside ASCII (decode_utf8 tests 8-byte blocks, then the remainder)"""
    rng = L.rng
    lens = list(range(1, 19)) + [23, 24, 25, 31, 32, 33, 39, 40, 41, 63, 64, 65, 127, 128, 129]
    for n in lens:
        poss = sorted(set(p for p in (0, 1, 6, 7, 8, 9, 14, 15, 16, 17, n - 10, n - 9, n - 8, n - 7, n - 2, n - 1) if 0 <= p < n))
        for pos in poss:
            for fl in ("eu4", "raw"):
                s = text(n, n + pos)
                if fl == "eu4":
                    hi = rng.choice([0xe9, 0x80, 0x9f, 0xff, 0xa0])
                    s = s[:pos] + bytes([hi]) + s[pos + 1:]
                    dec = s[:pos] + bytes([hi]).decode("cp1252").encode() + s[pos + 1:]
                else:
                    if pos + 2 > n:
                        continue
                    s = s[:pos] + "é".encode() + s[pos + 2:]
                    dec = s
                S = QS if (n + pos) % 2 else US
                body = F(S(s), S(s)) + F(US(b"e"), D.OPEN + S(s) + D.CLOSE)
                L.add("decode", n, body, "map(any)", vmap([(dec, vstr(dec)), (b"e", vseq([vstr(dec)]))]), n + 4, fl=fl, few=True,
                      paths=[("tape", True), ("slice", True), ("reader:%d:%s" % (n + 4, rng.choice(["-", "1*", "3,5*"])), True)])


# ------------------------------------------------------------------------------------------ the text-line parser of BasicTokenResolver
def resolver_file_cases(ctx):
    """(raw file, ids asked, dim, n, model?)"""
    out = []
    for n in lad(65536):
        # n lines, distinct ids
        raw = b"".join(b"0x%04x n%d\n" % (i, i) for i in range(n))
        ask = sorted(set([0, 1, max(0, n - 2), max(0, n - 1), min(n, 65535), 0x1234, 0xffff]))
        out.append((raw, ask, "resfile-lines", n))
        # n lines that all name ONE id: the last one wins
        if n <= 4097:
            raw = b"0x0007 first\n" + b"".join(b"%x d%d\n" % (0x1234, i) for i in range(n)) + b"0x0008 last"
            out.append((raw, [7, 8, 0x1234], "resfile-dups", n))
        # zero padding of the id / repeated `0x` prefixes (trim_start_matches strips every one of them)
        if n <= 4097:
            out.append((b"0x" + b"0" * n + b"1f a\n" + b"0" * n + b"f b\n", [0x1f, 0xf, 0], "resfile-zeros", n))
            out.append((b"0x" * n + b"2a a\n", [0x2a, 0], "resfile-0x", n))
            # trailing whitespace after the name / leading spaces in the name / a CR-LF file
            out.append((b"0x0001 a" + b" \t\r"[n % 3:n % 3 + 1] * n + b"\n0x0002 " + b" " * n + b"b\r\n", [1, 2], "resfile-space", n))
        # name length
        out.append((b"0x0001 " + text(n, 9) + b"\n0x0002 x\n", [1, 2], "resfile-namelen", n))
    # hexadecimal digit runs at the u16 boundary
    for t in (b"ffff", b"10000", b"0ffff", b"00010000", b"fffff", b"FFFF", b"fffe", b"0x0xffff", b"+ffff", b"+10000"):
        out.append((t + b" a\n", [0xffff, 0xfffe, 0], "resfile-overflow", len(t)))
    return out


def run_resolver_files(ctx):
    from props.C04 import py_lines_resolver, resolver_expect
    cases, exps, meta, mcases = [], [], [], []
    for raw, ask, dim, n in resolver_file_cases(ctx):
        spec = py_lines_resolver(raw)
        c = "de.resolver\trawlines:%s\t%s" % (hx(raw), ",".join("%04x" % i for i in ask))
        cases.append(c)
        exps.append(resolver_expect(spec, ask))
        meta.append((dim, n))
        ctx.count("sizes_%s" % dim)
        if len(raw) <= 4200:
            mcases.append(c)
    for prof in ("release", "debug"):
        impl, _ = ctx.correspond("resolver-lines-sizes" + ("" if prof == "release" else "-debug"), cases, nontrivial=lambda c, i: not i.startswith("ERR"), model=False, profile=prof)
        base = len(impl) - len(cases)
        for k, e in enumerate(exps):
            o = impl[base + k]
            if o != e:
                dim, n = meta[k]
                ctx.fail("size-%s" % dim, "%s build, %s = %d: from_text_lines answers %s, the lines say %s" % (prof, dim, n, o[:120], e[:120]), [cases[k][:REPLAY_MAX]], [o[:300]], e[:300])
    ctx.correspond("resolver-lines-sizes-model", mcases, nontrivial=lambda c, i: not i.startswith("ERR"))


# ------------------------------------------------------------------------------------------ driver
LADS = [lad_strlen, lad_siblings, lad_elements, lad_ghosts, lad_skipdepth, lad_depth, lad_buffer, lad_resolver, lad_all_ids, lad_unknown, lad_fields, lad_rgb,
        lad_intkey, lad_decode]


def collect(ctx):
    """the ladders are the same on every run; what the seed draws: contents, flavors, strategies, schedules, skip mechanisms.  The thorough
    tier walks them three times with different draws"""
    L = Lad(ctx)
    for _rep in range(ctx.scale(1, 3)):
        for f in LADS:
            f(L)
    return L.items


def run(ctx, nt):
    items = collect(ctx)
    for (c, e, dim, n, p, m, d) in items:
        ctx.count("sizes_cases_" + dim.split("-")[0])
    oracle = [it for it in items if it[1] is not None]
    cases = [it[0] for it in oracle]
    for prof in ("release", "debug"):
        sel = [k for k, it in enumerate(oracle) if prof == "release" or it[6]]
        cs = [cases[k] for k in sel]
        impl, _ = ctx.correspond("sizes" if prof == "release" else "sizes-debug", cs, nontrivial=nt, model=False, profile=prof)
        base = len(impl) - len(cs)
        for j, k in enumerate(sel):
            (c, e, dim, n, p, m, d) = oracle[k]
            o = impl[base + j]
            if o != e:
                rc = c if len(c) <= REPLAY_MAX else c[:2000] + "...(%d characters; props/C04_sizes.py dimension %s at %d)" % (len(c), dim, n)
                ctx.fail("size-%s-%s" % (dim, p), "%s build, dimension %s at %d, %s path (%s): %s, expected by construction %s" % (prof, dim, n, p, c.split("\t")[1], o[:160], e[:160]),
                         [rc], [o[:2000]], e[:2000])
    # the small documents of every ladder through the three extracted walk models
    mc = ["de.model.bin" + it[0][len("de.bin"):] for it in items if it[5]]
    ctx.count("sizes_model_cases", len(mc))
    ctx.correspond("walk_model_sizes", mc, nontrivial=nt)
    run_resolver_files(ctx)
