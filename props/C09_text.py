"""Text half of C09: skip_container / skip_unquoted_value land exactly after the matching close."""
from vlib import hexs, unhex
from props import textdoc as td, textgen as tg
from props.C07 import sched_str, split_out


def match_close(toks, i):
    """index of the Close matching the Open at i (token counting), or None"""
    depth = 0
    for j in range(i, len(toks)):
        if toks[j] == "O":
            depth += 1
        elif toks[j] == "C":
            depth -= 1
            if depth == 0:
                return j
    return None


def special_unquoted(toks):
    """does a token list hold an unquoted token with a quote, brace or '#' byte inside (one token for the tokenizer, structure for
    the byte-level skip)?  This is exactly the class the skip theorems exclude (skp_fields) and the known finding names."""
    for t in toks:
        if t.startswith("U:"):
            h = t[2:]
            bs = [h[k:k + 2] for k in range(0, len(h), 2)]
            if any(b in ("22", "7b", "7d", "23") for b in bs):
                return True
    return False


def run_text(ctx):
    rng = ctx.rng
    docs = []
    for _ in range(ctx.scale(250, 3000)):
        doc = td.gen_fields(rng, rng.choice([2, 3, 4]), rng.randrange(1, 5), params=False)
        docs.append(td.render(doc, rng, rng.choice(td.STYLES), bom=rng.random() < 0.1))
    # brace-, quote-, backslash-, '#'-bearing strings at every alignment inside a container
    for pad in range(0, 18):
        for s in (b'"}"', b'"{"', b'"\\"}"', b'"#"', b'"a\\\\"', b'# } {\n', b'"\\\\\\"}{"', b"x" * 9):
            docs.append(b"a={" + b" " * pad + s + b" b=c }" + b" " * (17 - pad) + b" z=1")
    slice_cases = ["tr.slice\t%s" % hexs(d) for d in docs]
    s_impl, _ = ctx.correspond("text_slice_tokens", slice_cases, nontrivial=lambda c, i: " O " in i)
    sb = len(s_impl) - len(slice_cases)
    cases, meta = [], []
    for k, d in enumerate(docs):
        S = split_out(s_impl[sb + k])
        if S is None or S[1] != "END":
            continue
        toks = S[0]
        opens = [i for i, t in enumerate(toks) if t == "O"]
        rng.shuffle(opens)
        for i in opens[:ctx.scale(3, 8)]:
            j = match_close(toks, i)
            if j is None:
                continue
            exp = toks[j + 1:]
            n = len(d)
            need = tg.atoms(d)
            variants = [("slice", "-")]
            for _ in range(ctx.scale(2, 5)):
                sc = rng.choice(tg.schedules(rng, n, 2))
                variants.append((str(rng.choice([need, need + 1, n + 9, 64])), sched_str(sc)))
            variants.append((str(need), sched_str([1] * n)))
            for cap, sc in variants:
                cases.append("tr.skip\t%s\t%s\t%s\t%d" % (cap, sc, hexs(d), i + 1)); meta.append((d, i, exp, "skip_container" + ("*" if special_unquoted(toks[i:j + 1]) else "")))
        # skip_unquoted_value after an unquoted token: skips a following container, else leaves the stream alone
        uq = [i for i, t in enumerate(toks) if t.startswith("U:")]
        rng.shuffle(uq)
        for i in uq[:2]:
            if i + 1 < len(toks) and toks[i + 1] == "O":
                j = match_close(toks, i + 1)
                exp = toks[j + 1:] if j is not None else None
            else:
                exp = toks[i + 1:]
            if exp is None:
                continue
            n = len(d)
            for cap, sc in (("slice", "-"), (str(n + 9), sched_str([1] * n)), (str(tg.atoms(d) + 1), sched_str([3] * (n // 3 + 1)))):
                cases.append("tr.skipuv\t%s\t%s\t%s\t%d" % (cap, sc, hexs(d), i + 1)); meta.append((d, i, exp, "skip_unquoted_value"))
    impl, _ = ctx.correspond("text_skip", cases, nontrivial=lambda c, i: i.startswith("SKIP"))
    base = len(impl) - len(cases)
    for k, (d, i, exp, fn) in enumerate(meta):
        o = impl[base + k]
        parts = o.split(" ")
        if not parts[0].startswith("SKIP@"):
            ctx.fail("text-skip-unquoted-special" if fn.endswith("*") else "text-skip-err", "%s after token %d of %r (%s): %s" % (fn, i, d, cases[k].split("\t")[1], o), [cases[k]], [o], "SKIP then " + " ".join(exp)); continue
        got = parts[1:-2]
        if (got != exp or parts[-2] != "END") and fn.endswith("*"):
            ctx.fail("text-skip-unquoted-special", "%s after token %d of %r (cap %s): the skipped container holds an unquoted token with a quote / brace / '#' byte inside; continues with %s, token counting says %s" % (fn, i, d, cases[k].split("\t")[1], " ".join(got[:6]), " ".join(exp[:6])), [cases[k]], [o], " ".join(exp))
        elif got != exp or parts[-2] != "END":
            ctx.fail("text-skip-lands", "%s after token %d of %r (cap %s) continues with %s, token counting says %s" % (fn, i, d, cases[k].split("\t")[1], " ".join(got[:6]), " ".join(exp[:6])), [cases[k]], [o], " ".join(exp))
    ctx.count("text_skip_cases", len(cases))

    # Known finding (Coq: C09_text_quote_in_word_refuted, C09_text_varexpr_brace_refuted): an unquoted token that
    # holds a double quote, and an interpolated expression @[..] that holds a brace, are ONE token for the tokenizer
    # but quote / brace bytes for skip_container, so the skip does not land where token counting lands.
    probes = [b'a={ x"y } z"w } q=1', b'a={ @[ } ] b } q=1']
    pcases = ["tr.slice\t%s" % hexs(d) for d in probes] + ["tr.skip\tslice\t-\t%s\t3" % hexs(d) for d in probes]
    p_impl, _ = ctx.correspond("text_skip_probe", pcases)
    pb = len(p_impl) - len(pcases)
    for j, d in enumerate(probes):
        S = split_out(p_impl[pb + j])
        o = p_impl[pb + len(probes) + j]
        if S is None:
            continue
        k = match_close(S[0], 2)
        exp = S[0][k + 1:] if k is not None else None
        parts = o.split(" ")
        got = parts[1:-2] if parts[0].startswith("SKIP@") else None
        if exp is not None and got != exp:
            ctx.fail("text-skip-unquoted-special", "skip_container after token 2 of %r continues with %s, token counting says %s" % (d, " ".join((got or [o])[:6]), " ".join(exp[:6])), [pcases[len(probes) + j]], [o], " ".join(exp))

