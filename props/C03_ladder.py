"""C03, wave 6 (s_c03): SIZE LADDERS.  One size-like dimension at a time on an otherwise small document,
along  0 1 2 3 7 8 9 15 16 17 31 32 33 63 64 65 127 128 129 255 256 257 1023 1024 1025 4095 4096 4097 65533 65534 65535 65536
(cut where the format bounds the dimension), every case with an EXPECTED TAPE BY CONSTRUCTION (the builder TB below
writes the bytes and the tape side by side; nothing of the implementation or of the model is consulted):

  runs      run length of every element kind in an array, behind the token / quoted / slow key, nested in an array and
            as the value of an object field (the three `parse_array_field!` loops, the i32 loop of the main match)
  breaks    a run of n, then what ends the loop: another scalar, a container, `k = v` (array turns mixed at element n:
            the only_empties scan walks n tokens), with a tail
  fields    number of `k = v` fields for 16 key x value kinds at the top level and inside an object
  ghosts    number of consecutive `{}`: leading in an object (dropped by only_empties), between / after fields, at the
            top level, before every field, kept ones (array of empties, `{ {}*n x }`, `{ {}*n x y = z }`)
  depth     nesting depth of arrays, of objects behind token / quoted / i32 keys, alternating, with a sibling after
            every close (state and parent restored at every level)
  mixed     length of the tail of a mixed container (bare scalars, `k = v` pairs), number of fields before an object
            turns mixed (mixed_insert1 / mixed_insert2)
  strings   payload length of a quoted / unquoted string 0..65535 in ten positions (u16 length prefix), truncated twins
  ids       EVERY token id 0..65535 that is not a lexeme id, in six positions (key, value, first / later array element,
            first key behind a quoted key, mixed tail); every bool byte
  capacity  the structural events of the C05 capacity sweep at long tapes: on a vector of chosen capacity (hook
            tape_with_capacity, kind bt.cap) with 0..3 spare slots, and on a fresh tape whose natural capacity
            max(len/5, 10) (and its double) is placed at the event by a padding string
  reuse     a used tape longer / shorter than the new parse (token counts over the ladder, both orders, after a failed
            parse), and the number of parses into one tape up to 300

Oracles (all on the implementation's outputs): lad-opt-not-expected / lad-ref-not-expected (tape by construction),
opt-ne-ref, tape-not-wf, tape-not-mirror / tape-not-subsequence (bt.mir, real Lexer), reuse-differs, lad-truncated-accepted.
The extracted model runs on every case up to a per-shape size (1025 tokens-ish for the primary shapes, 257 for the
others and for bt.mir); longer cases are model=False (the list-based model is quadratic) -- independent oracles only.
Release AND debug.
"""
import struct
from vlib import hexs

LADDER = [0, 1, 2, 3, 7, 8, 9, 15, 16, 17, 31, 32, 33, 63, 64, 65, 127, 128, 129, 255, 256, 257,
          1023, 1024, 1025, 4095, 4096, 4097, 65533, 65534, 65535, 65536]
SMALL = [n for n in LADDER if n <= 1025]
MID = [n for n in LADDER if n <= 4097]
HUGE = [65536]          # counts: one value beyond the u16 range (tape indices cross 65536 on the way)

_H = struct.Struct("<H").pack
_I = struct.Struct("<I").pack
_Q = struct.Struct("<Q").pack
OPEN, CLOSE, EQUAL = _H(3), _H(4), _H(1)
LEXEMES = (1, 3, 4, 0x0c, 0x0d, 0x0e, 0x0f, 0x14, 0x17, 0x167, 0x243, 0x29c, 0x317)
SAFE = [v for v in range(65536) if v not in LEXEMES]
PAT = bytes([3, 0, 4, 0, 1, 0, 0x0f, 0, 0x0c, 0, 0x61, 0xff, 0x17, 0, 0x82, 0x2d])
NPRE = 65600      # payloads are precomputed per kind for indices 0..NPRE


def _s32(v): return v - (1 << 32) if v >= (1 << 31) else v
def _s64(v): return v - (1 << 64) if v >= (1 << 63) else v


def payload(kind, i):
    """(bytes, tape token) of the i-th scalar of a kind: deterministic, extremes every fifth index"""
    if kind == "i32":
        v = [0, 0xffffffff, 0x7fffffff, 0x80000000][(i // 5) % 4] if i % 5 == 0 else (i * 2654435761 + 12345) & 0xffffffff
        return _H(0x0c) + _I(v), "I32:%d" % _s32(v)
    if kind == "u32":
        v = [0, 0xffffffff, 1, 0x80000000][(i // 5) % 4] if i % 5 == 0 else (i * 2246822519 + 99) & 0xffffffff
        return _H(0x14) + _I(v), "U32:%d" % v
    if kind == "u64":
        v = [0, (1 << 64) - 1, 1 << 63, 1 << 32][(i // 5) % 4] if i % 5 == 0 else (i * 0x9E3779B97F4A7C15 + 7) & ((1 << 64) - 1)
        return _H(0x29c) + _Q(v), "U64:%d" % v
    if kind == "i64":
        v = [0, (1 << 64) - 1, (1 << 63) - 1, 1 << 63][(i // 5) % 4] if i % 5 == 0 else (i * 0xD1B54A32D192ED03 + 5) & ((1 << 64) - 1)
        return _H(0x317) + _Q(v), "I64:%d" % _s64(v)
    if kind == "f32":
        s = _I((i * 2246822519 + 0x3f800000) & 0xffffffff)
        return _H(0x0d) + s, "F32:" + s.hex()
    if kind == "f64":
        s = _Q((i * 0x9E3779B97F4A7C15 + 0x3ff0000000000000) & ((1 << 64) - 1))
        return _H(0x167) + s, "F64:" + s.hex()
    if kind == "bool":
        b = [0, 1, 2, 255, i & 255][i % 5]
        return _H(0x0e) + bytes([b]), "B:%d" % (1 if b else 0)
    if kind in ("quoted", "unquoted"):
        ln = i % 5
        s = (PAT + PAT)[i % 16: i % 16 + ln]
        return _H(0x0f if kind == "quoted" else 0x17) + _H(ln) + s, ("Q:" if kind == "quoted" else "U:") + hexs(s)
    if kind == "id":
        v = SAFE[(i * 40503 + 17) % len(SAFE)]
        return _H(v), "T:%d" % v
    raise ValueError(kind)


_PRE = {}


def pre(kind):
    p = _PRE.get(kind)
    if p is None:
        bs, ts = [], []
        for i in range(NPRE):
            b, t = payload(kind, i)
            bs.append(b); ts.append(t)
        p = _PRE[kind] = (bs, ts)
    return p


class TB:
    """bytes and expected tape, written side by side"""
    def __init__(self):
        self.out = []
        self.toks = []

    # scalars
    def sc(self, kind, i=0):
        b, t = pre(kind)[0][i], pre(kind)[1][i]
        self.out.append(b); self.toks.append(t)

    def ident(self, v):
        self.out.append(_H(v)); self.toks.append("T:%d" % v)

    def string(self, kind, s):
        self.out.append(_H(0x0f if kind == "quoted" else 0x17) + _H(len(s)) + s)
        self.toks.append(("Q:" if kind == "quoted" else "U:") + hexs(s))

    def run(self, kind, n, i0=0):
        bs, ts = pre(kind)
        self.out.extend(bs[i0:i0 + n]); self.toks.extend(ts[i0:i0 + n])

    def rgb(self, i):
        cs = [(i * 7 + k * 50) & 255 for k in range(3)]
        a = None if i % 3 else (i * 11) & 255
        b = _H(0x243) + OPEN + b"".join(_H(0x14) + _I(c) for c in cs) + (b"" if a is None else _H(0x14) + _I(a)) + CLOSE
        self.out.append(b)
        self.toks.append("RGB:%d,%d,%d,%s" % (cs[0], cs[1], cs[2], "-" if a is None else str(a)))

    # structure
    def eq(self):                 # `=` between a key and its value: no token
        self.out.append(EQUAL)

    def eqm(self):                # `=` inside a mixed container
        self.out.append(EQUAL); self.toks.append("EQ")

    def mark(self):
        self.toks.append("M")

    def open(self):
        self.out.append(OPEN); self.toks.append(None)
        return len(self.toks) - 1

    def close(self, ind, obj):
        self.out.append(CLOSE)
        self.toks[ind] = "%s:%d" % ("O" if obj else "A", len(self.toks))
        self.toks.append("E:%d" % ind)

    def ghost(self, n=1):
        if n:
            self.out.append((OPEN + CLOSE) * n)

    def empties(self, n):
        """n empty containers that STAY on the tape"""
        base = len(self.toks)
        self.out.append((OPEN + CLOSE) * n)
        for k in range(n):
            self.toks.append("A:%d" % (base + 2 * k + 1)); self.toks.append("E:%d" % (base + 2 * k))

    def fields(self, kk, vk, n, i0=0):
        """n fields `k = v` with scalar keys and values"""
        kb, kt = pre(kk); vb, vt = pre(vk)
        j0 = i0 + 3
        self.out.extend(kb[i0 + x] + EQUAL + vb[j0 + x] for x in range(n))
        for x in range(n):
            self.toks.append(kt[i0 + x]); self.toks.append(vt[j0 + x])

    def mfields(self, kk, vk, n, i0=0):
        """n `k = v` inside a mixed container"""
        kb, kt = pre(kk); vb, vt = pre(vk)
        j0 = i0 + 3
        self.out.extend(kb[i0 + x] + EQUAL + vb[j0 + x] for x in range(n))
        for x in range(n):
            self.toks.append(kt[i0 + x]); self.toks.append("EQ"); self.toks.append(vt[j0 + x])

    def field(self, kk="id", vk="i32", i=0):
        self.sc(kk, i); self.eq(); self.sc(vk, i + 1)

    def build(self):
        return b"".join(self.out), ("OK " + " ".join(self.toks)).strip()


# ------------------------------------------------------------------ contexts: where a container `{ body }` stands
def in_ctx(c, body, n, after=True):
    """body(tb, n) writes the CONTENT of a container and returns True when the container is an object"""
    tb = TB()
    if c == "T":                                  # token key: the `id = {` fast path (primitive-array macro)
        tb.sc("id", 1); tb.eq(); i = tb.open(); o = body(tb, n); tb.close(i, o)
    elif c == "Q":                                # quoted key fast path
        tb.sc("quoted", 2); tb.eq(); i = tb.open(); o = body(tb, n); tb.close(i, o)
    elif c == "U":                                # a key without a fast path: `{` seen by the main match
        tb.sc("u32", 3); tb.eq(); i = tb.open(); o = body(tb, n); tb.close(i, o)
    elif c == "I":                                # i32 key fast path with a non-i32 value
        tb.sc("i32", 3); tb.eq(); i = tb.open(); o = body(tb, n); tb.close(i, o)
    elif c == "N":                                # element of an array, a sibling after it
        tb.sc("id", 1); tb.eq(); a = tb.open(); i = tb.open(); o = body(tb, n); tb.close(i, o); tb.sc("i32", 9); tb.close(a, False)
    elif c == "V":                                # value of a field of an object, a field after it
        tb.sc("id", 1); tb.eq(); a = tb.open(); tb.sc("id", 2); tb.eq(); i = tb.open(); o = body(tb, n); tb.close(i, o)
        tb.field("id", "i32", 5); tb.close(a, True)
    elif c == "F":                                # a field before it: the key of the container is read in state Key at depth 1
        tb.sc("id", 1); tb.eq(); a = tb.open(); tb.field("id", "quoted", 4); tb.sc("id", 2); tb.eq(); i = tb.open(); o = body(tb, n); tb.close(i, o)
        tb.field("quoted", "i32", 5); tb.close(a, True)
    else:
        raise ValueError(c)
    if after:
        tb.field("id", "i32", 7)
    return tb


OTHER = {"i32": "u32", "quoted": "unquoted", "f32": "f64", "id": "bool", "u32": "i32"}


def b_run(kind):
    def f(tb, n):
        tb.run(kind, n, 2)
        return False
    return f


def b_break(kind, how):
    def f(tb, n):
        tb.run(kind, n, 1)
        if how == "scalar":
            tb.sc(OTHER[kind], 4); tb.run(kind, 2, 6)
        elif how == "array":
            i = tb.open(); tb.close(i, False); tb.run(kind, 1, 6)
        elif how == "object":
            i = tb.open(); tb.field("id", "i32", 3); tb.close(i, True); tb.run(kind, 2, 6)
        elif how in ("eq", "eqtail", "eqkv"):
            if n == 0:                            # `{ k = v ... }` is an object
                tb.sc(kind, 8); tb.eq(); tb.sc(OTHER[kind], 9)
                if how == "eqkv":
                    tb.field(kind, "quoted", 11)
                    return True
                if how == "eqtail":               # `{ k = v x }`: mixed_insert1
                    tb.mark(); tb.sc(kind, 12)
                return True
            tb.mark(); tb.sc(kind, 8); tb.eqm(); tb.sc(OTHER[kind], 9)
            if how == "eqtail":
                tb.sc(kind, 12)
            if how == "eqkv":
                tb.sc(kind, 11); tb.eqm(); tb.sc("quoted", 12)
        return False
    return f


def b_fields(kk, vk):
    def f(tb, n):
        tb.fields(kk, vk, n, 1)
        return n > 0
    return f


def b_fields_cont(kk, what):
    """n fields whose value is a small container"""
    def f(tb, n):
        for x in range(n):
            tb.sc(kk, x % 900); tb.eq(); i = tb.open()
            if what == "empty":
                o = False
            elif what == "arr":
                tb.run("i32", 2, x % 900); o = False
            elif what == "objbool":
                tb.field("id", "bool", x % 900); o = True
            elif what == "objq":
                tb.field("id", "quoted", x % 900); o = True
            tb.close(i, o)
        return n > 0
    return f


def b_rgb(tb, n):
    for x in range(n):
        tb.sc("id", x % 900); tb.eq(); tb.rgb(x)
    return n > 0


def b_ghost(how, kk="id"):
    def f(tb, n):
        if how == "lead":                         # `{ {}*n k = v }`
            tb.ghost(n); tb.field(kk, "i32", 2); return True
        if how == "lead2":
            tb.ghost(n); tb.field(kk, "quoted", 2); tb.field("id", "i32", 6); return True
        if how == "between":
            tb.field(kk, "i32", 2); tb.ghost(n); tb.field(kk, "quoted", 6); return True
        if how == "trail":
            tb.field(kk, "i32", 2); tb.ghost(n); return True
        if how == "each":                         # a ghost before every further field
            tb.field(kk, "i32", 2)
            for x in range(n):
                tb.ghost(1 + x % 3); tb.field(kk, "i32", 3 + x % 900)
            return True
        if how == "kept":                         # `{ {}*n }`: an array of empty arrays
            tb.empties(n); return False
        if how == "keptx":                        # `{ {}*n x }`
            tb.empties(n); tb.sc(kk, 2); return False
        if how == "keptxy":                       # `{ {}*n x y = z }` (the shape of the former finding L)
            tb.empties(n); tb.sc(kk, 2); tb.mark(); tb.sc(kk, 3); tb.eqm(); tb.sc("i32", 4); return False
        if how == "keptxyz":                      # `{ {}*n x y z = w }`: an EVEN number of tokens after the empties
            tb.empties(n); tb.sc(kk, 2); tb.sc("i32", 5); tb.mark(); tb.sc(kk, 3); tb.eqm(); tb.sc("i32", 4); return False
        if how == "keptcont":                     # `{ {}*n { 1 } { 2 } k = v }`: non-empty containers after the empties
            tb.empties(n)
            for x in (1, 2):
                i = tb.open(); tb.sc("i32", x); tb.close(i, False)
            tb.mark(); tb.sc(kk, 3); tb.eqm(); tb.sc("quoted", 4); return False
        if how == "keptfirst":                    # `{ x {}*n y = z }`: the scan starts with a scalar
            tb.sc(kk, 2); tb.empties(n); tb.mark(); tb.sc(kk, 3); tb.eqm(); tb.sc("i32", 4); return False
        raise ValueError(how)
    return f


def b_mixed(how):
    def f(tb, n):
        if how == "tail":                         # `{ a b = c X*n }`
            tb.sc("id", 1); tb.mark(); tb.sc("id", 2); tb.eqm(); tb.sc("i32", 3); tb.run("i32", n, 4); return False
        if how == "tailq":
            tb.sc("quoted", 1); tb.mark(); tb.sc("quoted", 2); tb.eqm(); tb.sc("quoted", 3); tb.run("quoted", n, 4); return False
        if how == "kv":                           # `{ a b = c (k = v)*n }`
            tb.sc("i32", 1); tb.mark(); tb.sc("i32", 2); tb.eqm(); tb.sc("i32", 3); tb.mfields("id", "i32", n, 4); return False
        if how == "ins1":                         # `{ (k = v)*n x }`: mixed_insert1
            tb.fields("id", "i32", n, 1)
            if n:
                tb.mark()
            tb.sc("id", 7); return n > 0
        if how == "ins2":                         # `{ (k = v)*n x y }`: mixed_insert2 at the close
            tb.fields("id", "quoted", n, 1)
            if n:
                tb.mark()
            tb.sc("id", 7); tb.sc("i32", 8); return n > 0
        if how == "ins2eq":                       # `{ (k = v)*n x y = z w }`: mixed_insert2 at the `=`
            tb.fields("quoted", "i32", n, 1)
            if n:
                tb.mark(); tb.sc("id", 7)
            else:
                tb.sc("id", 7); tb.mark()
            tb.sc("id", 8); tb.eqm(); tb.sc("i32", 9); tb.sc("u32", 10); return n > 0
        if how == "objtail":                      # `{ k = v x y Z*n }`
            tb.field("id", "i32", 1); tb.mark(); tb.sc("id", 7); tb.sc("id", 8); tb.run("f32", n, 9); return True
        raise ValueError(how)
    return f


def d_nest(how, n, siblings=True):
    """n containers inside one another; with `siblings` something follows every close, one level up"""
    tb = TB()
    def is_obj(lv):
        if how == "arr":
            return False
        if how == "alt":                          # even levels hold a bare container (arrays), odd levels hold `k = {`
            return lv % 2 == 1
        return True
    inds = []
    for lv in range(n):
        x = lv % 900
        if how == "arr":
            if lv == 0:
                tb.sc("id", 1); tb.eq()
        elif how == "obj":
            tb.sc("id", x); tb.eq()
        elif how == "objq":
            tb.sc("quoted", 1 + x); tb.eq()
        elif how == "obji":
            tb.sc("i32", x); tb.eq()
        elif how == "objf":                       # a field first: the nested key is read in state Key (fast paths at every depth)
            if lv > 0:
                tb.field("id", "i32", x)
            tb.sc(("id", "quoted", "i32")[lv % 3], x + 1); tb.eq()
        elif how == "alt":
            if lv == 0 or is_obj(lv - 1):
                tb.sc("id", x); tb.eq()
        else:
            raise ValueError(how)
        inds.append(tb.open())
    if n:                                         # the innermost content
        if is_obj(n - 1):
            tb.field("id", "i32", 3)
        else:
            tb.run("i32" if how == "arr" else "quoted", 2, 1)
    for lv in range(n - 1, -1, -1):
        tb.close(inds[lv], is_obj(lv))
        if siblings and lv > 0:
            if is_obj(lv - 1):
                tb.field(("id", "quoted", "i32")[lv % 3], "i32", lv % 900)
            else:
                tb.sc(("i32", "quoted", "id")[lv % 3], lv % 900)
    tb.field("id", "i32", 7)
    return tb


# ------------------------------------------------------------------ the case list
class Case:
    __slots__ = ("dim", "n", "line", "exp", "model", "mirror", "bytes")

    def __init__(self, dim, n, data, exp, model, mirror=True, kind="bt.all", pre=""):
        self.dim, self.n, self.exp, self.model, self.mirror = dim, n, exp, model, mirror
        self.bytes = data
        self.line = kind + "\t" + pre + hexs(data)


MODEL_BYTES = 1600     # the list-based model is quadratic: beyond this size only the shapes / sizes named in `mset`


def count_cases():
    """shapes: (dimension, name, n -> TB, ladder, sizes beyond MODEL_BYTES that the model still runs)"""
    S = []
    FAST = ("i32", "quoted", "f32", "id")
    ALL3 = (1023, 1024, 1025)
    REST = SMALL + [4096]
    # the loops of the fast paths start after the first one / two elements: a bound of 2^k rounds inside such a loop is
    # first exceeded at 2^k + 2 or 2^k + 3 elements
    OFF = [258, 259, 1026, 1027, 4098, 4099]
    for k in FAST:
        S.append(("run", "run_%s_T" % k, (lambda n, k=k: in_ctx("T", b_run(k), n)), sorted(MID + OFF) + HUGE, ALL3))
        for c in ("Q", "N"):
            S.append(("run", "run_%s_%s" % (k, c), (lambda n, k=k, c=c: in_ctx(c, b_run(k), n)), sorted(MID + OFF) + (HUGE if k == "i32" else []), ()))
        for c in ("U", "I", "V", "F"):
            S.append(("run", "run_%s_%s" % (k, c), (lambda n, k=k, c=c: in_ctx(c, b_run(k), n)), REST, ()))
    for k in ("u32", "u64", "i64", "bool", "unquoted", "f64"):
        S.append(("run", "run_%s_T" % k, (lambda n, k=k: in_ctx("T", b_run(k), n)), REST, ()))
    for k in FAST:
        for how in ("scalar", "array", "object", "eq", "eqtail", "eqkv"):
            S.append(("break", "break_%s_%s" % (k, how), (lambda n, k=k, how=how: in_ctx("T", b_break(k, how), n)),
                      (MID + HUGE) if how == "eq" else (MID if how == "scalar" else REST), ALL3 if how == "eq" and k in ("i32", "id") else ()))
        S.append(("break", "break_%s_eq_N" % k, (lambda n, k=k: in_ctx("N", b_break(k, "eqkv"), n)), REST, ()))
        S.append(("break", "break_%s_scalar_Q" % k, (lambda n, k=k: in_ctx("Q", b_break(k, "scalar"), n)), REST, ()))
    PAIRS = [("id", "i32"), ("id", "quoted"), ("id", "f32"), ("id", "id"), ("id", "bool"), ("id", "u32"), ("id", "unquoted"),
             ("quoted", "quoted"), ("quoted", "i32"), ("quoted", "id"), ("i32", "i32"), ("i32", "quoted"), ("u32", "u32"),
             ("unquoted", "unquoted"), ("f32", "f64"), ("bool", "i64"), ("u64", "id"), ("i64", "i32")]
    for kk, vk in PAIRS:
        prim = (kk, vk) in (("id", "i32"), ("quoted", "quoted"), ("i32", "i32"), ("u32", "u32"))
        def top(n, kk=kk, vk=vk):
            tb = TB(); tb.fields(kk, vk, n, 1); return tb
        S.append(("fields", "top_%s_%s" % (kk, vk), top, (MID + HUGE) if prim else REST, (1024,) if (kk, vk) == ("id", "i32") else ()))
    for kk, vk in PAIRS[:10:3] + [("i32", "i32"), ("quoted", "quoted")]:
        for c in ("T", "Q"):
            S.append(("fields", "obj_%s_%s_%s" % (kk, vk, c), (lambda n, kk=kk, vk=vk, c=c: in_ctx(c, b_fields(kk, vk), n)), MID if c == "T" else REST, ()))
    for kk in ("id", "quoted"):
        for what in ("empty", "arr", "objbool", "objq"):
            def topc(n, kk=kk, what=what):
                tb = TB(); b_fields_cont(kk, what)(tb, n); return tb
            S.append(("fields", "topcont_%s_%s" % (kk, what), topc, REST, ()))
    def toprgb(n):
        tb = TB(); b_rgb(tb, n); return tb
    S.append(("fields", "top_rgb", toprgb, REST, ()))
    S.append(("fields", "obj_rgb", (lambda n: in_ctx("T", b_rgb, n)), REST, ()))
    for how in ("lead", "lead2", "between", "trail", "each", "kept", "keptx", "keptxy", "keptxyz", "keptcont", "keptfirst"):
        for kk in (("id", "quoted", "i32", "u32") if how == "lead" else ("id",)):
            for c in (("T", "Q", "N", "V") if how in ("lead", "kept", "keptxy", "keptxyz") else ("T",)):
                big = how in ("lead", "keptxy", "between") and kk == "id" and c == "T"
                S.append(("ghosts", "ghost_%s_%s_%s" % (how, kk, c), (lambda n, how=how, kk=kk, c=c: in_ctx(c, b_ghost(how, kk), n)),
                          (MID + HUGE) if big else (MID if c == "T" else REST), ALL3 if how == "lead" and big else ()))
    def topghost(n, trail=False):
        tb = TB(); tb.field("id", "i32", 1); tb.ghost(n)
        if not trail:
            tb.field("quoted", "i32", 4)
        return tb
    S.append(("ghosts", "ghost_top_between", topghost, MID + HUGE, ()))
    S.append(("ghosts", "ghost_top_trail", (lambda n: topghost(n, True)), MID, ()))
    for how in ("arr", "obj", "objq", "obji", "objf", "alt"):
        S.append(("depth", "depth_%s" % how, (lambda n, how=how: d_nest(how, n)), (MID + HUGE) if how in ("arr", "obj", "objf") else REST, (1024,) if how == "arr" else ()))
        S.append(("depth", "depth_%s_bare" % how, (lambda n, how=how: d_nest(how, n, False)), REST, ()))
    for how in ("tail", "tailq", "kv", "ins1", "ins2", "ins2eq", "objtail"):
        for c in ("T", "Q"):
            S.append(("mixed", "mixed_%s_%s" % (how, c), (lambda n, how=how, c=c: in_ctx(c, b_mixed(how), n)),
                      (MID + HUGE) if c == "T" and how in ("tail", "ins1") else (MID if c == "T" else REST), ()))
    out = []
    for dim, name, mk, ladder, mset in S:
        for n in ladder:
            data, exp = mk(n).build()
            out.append(Case(dim + ":" + name, n, data, exp, len(data) <= MODEL_BYTES or n in mset))
    return out


def string_cases():
    out = []
    # u16 length prefix: the ladder cut at 65535, plus the signed-16-bit boundary
    lens = sorted([n for n in LADDER if n <= 65535] + [32767, 32768])
    def pay(ln, salt):
        return ((PAT[salt % 16:] + PAT) * (ln // 16 + 2))[:ln]
    for pos in ("qkey", "ukey", "qval", "uval", "first", "later", "qobj", "slowval", "mixtail", "keycont", "last"):
        for ln in lens:
            tb = TB()
            s = pay(ln, ln)
            if pos == "qkey":
                tb.string("quoted", s); tb.eq(); tb.sc("i32", 1)
            elif pos == "ukey":
                tb.string("unquoted", s); tb.eq(); tb.sc("quoted", 1)
            elif pos == "qval":
                tb.sc("id", 1); tb.eq(); tb.string("quoted", s)
            elif pos == "uval":
                tb.sc("id", 1); tb.eq(); tb.string("unquoted", s)
            elif pos == "first":
                tb.sc("id", 1); tb.eq(); i = tb.open(); tb.string("quoted", s); tb.sc("quoted", 3); tb.close(i, False)
            elif pos == "later":
                tb.sc("id", 1); tb.eq(); i = tb.open(); tb.sc("quoted", 3); tb.sc("quoted", 4); tb.string("quoted", s); tb.sc("quoted", 2); tb.close(i, False)
            elif pos == "qobj":
                tb.sc("quoted", 1); tb.eq(); i = tb.open(); tb.sc("id", 2); tb.eq(); tb.string("quoted", s); tb.field("id", "bool", 3); tb.close(i, True)
            elif pos == "slowval":
                tb.sc("u32", 1); tb.eq(); tb.string("quoted", s)
            elif pos == "mixtail":
                tb.sc("id", 1); tb.eq(); i = tb.open(); tb.sc("i32", 1); tb.mark(); tb.sc("i32", 2); tb.eqm(); tb.string("unquoted", s); tb.string("quoted", s[: ln // 2]); tb.close(i, False)
            elif pos == "keycont":
                tb.string("quoted", s); tb.eq(); i = tb.open(); tb.sc("id", 2); tb.eq(); tb.string("quoted", s[:ln % 7]); tb.close(i, True)
            elif pos == "last":
                tb.sc("id", 1); tb.eq(); tb.string("quoted", s)
            if pos != "last":
                tb.field("id", "i32", 7)
            data, exp = tb.build()
            m = ln <= 4097 or pos in ("qkey", "qval", "first", "mixtail")
            out.append(Case("strlen:" + pos, ln, data, exp, m))
            if pos == "last" and ln > 0:
                # the same input one byte short: the length prefix points past the end
                out.append(Case("strlen:truncated", ln, data[:-1], "ERR", ln <= 4097, mirror=False))
    # runs of strings that are long themselves
    for ln in (255, 256, 257):
        for n in (3, 300):
            tb = TB(); tb.sc("id", 1); tb.eq(); i = tb.open()
            for x in range(n):
                tb.string("quoted", pay(ln, x))
            tb.close(i, False); tb.field("id", "i32", 7)
            data, exp = tb.build()
            out.append(Case("strlen:run%d" % n, ln, data, exp, n <= 3))
    return out


def id_cases():
    """every token id that is not a lexeme id, in six positions; packed `chunk` ids to a document"""
    out = []
    def docs(ids, pos):
        tb = TB()
        if pos == "key":                          # `id = i32` : token key fast path
            for x, v in enumerate(ids):
                tb.ident(v); tb.eq(); tb.sc(("i32", "quoted", "f32", "u32")[x % 4], x % 900)
        elif pos == "val":                        # `k = id`
            for x, v in enumerate(ids):
                tb.sc(("id", "quoted", "i32", "u32")[x % 4], x % 900); tb.eq(); tb.ident(v)
        elif pos == "first":                      # `k = { id }`, `k = { id id }`, `k = { id = v }` : 4th branch of the macro
            for x, v in enumerate(ids):
                tb.sc("id", x % 900); tb.eq(); i = tb.open(); tb.ident(v)
                if x % 3 == 1:
                    tb.ident(ids[x - 1])
                if x % 3 == 2:
                    tb.eq(); tb.sc("i32", x % 900)
                tb.close(i, x % 3 == 2)
        elif pos == "qfirst":                     # `"q" = { id = v }` / `"q" = { id }`: quoted key fast path
            for x, v in enumerate(ids):
                tb.sc("quoted", 1 + x % 900); tb.eq(); i = tb.open(); tb.ident(v)
                if x % 3 != 1:
                    tb.eq(); tb.sc(("bool", "i32", "quoted")[x % 3], x % 900)
                tb.close(i, x % 3 != 1)
        elif pos == "elem":                       # later elements of one array
            tb.sc("id", 1); tb.eq(); i = tb.open(); tb.sc("u32", 1)
            for v in ids:
                tb.ident(v)
            tb.close(i, False)
        elif pos == "mixed":                      # in the tail of a mixed container, as bare value, key and value
            tb.sc("id", 1); tb.eq(); i = tb.open(); tb.sc("i32", 1); tb.mark(); tb.sc("i32", 2); tb.eqm(); tb.sc("i32", 3)
            for x, v in enumerate(ids):
                tb.ident(v)
                if x % 3 == 1:
                    tb.eqm(); tb.sc("i32", x % 900)
                if x % 3 == 2:
                    tb.eqm(); tb.ident(ids[x - 1])
            tb.close(i, False)
        return tb.build()
    small = [v for v in SAFE if v < 0x400 or 0x7f80 <= v < 0x8080 or v >= 0xff00]
    for pos in ("key", "val", "first", "qfirst", "elem", "mixed"):
        for k in range(0, len(small), 128):
            ids = small[k:k + 128]
            if pos == "val":
                ids = [v for v in ids]            # 0x243 is not in SAFE: an RGB id in value position opens an rgb block
            data, exp = docs(ids, pos)
            out.append(Case("ids:" + pos, ids[0], data, exp, True))
        for k in range(0, len(SAFE), 4096):
            ids = SAFE[k:k + 4096]
            data, exp = docs(ids, pos)
            out.append(Case("ids:" + pos + "_all", ids[0], data, exp, False))
    # every bool byte, as a value and as an array element
    tb = TB()
    for b in range(256):
        tb.sc("id", b); tb.eq(); tb.out.append(_H(0x0e) + bytes([b])); tb.toks.append("B:%d" % (1 if b else 0))
    tb.sc("id", 1); tb.eq(); i = tb.open()
    for b in range(256):
        tb.out.append(_H(0x0e) + bytes([b])); tb.toks.append("B:%d" % (1 if b else 0))
    tb.close(i, False)
    data, exp = tb.build()
    out.append(Case("ids:boolbytes", 256, data, exp, True))
    return out


def natural_cap_cases():
    """a fresh tape reserves max(len/5, 10) and doubles: the padding string at the END of the input sets len so that the
    capacity (or its double) is t+s when the structural event happens at tape length t (s = 0..3 spare slots)"""
    out = []
    for n in (3, 7, 8, 9, 15, 16, 17, 31, 32, 33, 63, 64, 65, 127, 128, 129, 255, 256, 257, 1023, 1024, 1025, 4095, 4096, 4097):
        for shape in ("mix", "ghost", "ins1", "ins2", "close", "nest"):
            for mult in (1, 2):
                for s in (0, 1, 2, 3):
                    tb = TB(); tb.sc("id", 1); tb.eq(); i = tb.open()
                    if shape == "mix":            # `=` in ArrayValue: reserve(2), pop, three raw writes
                        tb.run("id", n, 2); tb.mark(); tb.sc("id", 1); tb.eqm(); tb.sc("id", 2); o = False; t = n + 3
                    elif shape == "ghost":        # only_empties: raw write at parent+1, set_len; the ghosts are on the tape when `=` arrives
                        tb.ghost(n); tb.field("id", "id", 3); o = True; t = 2 * n + 3
                    elif shape == "ins1":
                        tb.fields("id", "id", n // 2, 2); tb.mark(); tb.sc("id", 1); o = True; t = 2 + 2 * (n // 2) + 1
                    elif shape == "ins2":
                        tb.fields("id", "id", n // 2, 2); tb.mark(); tb.sc("id", 1); tb.sc("id", 2); o = True; t = 2 + 2 * (n // 2) + 2
                    elif shape == "close":        # the End of a primitive array
                        tb.run("id", n, 2); o = False; t = n + 2
                    elif shape == "nest":         # Array pushed at the event
                        tb.run("id", n, 2); j = tb.open(); tb.close(j, False); o = False; t = n + 2
                    tb.close(i, o)
                    base = sum(len(x) for x in tb.out) + 2 + 2 + 4      # + `id = "pad"`
                    want = t + s
                    if want % mult:
                        continue
                    L = 5 * (want // mult)
                    if L < base or L - base > 65535:
                        continue
                    tb.sc("id", 5); tb.eq(); tb.string("quoted", b"p" * (L - base))
                    data, exp = tb.build()
                    assert len(data) == L
                    out.append(Case("capacity:natural_%s_x%d" % (shape, mult), n, data, exp, len(data) <= 600))
    return out


def hook_cap_cases():
    """bt.cap <c0> <hex>: the C05 shapes at long tapes, c0 = tokens on the tape at the event + 0..3"""
    out = []
    for n in (15, 16, 17, 31, 32, 33, 63, 64, 65, 127, 128, 129, 255, 256, 257, 1023, 1024, 1025, 4095, 4096, 4097):
        # only tokens of fewer than 5 bytes can outrun the initial reserve(len / 5): ids, `{ } =`, bools
        for e in ("id", "bool"):
            for shape in range(8):
                if e != "id" and shape not in (0, 1, 6):
                    continue
                tb = TB(); tb.sc("id", 1); tb.eq()
                if shape == 0:                    # `id = { e*n k = v }`
                    i = tb.open(); tb.run(e, n, 2); tb.mark(); tb.sc("id", 1); tb.eqm(); tb.sc(e, 2); tb.close(i, False); t = n + 3
                elif shape == 1:                  # `id = { {} e*n k = v }`
                    i = tb.open(); tb.empties(1); tb.run(e, n, 2); tb.mark(); tb.sc("id", 1); tb.eqm(); tb.sc(e, 2); tb.close(i, False); t = n + 5
                elif shape == 2:
                    i = tb.open(); tb.run(e, n, 2); tb.close(i, False); t = n + 2
                elif shape == 3:
                    i = tb.open(); tb.fields("id", e, n, 2); tb.close(i, n > 0); t = 2 * n + 2
                elif shape == 4:
                    tb.sc(e, 0); tb.fields("id", e, n, 2); t = 2 * n + 2
                elif shape == 5:                  # `id = { {}*n k = v }`
                    i = tb.open(); tb.ghost(n); tb.field("id", e, 2); tb.close(i, True); t = 2 * n + 3
                elif shape == 6:                  # mixed_insert1
                    i = tb.open(); tb.fields("id", e, n, 2); tb.mark(); tb.sc(e, 1); tb.close(i, True); t = 2 * n + 3
                elif shape == 7:                  # mixed_insert2
                    i = tb.open(); tb.fields("id", e, n, 2); tb.mark(); tb.sc(e, 1); tb.sc(e, 2); tb.sc(e, 3); tb.close(i, True); t = 2 * n + 4
                data, exp = tb.build()
                for c0 in (0, t - 1, t, t + 1, t + 2, t + 3):
                    out.append(Case("capacity:hook_%d_%s" % (shape, e), n, data, exp, False, mirror=False, kind="bt.cap", pre="%d\t" % c0))
    return out


def simple_doc(n, salt=0):
    """a document whose tape has about n tokens (exactly n for even n >= 0: n/2 fields)"""
    tb = TB(); tb.fields(("id", "quoted", "i32")[salt % 3], ("i32", "quoted", "id")[salt % 3], n // 2, salt)
    if n % 2:                                     # an odd count: a container `k = { }` costs three tokens
        tb.sc("id", 1); tb.eq(); i = tb.open(); tb.close(i, False)
    return tb.build()[0]


def chain_cases():
    """(line, model?): a tape that held a tokens receives a parse of b tokens, every ordered pair"""
    out = []
    sizes = [0, 2, 3, 10, 11, 12, 64, 65, 256, 257, 1024, 4097, 65536]
    bad = [b"\x03\x00", _H(0x2d82) + EQUAL + OPEN + _H(0x2d83), simple_doc(300)[:-3], simple_doc(4096) + OPEN]
    for a in sizes:
        for b in sizes:
            if a == b and a > 300:
                continue
            if max(a, b) > 5000 and min(a, b) not in (0, 11, 4097):
                continue
            d1, d2 = simple_doc(a, 1), simple_doc(b, 2)
            out.append(("bt.chain\t%s;%s" % (hexs(d1), hexs(d2)), max(a, b) <= 300))
            if (a + b) % 5 == 0 and max(a, b) < 5000:      # three parses: the tape grows, shrinks, grows
                out.append(("bt.chain\t%s;%s;%s" % (hexs(d2), hexs(d1), hexs(d2)), max(a, b) <= 300))
    for x in bad:                                   # a failed parse leaves its partial tape behind
        for b in (0, 2, 10, 300, 4097):
            out.append(("bt.chain\t%s;%s" % (hexs(x), hexs(simple_doc(b, 1))), b <= 300))
            out.append(("bt.chain\t%s;%s;%s" % (hexs(simple_doc(b, 2)), hexs(x), hexs(simple_doc(b, 1))), b <= 300))
    # number of parses into one tape
    for k in (7, 8, 9, 15, 16, 17, 31, 32, 33, 63, 64, 65, 127, 128, 129, 255, 256, 257, 300):
        parts = [hexs(simple_doc((7 * j) % 23, j)) if j % 5 else hexs(bad[j % 2]) for j in range(k)]
        parts[-1] = hexs(simple_doc(12, k))
        out.append(("bt.chain\t" + ";".join(parts), True))
    return out


# ------------------------------------------------------------------ running
def spread(cases, weight, shards=16):
    """order the cases so that contiguous chunks (vlib shards) carry about the same weight; returns (ordered, perm)"""
    idx = sorted(range(len(cases)), key=lambda k: -weight(cases[k]))
    bins = [[] for _ in range(shards)]
    load = [0] * shards
    size = (len(cases) + shards - 1) // shards
    for k in idx:
        cand = [b for b in range(shards) if len(bins[b]) < size]
        b = min(cand, key=lambda b: load[b])
        bins[b].append(k); load[b] += weight(cases[k])
    perm = [k for b in bins for k in b]
    return [cases[k] for k in perm], perm


def cap_strip(side):
    """'OK ... cap=N' -> 'OK ...'"""
    p = side.rfind(" cap=")
    return side[:p] if p >= 0 else side


def judge_all(ctx, judge, C03, cases, impl, prof):
    """the oracles on one profile's outputs of `cases` (bt.all / bt.cap lines)"""
    for c, o in zip(cases, impl):
        if c.line.startswith("bt.cap"):
            p = o.split(" | ")
            if len(p) != 2 or not p[0].startswith("opt=") or not p[1].startswith("ref="):
                judge.add("crash", "binary tape parser on a vector of chosen capacity (%s build): %s" % (prof, o[:80]), c.line, o, "opt=.. | ref=..")
                continue
            opt, ref = cap_strip(p[0][4:]), cap_strip(p[1][4:])
            if opt != ref:
                judge.add("opt-ne-ref", "optimised and reference binary tape parsers disagree (%s build, %s)" % (prof, c.dim), c.line, o, "opt = ref")
        else:
            s = C03.split_all(o)
            if s is None:
                judge.add("crash", "binary tape parser (%s build, %s = %d): %s" % (prof, c.dim, c.n, o[:80]), c.line, o, "opt=.. | ref=.. | wf=..")
                continue
            opt, ref, wf = s
            if "n" in wf or "p" in wf:
                judge.add("tape-not-wf", "accepted tape is not structurally sound (wf=%s, %s build, %s = %d)" % (wf, prof, c.dim, c.n), c.line, o, "wf=y")
            if opt != ref:
                judge.add("opt-ne-ref", "optimised and reference binary tape parsers disagree (%s build, %s = %d)" % (prof, c.dim, c.n), c.line, o, "opt = ref")
        if c.exp == "ERR":
            if opt != "ERR" or ref != "ERR":
                judge.add("lad-truncated-accepted", "a string whose length prefix points past the end of the input was accepted (%s build, length %d)" % (prof, c.n), c.line, o[:300], "ERR")
            continue
        if ref.strip() != c.exp:
            judge.add("lad-ref-not-expected", "size ladder %s = %d (%s build): the reference parse is not the stream's tape" % (c.dim, c.n, prof), c.line, o[:2000], c.exp[:2000])
        if opt.strip() != c.exp:
            judge.add("lad-opt-not-expected", "size ladder %s = %d (%s build): the optimised parse is not the stream's tape" % (c.dim, c.n, prof), c.line, o[:2000], c.exp[:2000])


def judge_mirror(judge, lines, impl, prof):
    for c, o in zip(lines, impl):
        p = o.split(" ")
        if len(p) != 2 or not p[0].startswith("opt=") or not p[1].startswith("ref="):
            judge.add("crash", "bt.mir (%s build): %s" % (prof, o[:80]), c, o, "opt=.. ref=..")
            continue
        for which, f in (("optimised", p[0][4:]), ("reference", p[1][4:])):
            if f == "yy":
                continue
            if f == "--":
                judge.add("lad-rejected", "%s parser rejected a well-formed ladder document (%s build)" % (which, prof), c, o, "yy")
            elif f == "xx":
                judge.add("tape-of-untokenizable", "%s parser accepted an input that the lexer cannot tokenize" % which, c, o, "rejected")
            elif f[1] != "y":
                judge.add("tape-not-subsequence", "%s tape holds a token that is not in the lexer's token stream at that place (%s build)" % (which, prof), c, o, "?y")
            else:
                judge.add("tape-not-mirror", "%s tape differs from the lexer's token stream by more than deleted `{ }` pairs (%s build)" % (which, prof), c, o, "yy")


def judge_chain(judge, lines, impl, prof):
    for c, o in zip(lines, impl):
        p = o.split(" | ")
        if len(p) != 4 or not p[0].startswith("a=") or not p[2].startswith("fo=") or not p[3].startswith("fr="):
            judge.add("crash", "bt.chain (%s build): %s" % (prof, o[:80]), c, o[:300], "a=.. | b=.. | fo=.. | fr=..")
            continue
        a, b, fo, fr = p[0][2:], p[1][2:], p[2][3:], p[3][3:]
        odd = len(c.split("\t")[1].split(";")) % 2 == 1
        if (a, b) != ((fo, fr) if odd else (fr, fo)):
            judge.add("reuse-differs", "parsing into a previously used tape (longer / shorter than the new parse, %s build) differs from parsing the same input into a fresh one" % prof, c, o[:2000], "a, b = fresh")
        if fo != fr:
            judge.add("opt-ne-ref", "optimised and reference binary tape parsers disagree (%s build, last input of a chain)" % prof, c, o[:2000], "opt = ref")


def run_stream(ctx, name, lines, model, profile, weight=len):
    """ctx.correspond on a weight-balanced order; outputs returned in the order of `lines`"""
    if not lines:
        return []
    ordered, perm = spread(lines, weight)
    impl, _ = ctx.correspond(name, ordered, nontrivial=lambda c, o: "OK" in o or "y" in o, profile=profile, model=model)
    base = len(impl) - len(ordered)
    back = [None] * len(lines)
    for pos, k in enumerate(perm):
        back[k] = impl[base + pos]
    return back


def run_ladders(ctx, judge, C03):
    cases = count_cases() + string_cases() + id_cases() + natural_cap_cases() + hook_cap_cases()
    for c in cases:
        ctx.count("ladder_" + c.dim.split(":")[0])
    ctx.count("ladder_cases", len(cases))
    ctx.count("ladder_max_bytes", max(len(c.bytes) for c in cases))
    small = [c for c in cases if c.model]
    big = [c for c in cases if not c.model]
    w = lambda l: len(l) * len(l)
    # 1. release, with the model where it is fast enough
    o_small = run_stream(ctx, "ladder", [c.line for c in small], True, "release", w)
    judge_all(ctx, judge, C03, small, o_small, "release")
    o_big = run_stream(ctx, "ladder_long", [c.line for c in big], False, "release", len)
    judge_all(ctx, judge, C03, big, o_big, "release")
    # 2. debug (overflow checks, debug_assert!), independent oracles only
    if "debug" in C03.PROFILES:
        # everything up to 1025, 4096, the longest case of every shape, every string length
        top = {}
        for c in cases:
            top[c.dim] = max(top.get(c.dim, 0), c.n)
        dbg = [c for c in cases if c.n <= 1025 or c.n == 4096 or c.dim.startswith("strlen") or c.n == top[c.dim]]
        o_dbg = run_stream(ctx, "ladder_debug", [c.line for c in dbg], False, "debug", len)
        judge_all(ctx, judge, C03, dbg, o_dbg, "debug")
    # 3. mirror against the real Lexer (redundant with the expected tape, but through the real token stream): every
    #    ladder document up to 30000 bytes and the longest one of every dimension; the long ones on a big stack (bt.mirl)
    mir = [c for c in cases if c.mirror and c.exp != "ERR"]
    longest = {}
    for c in mir:
        d = c.dim.split(":")[0]
        if d not in longest or len(c.bytes) > len(longest[d].bytes):
            longest[d] = c
    keep = set(id(c) for c in longest.values())
    mir = [c for c in mir if len(c.bytes) <= 30000 or id(c) in keep or c.dim in ("ghosts:ghost_lead_id_T", "depth:depth_arr", "depth:depth_objf")]
    ml = ["bt.mirl\t" + hexs(c.bytes) for c in mir]
    judge_mirror(judge, ml, run_stream(ctx, "ladder_mirror", ml, False, "release", len), "release")
    # 4. used tapes longer / shorter than the new parse; long histories
    ch = chain_cases()
    cs = [l for l, m in ch if m]
    cl = [l for l, m in ch if not m]
    judge_chain(judge, cs, run_stream(ctx, "ladder_chain", cs, True, "release", w), "release")
    judge_chain(judge, cl, run_stream(ctx, "ladder_chain_long", cl, False, "release", len), "release")
    if "debug" in C03.PROFILES:
        al = cs + [l for l in cl if len(l) < 400000]
        judge_chain(judge, al, run_stream(ctx, "ladder_chain_debug", al, False, "debug", len), "debug")
    ctx.count("ladder_chain_cases", len(ch))
