"""C06, wave-4 additions (a_c06): oracles that are independent of the models.

text   * `tt.ptr` / `tt.ptr_reuse`: TextTapeParser::new().parse_slice (cross-checked against from_slice inside the
         harness) and parse_slice_into_tape on a used tape; every scalar comes with its POINTER offset relative to
         the input slice.  Oracle: inside the slice, bytes equal input[off..off+len), start offsets strictly
         increasing, a Quoted scalar sits between two '"', a parameter between `[[` / `[[!` and `]`; plus the
         structural checker (tapewf.check_tape).
       * inputs: byte-level mutants of rendered documents (mostly accepted), end-of-input classes (exactly one /
         several unclosed containers, stray closers), reused tapes.
binary * an independent lexer of the wire format (ids and payload widths from the format description) re-reads every
         accepted input: the payload tokens of the tape (numbers, floats, bools, strings, ids, rgb), in order, must
         be exactly the payload lexemes of the input in order (so each payload equals the input bytes at its
         position), for the optimised and the reference tape of every C03 stream and for `bt.ptr` / `bt.ptr_reuse`
         (BinaryTapeParser.parse_slice, parse_slice_into_tape on a used tape) where every string also carries its
         pointer offset, which must be the lexer's payload offset.
       * inputs: payload/id/ghost/token-level mutants of documents (mostly accepted).
checkers * the four structural checkers (Rust `wf` of fam_bintape.rs, Coq BinTapeWf.tape_wfb, Coq TextTapeWf.tape_wfb,
         Python tapewf.check_tape) must give the same verdict on every token shape of length <= 4 over
         {scalar, A:k, E:k} (k <= 4) and on mutated real tapes -- sound AND unsound ones.
"""
import struct
import itertools
import vlib
from vlib import hexs, unhex
from props import textdoc as td, textgen as tg, tapewf
from props import C03 as B

SCALAR_TAGS = "UQPNH"


# ------------------------------------------------------------------------------------------ text
def split_ptr_tokens(s):
    """tokens of a tt.ptr line -> (plain tokens, [(tape index, tag, offset or None, bytes)])"""
    plain, scal = [], []
    if s in ("-", ""):
        return plain, scal
    for i, t in enumerate(s.split(" ")):
        if len(t) > 1 and t[0] in SCALAR_TAGS and t[1] == "@":
            head, h = t.split(":", 1)
            off = head[2:]
            scal.append((i, t[0], None if off == "X" else int(off), unhex(h)))
            plain.append("%s:%s" % (t[0], h))
        else:
            plain.append(t)
    return plain, scal


def check_text_ptr(scal, data):
    """None if every scalar is a slice of the input at its pointer offset, starts strictly increasing"""
    prev = -1
    for (i, tag, off, b) in scal:
        if off is None:
            return "token %d: scalar %r does not point into the input slice" % (i, b)
        if off + len(b) > len(data) or data[off:off + len(b)] != b:
            return "token %d: scalar %r is not input[%d..%d)" % (i, b, off, off + len(b))
        if off <= prev:
            return "token %d: scalar starts at %d, not after the previous scalar's start %d" % (i, off, prev)
        if tag == "Q" and not (off >= 1 and data[off - 1] == 0x22 and off + len(b) < len(data) and data[off + len(b)] == 0x22):
            return "token %d: quoted scalar at %d is not enclosed by quotes in the input" % (i, off)
        if tag == "P" and not (data[max(0, off - 2):off] == b"[[" and data[off + len(b):off + len(b) + 1] == b"]"):
            return "token %d: parameter at %d is not `[[name]` in the input" % (i, off)
        if tag == "N" and not (data[max(0, off - 3):off] == b"[[!" and data[off + len(b):off + len(b) + 1] == b"]"):
            return "token %d: undefined parameter at %d is not `[[!name]` in the input" % (i, off)
        prev = off
    return None


BYTES_SIG = list(tg.SIG) + [0x00, 0xff, 0x7f, 0x80, 0x5c, 0x3b]


def mutate_text(rng, data, pool):
    b = bytearray(data)
    for _ in range(rng.choice([1, 1, 1, 2, 2, 3])):
        r = rng.random()
        n = len(b)
        if r < 0.22 and n:
            b[rng.randrange(n)] = rng.choice(BYTES_SIG) if rng.random() < 0.7 else rng.randrange(256)
        elif r < 0.36 and n:
            i = rng.randrange(n)
            del b[i:i + rng.choice([1, 1, 2, 3, 8])]
        elif r < 0.50:
            i = rng.randrange(n + 1)
            b[i:i] = bytes(rng.choice(BYTES_SIG) for _ in range(rng.choice([1, 1, 2, 3])))
        elif r < 0.62 and n:
            i = rng.randrange(n)
            j = min(n, i + rng.choice([1, 2, 4, 9, 17]))
            b[j:j] = b[i:j]
        elif r < 0.76 and pool:
            o = rng.choice(pool)
            if o:
                i = rng.randrange(len(o))
                j = min(len(o), i + rng.choice([2, 5, 11, 30]))
                k = rng.randrange(n + 1)
                b[k:k] = o[i:j]
        elif r < 0.88:
            b = b[:rng.randrange(n + 1)]
        else:
            b += rng.choice([b"}", b"}}", b" } a=b", b"{", b" x={", b"]", b" x = { y = z", b" x = { y z", b"\n#", b" q={ {} a=b"])
    return bytes(b)


def eof_cases(rng, n):
    """(class, bytes): inputs whose structure ends early / late"""
    out = []
    for _ in range(n):
        d1 = td.render(td.gen_doc(rng, depth=rng.choice([0, 1, 2])), rng, rng.choice(td.STYLES))
        d2 = td.render(td.gen_doc(rng, depth=rng.choice([0, 1, 2])), rng, rng.choice(td.STYLES))
        sp = rng.choice([b" ", b"\n", b"\t", b" # c\n", b"\r\n"])
        tail = rng.choice([b"", b" ", b"\n", b" #x", b" #x\n", b";"])
        out.append(("eof1", d1 + sp + b"tail = {" + sp + d2 + tail))                       # one unclosed object, key position
        out.append(("eof2", d1 + sp + b"tail = { in = {" + sp + d2 + tail))                # two unclosed
        out.append(("eof1arr", d1 + sp + b"tail = { 1 2 3" + tail))                        # one unclosed array: Key state never reached
        out.append(("eof1mix", d1 + sp + b"tail = { a = b 10 " + tail))                    # unclosed mixed container
        out.append(("eof1after", d1 + sp + b"tail = { in = {" + sp + d2 + b" }" + tail))   # inner closed, outer unclosed
        out.append(("stray", d1 + sp + b"}" + sp + d2 + rng.choice([b"", b" }", b" } }"])))
        out.append(("eofhdr", d1 + sp + b"c = rgb {" + sp + rng.choice([b"1 2 3", b"a = b", b""]) + tail))
    return out


def run_text(ctx):
    rng = ctx.rng
    docs = []
    for _ in range(ctx.scale(500, 5000)):
        docs.append(td.render(td.gen_doc(rng, depth=rng.choice([1, 2, 3, 4])), rng, rng.choice(td.STYLES)))
    inputs = []          # (class, bytes)
    for d in docs:
        inputs.append(("doc", d))
        for _ in range(ctx.scale(5, 8)):
            inputs.append(("mutant", mutate_text(rng, d, docs)))
    inputs += eof_cases(rng, ctx.scale(150, 1500))
    # every sequence of up to 4 atoms of the parameter / interpolation / brace syntax (`[[a]` `[[!a]` `@[b]` `@v` `]` `{` `}` `=`
    # bare and quoted words), glued and blank-separated, bare and inside `x={ .. }`: whatever the parser accepts must be sound
    import itertools
    ATOMS = [b"[[a]", b"[[!a]", b"@[b]", b"@v", b"]", b"{", b"}", b"=", b"k", b'"q"', b"1"]
    for n in range(1, ctx.scale(4, 5) + 1):
        for combo in itertools.product(ATOMS, repeat=n):
            for sep in (b"", b" "):
                body = sep.join(combo)
                inputs.append(("paramsoup", body))
                inputs.append(("paramsoup", b"x={" + sep + body + sep + b"}"))
    for _ in range(ctx.scale(1500, 30000)):
        inputs.append(("soup", tg.gen_soup(rng, maxlen=rng.choice([5, 10, 20, 40]))))
    cases = ["tt.ptr\t%s" % hexs(d) for _, d in inputs]
    datas = [d for _, d in inputs]
    classes = [c for c, _ in inputs]
    # parse into a used tape: the previous document may be longer, shorter, rejected half-way
    pool = docs[:200] + [d for c, d in inputs if c in ("eof2", "mutant")][:200]
    for _ in range(ctx.scale(800, 8000)):
        prev, cur = rng.choice(pool), rng.choice(pool)
        cases.append("tt.ptr_reuse\t%s\t%s" % (hexs(prev), hexs(cur)))
        datas.append(cur)
        classes.append("reuse")
    impl, _ = ctx.correspond("text_ptr", cases, model=False,
                             nontrivial=lambda c, i: i.startswith("ok") and (" A:" in i or " O:" in i))
    base = len(impl) - len(cases)
    real_tapes = []
    for k, d in enumerate(datas):
        o = impl[base + k]
        cls = classes[k]
        ctx.count("text_ptr_inputs:" + cls)
        if o in ("PANIC", "ABORT", "HANG"):
            ctx.fail("text-crash", "text tape parser on %r: %s" % (d[:80], o), [cases[k]], [o])
            continue
        if o == "from_slice-differs":
            ctx.fail("text-entry-points", "TextTapeParser::new().parse_slice and TextTape::from_slice disagree on %r" % d[:80], [cases[k]], [o], "same tape")
            continue
        if not o.startswith("ok "):
            continue
        ctx.count("text_ptr_accepted:" + cls)
        plain, scal = split_ptr_tokens(o.split(" ", 2)[2] if o.count(" ") >= 2 else "-")
        bad = tapewf.check_tape(plain, d)
        if bad:
            ctx.fail("text-wf", "parse(%r) succeeded with an unsound tape: %s; tape=%s" % (d[:120], bad, o[:300]), [cases[k]], [o], "sound tape")
        bad = check_text_ptr(scal, d)
        if bad:
            ctx.fail("text-scalar-ptr", "parse(%r) succeeded but %s; tape=%s" % (d[:120], bad, o[:300]), [cases[k]], [o],
                     "every scalar is input[off..off+len) with increasing off")
        if len(plain) <= 40 and len(real_tapes) < 3000:
            real_tapes.append(plain)
    return real_tapes


# ------------------------------------------------------------------------------------------ binary
WIDTH = {0x14: ("U32", 4), 0x29c: ("U64", 8), 0x0c: ("I32", 4), 0x317: ("I64", 8), 0x0d: ("F32", 4), 0x167: ("F64", 8), 0x0e: ("B", 1)}


def lex_payloads(data):
    """Independent lexer of the binary wire format.  Returns the list of payload lexemes
    [(canonical string, payload offset)] (structure lexemes `{ } =` are marked "{", "}", "="), or None when the
    input is not a complete lexeme sequence (a single trailing byte is tolerated: the tape parser stops when fewer
    than two bytes are left)."""
    out = []
    pos, n = 0, len(data)
    while n - pos >= 2:
        (i,) = struct.unpack_from("<H", data, pos)
        pos += 2
        if i == 1:
            out.append(("=", pos))
        elif i == 3:
            out.append(("{", pos))
        elif i == 4:
            out.append(("}", pos))
        elif i in WIDTH:
            name, w = WIDTH[i]
            if n - pos < w:
                return None
            raw = data[pos:pos + w]
            if name == "U32":
                v = "U32:%d" % struct.unpack("<I", raw)[0]
            elif name == "U64":
                v = "U64:%d" % struct.unpack("<Q", raw)[0]
            elif name == "I32":
                v = "I32:%d" % struct.unpack("<i", raw)[0]
            elif name == "I64":
                v = "I64:%d" % struct.unpack("<q", raw)[0]
            elif name == "B":
                v = "B:%d" % (1 if raw[0] else 0)
            else:
                v = "%s:%s" % (name, raw.hex())
            out.append((v, pos))
            pos += w
        elif i in (0x0f, 0x17):
            if n - pos < 2:
                return None
            (ln,) = struct.unpack_from("<H", data, pos)
            pos += 2
            if n - pos < ln:
                return None
            out.append((("Q:" if i == 0x0f else "U:") + hexs(data[pos:pos + ln]), pos))
            pos += ln
        else:
            out.append(("T:%d" % i, pos))
    return out


def check_bin_payloads(tape_tokens, data):
    """tape_tokens: tokens of an accepted tape (strings possibly with @off).  None if the payload tokens are the
    payload lexemes of the input, in order."""
    lx = lex_payloads(data)
    if lx is None:
        return "the accepted input is not a complete lexeme sequence"
    want = [(v, p) for (v, p) in lx if v not in ("{", "}", "=")]
    have = []
    for t in tape_tokens:
        if t in ("M", "EQ") or t[:2] in ("A:", "O:", "E:"):
            continue
        if t.startswith("RGB:"):
            r, g, b, a = t[4:].split(",")
            have.append(("T:579", None))
            for c in (r, g, b) + (() if a == "-" else (a,)):
                have.append(("U32:%s" % c, None))
            continue
        if len(t) > 1 and t[0] in "QU" and t[1] == "@":
            head, h = t.split(":", 1)
            off = head[2:]
            if off == "X":
                return "string payload %s does not point into the input slice" % h
            have.append(("%s:%s" % (t[0], h), int(off)))
            continue
        have.append((t, None))
    if len(have) != len(want):
        # The one place where the tape parser removes tokens it has pushed is the "only empty objects so far" repair
        # of `{ {} .. k = v }` (binary/tape.rs, EQUAL in ArrayValue); since the fix for finding L (the test requires
        # `pairs.remainder().is_empty()`) it removes `{ }` pairs only, never a payload token: the payload tokens of
        # the tape are ALL payload lexemes of the input.
        return "tape has %d payload tokens, the input has %d payload lexemes" % (len(have), len(want))
    for k, ((hv, ho), (wv, wo)) in enumerate(zip(have, want)):
        if hv != wv:
            return "payload %d of the tape is %s, the input has %s at offset %d" % (k, hv, wv, wo)
        if ho is not None and ho != wo:
            return "string payload %d (%s) points at offset %d, the lexeme's payload is at %d" % (k, hv, ho, wo)
    return None


def tokens_of(res):
    """'OK t t t' -> tokens; None for ERR"""
    if not res.startswith("OK"):
        return None
    return res.split(" ")[1:]


class Judge6(B.Judge):
    """C03's judge (wf flags of the harness) + the independent payload oracle on every accepted tape"""
    def check(self, cases, impl, model, stream=None):
        B.Judge.check(self, cases, impl, model, stream)
        base = len(impl) - len(cases)
        for k, c in enumerate(cases):
            s = B.split_all(impl[base + k])
            if s is None:
                continue
            data = unhex(c.split("\t")[-1])
            acc = False
            for which, res in (("optimised", s[0]), ("reference", s[1])):
                toks = tokens_of(res)
                if toks is None:
                    continue
                acc = True
                bad = check_bin_payloads(toks, data)
                if bad:
                    self.add("bin-payload", "%s parser accepted the input but %s" % (which, bad), c, impl[base + k], "payload tokens = payload lexemes of the input, in order")
                bad = tapewf.check_tape(toks)
                if bad:
                    self.add("tape-not-wf", "%s tape fails the Python structural checker: %s" % (which, bad), c, impl[base + k], "sound tape")
            self.ctx.count("bin_inputs:%s" % stream)
            if acc:
                self.ctx.count("bin_accepted:%s" % stream)


# structure of a C03.Doc output is lost once rendered: re-lex it to mutate at token level
def lex_spans(data):
    """[(start, end, id)] of the lexemes (None if not a lexeme sequence)"""
    out = []
    pos, n = 0, len(data)
    while n - pos >= 2:
        (i,) = struct.unpack_from("<H", data, pos)
        st = pos
        pos += 2
        if i in WIDTH:
            pos += WIDTH[i][1]
        elif i in (0x0f, 0x17):
            if n - pos < 2:
                return None
            pos += 2 + struct.unpack_from("<H", data, pos)[0]
        if pos > n:
            return None
        out.append((st, pos, i))
    return out


SAME_WIDTH = {4: [0x14, 0x0c, 0x0d], 8: [0x29c, 0x317, 0x167]}


def mutate_bin(rng, data):
    spans = lex_spans(data)
    b = bytearray(data)
    if not spans:
        return bytes(b)
    for _ in range(rng.choice([1, 1, 2, 3])):
        r = rng.random()
        st, en, i = rng.choice(spans)
        if r < 0.25 and en - st > 2:
            # a payload byte (for strings possibly the length prefix)
            p = rng.randrange(st + 2, en)
            b[p] = rng.randrange(256)
        elif r < 0.40 and i in WIDTH and WIDTH[i][1] in SAME_WIDTH:
            b[st:st + 2] = struct.pack("<H", rng.choice(SAME_WIDTH[WIDTH[i][1]]))
        elif r < 0.50 and i in (0x0f, 0x17):
            b[st:st + 2] = struct.pack("<H", 0x0f if i == 0x17 else 0x17)
        elif r < 0.62:
            # an unknown id instead of / in front of a lexeme
            idb = struct.pack("<H", rng.choice([0x0b, 0x18, 0x243, 0x2d82, 0xffff, rng.randrange(0x18, 0x10000)]))
            if rng.random() < 0.5 and i not in WIDTH and i not in (0x0f, 0x17):
                b[st:st + 2] = idb
            else:
                b[st:st] = idb
        elif r < 0.76:
            b[st:st] = B.OPEN + B.CLOSE                       # ghost object
        elif r < 0.84:
            b[st:st] = B.enc(rng.choice(B.KINDS), rng.randrange(7))
        elif r < 0.92:
            del b[st:en]
        else:
            b[st:st] = b[st:en]                               # duplicate a lexeme
        spans = lex_spans(bytes(b))
        if not spans:
            break
    return bytes(b)


def run_bin(ctx):
    rng = ctx.rng
    judge = Judge6(ctx, wf_only=True)
    docs = [B.gen_doc(rng)[0] for _ in range(ctx.scale(400, 4000))]
    muts = []
    for d in docs:
        for _ in range(ctx.scale(6, 10)):
            muts.append(mutate_bin(rng, d))
    # (a) model correspondence + harness flags + payload oracle on both tapes
    cases = ["bt.all\t" + hexs(m) for m in muts]
    impl, model = ctx.correspond("bin_mutants", cases, nontrivial=B.nontrivial)
    judge.check(cases, impl, model, "bin_mutants")
    # (b) BinaryTapeParser.parse_slice / parse_slice_into_tape on a used tape, string pointer offsets
    pcases = ["bt.ptr\t" + hexs(m) for m in docs[:200] + muts]
    pdata = docs[:200] + muts
    pool = docs[:200] + muts[:400]
    for _ in range(ctx.scale(600, 6000)):
        a, b = rng.choice(pool), rng.choice(pool)
        pcases.append("bt.ptr_reuse\t%s\t%s" % (hexs(a), hexs(b)))
        pdata.append(b)
    impl, _ = ctx.correspond("bin_ptr", pcases, model=False, nontrivial=lambda c, i: i.startswith("OK"))
    base = len(impl) - len(pcases)
    real_tapes = []
    for k, d in enumerate(pdata):
        o = impl[base + k]
        kind = pcases[k].split("\t")[0]
        ctx.count("bin_ptr_inputs:" + kind)
        if o in ("PANIC", "ABORT", "HANG"):
            judge.add("crash", "binary tape parser: %s" % o, pcases[k], o)
            continue
        toks = tokens_of(o)
        if toks is None:
            continue
        ctx.count("bin_ptr_accepted:" + kind)
        plain = [("%s:%s" % (t[0], t.split(":", 1)[1]) if (len(t) > 1 and t[0] in "QU" and t[1] == "@") else t) for t in toks]
        bad = tapewf.check_tape(plain)
        if bad:
            judge.add("tape-not-wf", "accepted tape is not structurally sound: %s" % bad, pcases[k], o, "sound tape")
        bad = check_bin_payloads(toks, d)
        if bad:
            judge.add("bin-payload", "accepted, but %s" % bad, pcases[k], o, "payload tokens = payload lexemes of the input, in order; strings point at their lexeme")
        if len(plain) <= 40 and len(real_tapes) < 3000:
            real_tapes.append(plain)
    judge.flush()
    return real_tapes


# ------------------------------------------------------------------------------------------ checkers
def shape_of(tok):
    """canonical token of either tape format -> shape token: A:<e> / O:<e> / E:<i> / S"""
    if tok[:2] in ("A:", "O:"):
        return tok[:2] + tok.split(":")[1]
    if tok[:2] == "E:":
        return tok
    return "S"


def text_of_shape(sh):
    return {"A": "A:%s:0", "O": "O:%s:0", "E": "E:%s"}[sh[0]] % sh[2:] if sh != "S" else "U:61"


def mutate_shape(rng, toks):
    t = list(toks)
    for _ in range(rng.choice([1, 1, 2])):
        if not t:
            t.append("S")
            continue
        i = rng.randrange(len(t))
        r = rng.random()
        if t[i] != "S" and r < 0.45:
            v = int(t[i][2:])
            v = rng.choice([v + 1, max(0, v - 1), 0, rng.randrange(len(t) + 1), v])
            t[i] = t[i][:2] + str(v)
        elif r < 0.6:
            del t[i]
        elif r < 0.75:
            t.insert(i, rng.choice(["S", "E:%d" % rng.randrange(len(t) + 1), "A:%d" % rng.randrange(len(t) + 2)]))
        elif r < 0.9 and i + 1 < len(t):
            t[i], t[i + 1] = t[i + 1], t[i]
        else:
            t[i] = "S"
    return t


def run_checkers(ctx, real_tapes):
    rng = ctx.rng
    shapes = []
    alpha = ["S"] + ["A:%d" % k for k in range(5)] + ["E:%d" % k for k in range(5)]
    for n in range(0, 5):
        for combo in itertools.product(alpha, repeat=n):
            shapes.append(list(combo))
    for _ in range(ctx.scale(3000, 30000)):
        n = rng.randrange(1, 7)
        al = ["S"] + ["%s:%d" % (c, k) for c in "AOE" for k in range(n + 1)]
        shapes.append([rng.choice(al) for _ in range(n)])
    for t in real_tapes:
        sh = [shape_of(x) for x in t]
        shapes.append(sh)
        for _ in range(2):
            shapes.append(mutate_shape(rng, sh))
    bcases = ["bt.wfcheck\t%s" % (" ".join(s) if s else "-") for s in shapes]
    impl, model = ctx.correspond("checker_shapes", bcases, nontrivial=lambda c, i: i == "y")
    base = len(impl) - len(bcases)
    tmodel = vlib.run_model(["tw.wfb\t%s" % (" ".join(text_of_shape(x) for x in s) if s else "-") for s in shapes])
    ny = 0
    for k, s in enumerate(shapes):
        py = "n" if tapewf.check_tape(s) else "y"
        py_text = "n" if tapewf.check_tape([text_of_shape(x) for x in s]) else "y"
        got = {"rust wf (fam_bintape.rs)": impl[base + k], "Coq BinTapeWf.tape_wfb": model[base + k],
               "Coq TextTapeWf.tape_wfb": tmodel[k] if k < len(tmodel) else "MISSING",
               "python tapewf.check_tape": py, "python tapewf.check_tape (text format)": py_text}
        if len(set(got.values())) != 1:
            ctx.fail("checkers-disagree", "structural checkers disagree on the token shape [%s]: %s" % (" ".join(s), got), [bcases[k]], [impl[base + k]], "one verdict")
        elif py == "y":
            ny += 1
    ctx.count("checker_shapes", len(shapes))
    ctx.count("checker_shapes_sound", ny)


def run(ctx):
    t1 = run_text(ctx)
    t2 = run_bin(ctx)
    run_checkers(ctx, t1[:1500] + t2[:1500])
