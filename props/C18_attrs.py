"""C18, attribute-table part (wave 4, a_c18).

Streams
  attrs_paths   new harness instances (fam_derive2.rs: deserialize_with, Vec<[T;N]>, generics, clashing keys, ...)
                x multiplicity vectors x orders x unknown fields, text and binary, all seven paths;
                oracle = the field semantics of the property text, from the attribute table READ OFF THE SOURCE
  attrs_model   DeriveMacro.visit_attrs (extracted) instantiated from the raw attribute table of the source, for
                the new AND the old instances, against the implementation
  attrs_spec    DeriveMacro.spec_visit (the declarative reading, proved equal to the visitor under values_ok)
                against the implementation, on the inputs whose values are all well-typed
  perm          metamorphic, independent of model and spec: one document, several orders that keep each field's
                own occurrence sequence, all paths: every output must be the same
  intkeys       unknown fields whose key is an integer token (binary): the property says ignored
"""
import struct
import sys
from props import dedoc as D
from props.dedoc import hx
from props import C18_table

_T = None


def tables():
    global _T
    if _T is None:
        _T = C18_table.Tables()
    return _T


# the deserialize_with functions of fam_derive2.rs: (shape the function deserializes, effect on the canonical value)
def _plus1(s):
    return "(u %d)" % ((int(s[3:-1]) + 1) % 2 ** 32)


def _tag(s):
    h = s[5:-1]
    return "(str %s)" % (b"w:".hex() + ("" if h == "-" else h))


WITH = {"de_plus1": (("u", 32), _plus1), "de_tag": ("str", _tag), "de_some_plus1": (("u", 32), lambda s: "(none)" if int(s[3:-1]) == 2 ** 32 - 1 else "(some %s)" % _plus1(s))}

NEW = ["DW", "DWT", "DK", "DO", "DOF", "DAr", "DGen_u32", "DGen_String", "DGen_DOF", "DGW_u32", "DGW_String", "DGT_i32", "DL", "DN",
       "D1T"]      # w_derive: one field, with a token (key hint `token_count > 0`)

_cache = {}


def fields(inst):
    if inst not in _cache:
        _cache[inst] = tables().fields_of(inst)
    return _cache[inst]


def value_of(fld, fd, M):
    if fld["with"]:
        insh, fn = WITH[fld["with"]]
        return fn(D.expected_value(insh, fd["v"], M, fd["op"]))
    return D.expected_value(fld["sh"], fd["v"], M, fd["op"])


def select(S, fd, M):
    """the field a key selects (None: unknown field)"""
    tokened = S[0]["token"] is not None
    if M.kind == "bin" and fd["kb"] == "ID":
        if tokened:
            return next((f for f in S if f["token"] == fd["kid"]), None)
        name = D.resolve_id(fd["k"], fd["kid"], M)
        return next((f for f in S if f["key"] == name), None)
    return next((f for f in S if f["key"] == fd["k"]), None)


def expected2(inst, v, M):
    """the field semantics of the property text; raises SpecErr"""
    if v["t"] == "arr" and not v["v"]:
        v = {"t": "obj", "f": []}
    if v["t"] != "obj":
        raise D.SpecErr("de")
    S = fields(inst)
    once, many = {}, {f["name"]: [] for f in S if f["dup"] == "dup"}
    for fd in v["f"]:
        fld = select(S, fd, M)
        if fld is None:
            continue
        if fld["dup"] == "once":
            if fld["name"] in once:
                raise D.SpecErr("dup")
            once[fld["name"]] = value_of(fld, fd, M)
        elif fld["dup"] == "last":
            once[fld["name"]] = value_of(fld, fd, M)
        else:
            many[fld["name"]].append(value_of(fld, fd, M))
    out = []
    for f in S:
        if f["dup"] != "dup" and f["name"] not in once and f["miss"] == "req":
            raise D.SpecErr("missing")
    for f in S:
        if f["dup"] == "dup":
            val = "(seq%s)" % "".join(" " + x for x in many[f["name"]])
        else:
            val = once[f["name"]] if f["name"] in once else f["miss"][1]
        out.append("(%s %s)" % (hx(f["name"]), val))
    return "(struct%s)" % "".join(" " + x for x in out)


class M2(D.Mode):
    def derived(self, sname, v, M):
        return expected2(sname, v, M)


def mode(kind, **kw):
    return M2(kind, **kw)


def exp_str(inst, doc, M):
    try:
        return expected2(inst, doc, M)
    except D.SpecErr as e:
        return "ERR:" + e.cls


def model_kvs2(inst, doc, M):
    """the key/value list the MapAccess delivers to the generated visitor; None: outside the visitor
    (a key that does not resolve under the `error` strategy fails in next_key)"""
    S = fields(inst)
    out = []
    for fd in doc["f"]:
        fld = select_code(S, fd, M)
        if fld is False:
            return None
        if M.kind == "bin" and fd["kb"] == "ID":
            try:
                nm = hx(D.resolve_id(fd["k"], fd["kid"], M))
            except D.SpecErr:
                nm = "?"
            key = "I%04x/%s" % (fd["kid"], nm)
        else:
            key = "S" + hx(fd["k"])
        if fld is None:
            res = "o" + hx("(ign)")
        else:
            try:
                res = "o" + hx(value_of(fld, fd, M))
            except D.SpecErr as e:
                res = "e" + e.cls
        out.append(key + "=" + res)
    return ";".join(out) if out else "-"


def select_code(S, fd, M):
    try:
        return select(S, fd, M)
    except D.SpecErr:
        return False


# ------------------------------------------------------------------------------------------ inputs
def register(C18):
    """make the new instances known to the generators of props/C18.py (old table format is a subset of ours)"""
    for inst in NEW:
        C18.ALL[inst] = fields(inst)


def vectors(ctx, rng, S, n_small, n_large):
    import itertools
    n = len(S)

    def pick(f):
        if f["dup"] == "once":
            return rng.choice([1] * 8 + [0, 2]) if f["miss"] == "req" else rng.choice([0, 1, 1, 1, 1, 2])
        return rng.choice([0, 1, 2, 3])
    if 4 ** n <= 256:
        # the complete {0..3}^n (most of it has a plain field twice), and as many vectors that mostly deserialize
        vs = list(itertools.product(range(4), repeat=n))
        rng.shuffle(vs)
        vs = vs[:n_small // 2]
        return vs + [tuple(pick(f) for f in S) for _ in range(n_small - len(vs))]
    return [tuple(pick(f) for f in S) for _ in range(n_large)] + [tuple(1 for _ in S), tuple(0 for _ in S), tuple(3 for _ in S)]


def classify(ctx, stream_key, case, out, exp):
    if out != exp:
        ctx.fail(stream_key, "%s returns %s, the field semantics of the attribute table read off the source say %s" % (case.split("\t")[0:2], out[:200], exp[:200]),
                 [case], [out], exp)


def make_doc(C18, rng, inst, order, unknowns, bad):
    st = {"ids": {}, "ops": False, "allow_escape": False, "i64": False}
    doc = C18.build_obj(rng, inst, list(order), st, unknowns=unknowns, bad=bad)
    return doc, st["ids"]


def env_of(rng, ids):
    enc = rng.choice(["w1252", "utf8"])
    fl = "eu4" if enc == "w1252" else "raw"
    known = set(ids) if rng.random() < 0.75 else set(x for x in ids if rng.random() < 0.6)
    strat = rng.choice(["error", "stringify", "ignore"])
    return enc, fl, known, strat


def numeric_unknown(S, doc):
    # text `deserialize_u16` of a numeric key reaches visit_u64, which the field visitor does not implement (audit: unspecified)
    return S[0]["token"] is not None and any(f["k"][:1].isdigit() for f in doc["f"])


def run(ctx, C18):
    rng = ctx.rng
    T = tables()
    register(C18)
    nt = lambda c, i: i.startswith("(struct")

    # ---- the translator tie: the table read off the source agrees with the hand-written one where both exist
    for name, S in C18.STRUCTS.items():
        got, opts = C18_table.old_format(T.fields_of(name))
        want_opts = {f for (s, f) in C18.OPTION_FIELDS if s == name}
        same = len(S) == len(got) and all(all(a[k] == b[k] for k in a) for a, b in zip(S, got)) and opts == want_opts
        if not same:
            ctx.broken.append({"what": "translator", "detail": "attribute table of %s read off harness/src/fam_derive.rs differs from props/C18.py:STRUCTS" % name})
    for inst in list(C18.STRUCTS) + NEW:
        if not T.accepts(inst):
            ctx.broken.append({"what": "translator", "detail": "%s: token on some but not all fields (the macro rejects it)" % inst})

    pcases, pmeta, mcases, scases = [], [], [], []
    for inst in NEW + list(C18.STRUCTS):
        new = inst in NEW
        S = fields(inst)
        attrs = T.attrs_arg(inst)
        vs = vectors(ctx, rng, S, ctx.scale(110, 256), ctx.scale(130, 600)) if new else vectors(ctx, rng, S, ctx.scale(40, 64), ctx.scale(50, 200))
        for mult in vs:
            for order in C18.orders(rng, mult, ctx.scale(3, 8) if new else 1):
                doc, ids = make_doc(C18, rng, inst, order, rng.choice([0, 0, 1, 2, 3]), 0.02)
                enc, fl, known, strat = env_of(rng, ids)
                txt = D.render_text(doc, rng, enc)
                b = D.render_bin(doc, fl)
                res = D.resolver_spec(ids, known, rng.choice(["map", "lines"]))
                mt = D.max_token_len(doc, enc)
                num = numeric_unknown(S, doc)
                Mt, Mb = mode("text", enc=enc), mode("bin", flavor=fl, strategy=strat, known=known, ids=ids)
                exps = {"text": exp_str(inst, doc, Mt), "bin": exp_str(inst, doc, Mb)}
                if any("unfit" in e for e in exps.values()):
                    continue
                ctx.count("attrs_inputs_" + inst)
                kt, kb2 = model_kvs2(inst, doc, Mt), model_kvs2(inst, doc, Mb)
                if not num and kt is not None:
                    mcases.append("\t".join(["dw.text.m", "slice", enc, inst, hx(txt), attrs, kt]))
                    if "=e" not in kt:
                        scases.append("\t".join(["dw.text.s", "tape", enc, inst, hx(txt), attrs, kt]))
                if kb2 is not None:
                    mcases.append("\t".join(["dw.bin.m", "tape", strat, res, fl, inst, hx(b), attrs, kb2]))
                    if "=e" not in kb2:
                        scases.append("\t".join(["dw.bin.s", "slice", strat, res, fl, inst, hx(b), attrs, kb2]))
                if not new:
                    continue
                ctx.count("attrs_expect_" + (exps["text"][:8] if exps["text"].startswith("ERR") else "value"))
                if not num:
                    for p in ["slice", "tape", "objreader", "reader:%d:%s" % (rng.choice([mt, 64 + mt, 32768]), rng.choice(["-", "1*", "3,5*"]))]:
                        pcases.append("\t".join(["dw.text", p, enc, inst, hx(txt)]))
                        pmeta.append((exps["text"], p))
                for p in ["tape", "slice", "reader:%d:%s" % (rng.choice([max(32, mt + 4), 64 + mt, 32768]), rng.choice(["-", "1*", "3,5*"]))]:
                    pcases.append("\t".join(["dw.bin", p, strat, res, fl, inst, hx(b)]))
                    pmeta.append((exps["bin"], "bin-" + p))
    impl, _ = ctx.correspond("attrs_paths", pcases, nontrivial=nt, model=False)
    base = len(impl) - len(pcases)
    for k, (exp, p) in enumerate(pmeta):
        classify(ctx, "attrs-semantics-" + p.split(":")[0], pcases[k], impl[base + k], exp)
    ctx.correspond("attrs_model", mcases, nontrivial=nt)
    ctx.correspond("attrs_spec", scases, nontrivial=nt)
    # >>> w_derive: the proc-macro model instantiated with the facts generated from lib.rs (DeriveCode.visit_raw code_facts)
    from props import C18_code
    C18_code.run(ctx, C18, sys.modules[__name__], mcases)
    # <<< w_derive

    run_perm(ctx, C18)
    run_intkeys(ctx, C18)


# ------------------------------------------------------------------------------------------ order independence, directly
def group_label(S, fd, k):
    """occurrences with the same label must keep their relative order"""
    for f in S:
        if f["key"] == fd["k"] or (f["token"] is not None and fd.get("kid") == f["token"] and fd["kb"] == "ID"):
            return ("f", f["name"])
    return ("u", k)


def reorder(rng, S, fs):
    labels = [group_label(S, fd, k) for k, fd in enumerate(fs)]
    queues = {}
    for l, fd in zip(labels, fs):
        queues.setdefault(l, []).append(fd)
    lab = labels[:]
    rng.shuffle(lab)
    return [queues[l].pop(0) for l in lab]


def run_perm(ctx, C18):
    rng = ctx.rng
    cases, groups = [], []
    insts = NEW + list(C18.STRUCTS)
    for _ in range(ctx.scale(700, 3000)):
        inst = rng.choice(insts)
        S = fields(inst)
        tokened = S[0]["token"] is not None
        mult = [rng.choice([1, 1, 1, 1, 0, 2]) if f["dup"] == "once" else rng.choice([0, 1, 2, 3]) for f in S]
        occ = [i for i, m in enumerate(mult) for _ in range(m)]
        rng.shuffle(occ)
        doc, ids = make_doc(C18, rng, inst, occ, rng.choice([0, 1, 2]), 0.0)
        doc["ghost"] = []
        if tokened:
            # the same field once by token id and once by name in one document
            seen = {}
            for fd in doc["f"]:
                f = next((f for f in S if f["key"] == fd["k"]), None)
                if f is None:
                    continue
                if f["name"] in seen and seen[f["name"]]["kb"] == fd["kb"]:
                    if fd["kb"] == "ID":
                        fd["kb"] = rng.choice(["Q", "U"])
                    else:
                        fd["kb"], fd["kid"] = "ID", f["token"]
                    ctx.count("mixed_key_forms")
                seen[f["name"]] = fd
        enc, fl, known, strat = env_of(rng, ids)
        res = D.resolver_spec(ids, known, "map")
        num = numeric_unknown(S, doc)
        # which error is met first depends on the order (streaming visitor): only documents whose declared
        # fields all have well-typed values (C18_perm_invariant: values_ok)
        kvs = [model_kvs2(inst, doc, mode("text", enc=enc)), model_kvs2(inst, doc, mode("bin", flavor=fl, strategy=strat, known=known, ids=ids))]
        if any(k is None or "=e" in k for k in kvs):
            continue
        ctx.count("perm_docs")
        start = len(cases)
        for j in range(3):
            d2 = dict(doc, f=doc["f"] if j == 0 else reorder(rng, S, doc["f"]))
            if not num:
                txt = D.render_text(d2, rng, enc)
                p = rng.choice(["slice", "tape", "objreader", "reader:%d:1*" % (64 + D.max_token_len(d2, enc))])
                cases.append("\t".join(["dw.text", p, enc, inst, hx(txt)]))
            b = D.render_bin(d2, fl)
            p = rng.choice(["tape", "slice", "reader:%d:3,5*" % (64 + D.max_token_len(d2, enc))])
            cases.append("\t".join(["dw.bin", p, strat, res, fl, inst, hx(b)]))
        groups.append((start, len(cases), inst))
    impl, _ = ctx.correspond("perm", cases, nontrivial=lambda c, i: i.startswith("(struct"), model=False)
    base = len(impl) - len(cases)
    for (a, b, inst) in groups:
        for kind in ("dw.text", "dw.bin"):
            idx = [k for k in range(a, b) if cases[k].startswith(kind + "\t")]
            outs = [impl[base + k] for k in idx]
            if len(set(outs)) > 1:
                k2 = next(k for k, o in zip(idx, outs) if o != outs[0])
                ctx.fail("order-dependence", "%s: the same fields in another order (each field's own occurrences in the same order) give %s instead of %s"
                         % (inst, impl[base + k2][:160], outs[0][:160]), [cases[idx[0]], cases[k2]], [outs[0], impl[base + k2]], outs[0])
                break


# ------------------------------------------------------------------------------------------ integer keys (binary)
def run_intkeys(ctx, C18):
    rng = ctx.rng
    cases, meta = [], []
    insts = [i for i in NEW + list(C18.STRUCTS)]
    for _ in range(ctx.scale(200, 1200)):
        inst = rng.choice(insts)
        S = fields(inst)
        occ = [i for i, f in enumerate(S) for _ in range(1 if f["dup"] != "dup" else rng.choice([0, 1, 2]))]
        rng.shuffle(occ)
        doc, ids = make_doc(C18, rng, inst, occ, 0, 0.0)
        doc["ghost"] = []
        enc, fl, known, strat = env_of(rng, ids)
        known = set(ids)
        res = D.resolver_spec(ids, known, "map")
        exp = exp_str(inst, doc, mode("bin", flavor=fl, strategy=strat, known=known, ids=ids))
        if not exp.startswith("(struct"):
            continue
        parts = [D.render_bin({"t": "obj", "f": [fd], "ghost": []}, fl) for fd in doc["f"]]
        for _ in range(rng.choice([1, 1, 2])):
            n = rng.choice([0, 1, 5, 1444, -1, 2 ** 31 - 1])
            kt = rng.choice(["I32", "U32", "U64", "I64"])
            key = {"I32": D.tok(0x0c) + struct.pack("<i", n), "U32": D.tok(0x14) + struct.pack("<I", n % 2 ** 32),
                   "U64": D.tok(0x29c) + struct.pack("<Q", n % 2 ** 64), "I64": D.tok(0x317) + struct.pack("<q", n)}[kt]
            val = rng.choice([D.tok(0x0c) + struct.pack("<i", 7), D.bstr(b"x", True), D.OPEN + D.CLOSE,
                              D.OPEN + D.bstr(b"a", False) + D.EQ + D.tok(0x0e) + b"\x01" + D.CLOSE])
            parts.insert(rng.randrange(len(parts) + 1), key + D.EQ + val)
            ctx.count("intkey_" + kt)
        b = b"".join(parts)
        start = len(cases)
        for p in ["tape", "slice", "reader:%d:%s" % (rng.choice([64, 32768]), rng.choice(["-", "1*"]))]:
            cases.append("\t".join(["dw.bin", p, strat, res, fl, inst, hx(b)]))
        meta.append((start, exp, inst))
    impl, _ = ctx.correspond("intkeys", cases, nontrivial=lambda c, i: i.startswith("(struct") or i == "ERR:de", model=False)
    base = len(impl) - len(cases)
    for (a, exp, inst) in meta:
        outs = impl[base + a: base + a + 3]
        if len(set(outs)) > 1:
            ctx.fail("int-key-paths-disagree", "%s: an unknown field with an integer key: the three binary paths disagree: %s" % (inst, outs), cases[a:a + 3], outs, exp)
        elif outs[0] == "ERR:de":
            ctx.fail("int-key-rejected", "%s: an unknown field whose key is an integer token (binary) is not ignored: the struct fails with a deserialize error on tape, on-demand and reader paths (the same field in text is ignored)"
                     % inst, [cases[a]], [outs[0]], exp)
        elif outs[0] != exp:
            ctx.fail("int-key-other", "%s: with an unknown integer-keyed field the result is %s, without it %s" % (inst, outs[0][:160], exp[:160]), [cases[a]], [outs[0]], exp)
