"""Wave 5 (w_wr): the extracted classifier K (coq/theories/WriterMix.v) for the C14 / C15 oracles, and the
bare-word contract of the texts the writer prints.

kclasses(ctx, docs, called=False) -> [(k14, k15, wx, k14p)] per document (k14p = k14 with the parser's second-marker
rule, the class the C14 oracles use on parsed tapes): `writer.kclass` of the OCaml driver, i.e. the
functions k14_class / k15_class / wx_fields the theorems of Props/C14_mixcont.v / C15_mixcont.v are about:
    k14 = 1 parameter value, 2 operator written while the single mixed-mode flag is dirty, 0 outside K
    k15 = 2 operator CALL while dirty, 3 flag lost for later entries of a list, 0 outside K
A round-trip failure on a document with class 0 is a VIOLATION; inside K it is the known finding of that class.
Encoding (props/textdoc.py ser format): ghosts are dropped (they never reach the tape), scalar contents are
replaced by one byte (K depends on the structure only), a bare value between the pairs of a list is encoded as
the pair `x=x` (a scalar entry: same effect on the flag; TextDoc has no constructor for it).
called=True: docgen.to_calls has recorded on every object field whether an operator call was emitted
(_op_called); a field without one is encoded with no operator."""
import vlib
from props import docgen as D

OPC = D.OP_CODE


def ser_doc(doc, called=False):
    out = []

    def real(items):
        return [x for x in items if not isinstance(x, D.Ghost)]

    def sv(v):
        if isinstance(v, D.S):
            out.extend(["S", "U", "78"])
        elif isinstance(v, D.Hdr):
            out.extend(["H", "68"]); sv(v.value)
        elif isinstance(v, D.Obj):
            its = real(v.items)
            if not its and not v.tail:
                out.extend(["A", "0"]); return
            out.extend(["O", str(len(its))]); [sf(f, True) for f in its]
            out.append(str(len(v.tail))); [sv(x) for x in v.tail]
        elif isinstance(v, D.Arr):
            el = real(v.elems)
            if v.mixed:
                out.extend(["K", str(len(el))]); [sv(x) for x in el]
                out.append(str(len(v.mixed)))
                for e in v.mixed:
                    if isinstance(e, D.S):
                        out.extend(["F", "U", "6b", "6"]); sv(e)
                    else:
                        sf(e, False)
            else:
                out.extend(["A", str(len(el))]); [sv(x) for x in el]
        else:
            raise ValueError(v)

    def sf(f, in_obj):
        if isinstance(f, D.Param):
            if isinstance(f.body, D.S):
                out.extend(["PV", "70", "1" if f.undefined else "0", "76"])
            else:
                b = real(f.body)
                out.extend(["PO", "70", "1" if f.undefined else "0", str(len(b))]); [sf(x, True) for x in b]
            return
        op = f.op
        if called and in_obj:
            op = (f.op or "=") if getattr(f, "_op_called", True) else None
        elif not in_obj and op is None:
            op = "="
        out.extend(["F", "U", "6b", "-" if op is None else str(OPC[op])]); sv(f.value)

    its = real(doc.items)
    out.append(str(len(its)))
    for f in its:
        sf(f, True)
    return " ".join(out)


def kclasses(ctx, docs, called=False, stream="kclass"):
    cases = []
    for d in docs:
        try:
            cases.append("writer.kclass\t" + ser_doc(d, called))
        except Exception:
            cases.append("writer.kclass\t-")
    outs = vlib.run_model(cases) if cases else []
    res = []
    for o in outs:
        try:
            p = dict(x.split("=") for x in o.split(" "))
            res.append((int(p["k14"]), int(p["k15"]), int(p["wx"]), int(p["k14p"])))
        except Exception:
            res.append(None)          # not classifiable: never excuses a failure
            ctx.count(stream + "_unclassified")
    for r in res:
        if r is not None:
            ctx.count("%s_k14_%d" % (stream, r[0])); ctx.count("%s_k15_%d" % (stream, r[1])); ctx.count("%s_wx_%d" % (stream, r[2]))
            ctx.count("%s_k14p_%d" % (stream, r[3]))
            if r[3] != r[0]:
                ctx.count("%s_k14p_differs_from_k14" % stream)      # only on documents whose parsed tape has a second marker
    ctx.evaluations += len(cases)
    return res


# ---------------------------------------------------------------------------------------------- bare-word texts
def wfword_stream(ctx, float_texts, _fail):
    """TextDoc.wf_word (model) vs the real scanner (`a=<s> b=c` reads as four unquoted scalars with <s> intact) on
    every float text the streams write, on integer / date / token texts, and on adversarial byte strings; the float
    Display CONTRACT (proofs/WriterTextProofs.float_contract) is: the model side says 1 for every float text."""
    rng = ctx.rng
    texts = [(t, "float") for t in float_texts]
    for t in (b"NaN", b"inf", b"-inf", b"0", b"-0", b"1e16", b"1e-7", b"5e-324", b"17976931348623157" + b"0" * 292):
        texts.append((t, "float"))
    for _ in range(ctx.scale(300, 2000)):
        r = rng.random()
        if r < 0.3:
            texts.append((str(rng.choice([0, 1, -1, 2 ** 31 - 1, -2 ** 31, 2 ** 63 - 1, -2 ** 63, 2 ** 64 - 1, rng.randrange(-2 ** 63, 2 ** 64)])).encode(), "int"))
        elif r < 0.5:
            y = rng.choice([1, 1444, 9999, -1, -100, 0, 32767, -32768, rng.randrange(-32768, 32768)])
            t = "%d.%d.%d" % (y, rng.randrange(1, 13), rng.randrange(1, 29))
            if rng.random() < 0.3:
                t += ".%d" % rng.randrange(1, 25)
            texts.append((t.encode(), "date"))
        elif r < 0.55:
            texts.append((b"__unknown_0x%x" % rng.randrange(0, 65536), "token"))
        else:
            # adversarial: boundary bytes, quotes, `;`, high bytes, controls; a leading `@` is left out on purpose
            # (`@[..]` / a lone `@` are scalars for the scanner but not bare WORDS: wf_varexpr / glue to `[`)
            n = rng.choice([0, 1, 1, 2, 3, 5, 17])
            s = bytes(rng.choice(b"ab1.-+e_\"; \t\n=<>!?#{}[]\\\x00\x01\x0b\x0c\x7f\x80\xa0\xff@,:'%") for _ in range(n))
            if s[:1] == b"@":
                s = b"x" + s
            if len(s) == 1 and s[0] in D.BOUNDARY:
                # split_at_scalar never returns an empty scalar (max(idx, 1)): ONE boundary byte on its own is read as a
                # scalar by the real scanner (`a=! b=c`), which wf_word does not admit -- wf_word is sufficient, not necessary
                s = b"x" + s
            texts.append((s, "adv"))
    cases = ["writer.wfword\t%s" % vlib.hexs(t) for t, _ in texts]
    impl, model = ctx.correspond("wfword", cases, nontrivial=lambda c, i: True)
    base = len(impl) - len(cases)
    for k, (t, kind) in enumerate(texts):
        m, i = model[base + k], impl[base + k]
        ctx.count("wfword_%s_%s" % (kind, m))
        if kind != "adv" and (m != "1" or i != "1"):
            _fail(ctx, "float-display-contract" if kind == "float" else "typed-text-bare-word",
                  "%s text %r is not a bare word (TextDoc.wf_word = %s, real scanner = %s): the side condition of the parse-back theorems fails" % (kind, t[:60], m, i),
                  [cases[k]], [i], "1")
