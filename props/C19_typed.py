"""C19 wave 4 (a_c19): TYPED targets on every prefix, all deserializer entry points.

Until this wave the deserializer truncation streams (props/C19_de.py) asked for map(any) / map(str) only: a root map that
ends at EOF.  A save-file consumer deserializes into structs; what a truncated document does there depends on the visitor
(required fields -> `missing field`, Option -> None, Vec collected from repeated keys, nested structs, tuples, rgb).  Here:

  document   props/dedoc.py gen_doc (schema first, then an instance: ints / strings / bools / floats / dates / rgb, arrays,
             objects, map-like objects, repeated keys, ghost `{}`), rendered FIELD BY FIELD so that the byte span of every
             top-level field is known exactly (text: several layouts, separators with comments, optional BOM, a final comment
             without newline; binary: the concatenation of the fields' token encodings, token / quoted / unquoted keys)
  target     dedoc.gen_shape on the complete document: struct root (required, Option, collected `*`, last-wins `!` fields, a
             field the document never has), nested structs / seq / tuple / map, or a map root
  paths      text: slice, tape, ObjectReader::deserialize, streaming reader (full reads and 1-byte reads)  x  windows-1252 / utf-8
             binary: tape, on-demand slice, streaming reader (full reads, 1-byte reads)  x  eu4 / raw flavour, token resolver
  oracle     the SPECIFICATION dedoc.expected (independent of the Rust code and of the Coq models) evaluated on the ABSTRACT
             document cut after its n-th top-level field, n = number of fields that lie completely inside the prefix:
             binary  accepted only at a field boundary (or one stray byte after it); the value is exactly expected(first n fields);
                     everywhere else (inside a container, a payload, between a key and the end of its value) an error
             text    error, or expected(first n fields), or -- when the cut falls INSIDE field n -- a value that agrees with
                     expected(first n fields) on every struct field / map entry except the one named by the key of field n
                     (the field being cut: absent, shortened, or auto-closed), where a string is a prefix of the original string
                     and a collected sequence agrees with the original on all elements but its last.
             A prefix whose completed fields lack a required field is therefore never accepted; no value of a later field and no
             default can appear.
Paths whose result on the COMPLETE document is not dedoc.expected (known findings of C02 / C04, e.g. headers through the text
stream reader) are left out for that document (counted `typed_*_skipped`)."""
import re
from vlib import hexs
from props import dedoc as D
from props.dedoc import hx

CRASH = ("PANIC", "ABORT", "HANG")


# ------------------------------------------------------------------ s-expressions
def sexp(s):
    """'(struct (a (u 1)) (b (none)))' -> ['struct', ['a', ['u', '1']], ['b', ['none']]]"""
    toks = re.findall(r"\(|\)|[^\s()]+", s)
    pos = 0

    def rd():
        nonlocal pos
        t = toks[pos]; pos += 1
        if t == "(":
            l = []
            while toks[pos] != ")":
                l.append(rd())
            pos += 1
            return l
        return t
    v = rd()
    if pos != len(toks):
        raise ValueError("trailing")
    return v


def cut_of(a, b):
    """a may be what is left of b after a cut: equal; string prefix; sequence equal but for its last element; anything else free"""
    if a == b:
        return None
    if isinstance(a, list) and isinstance(b, list) and a and b and a[0] == b[0]:
        if a[0] == "str" and len(a) == 2 and len(b) == 2:
            x, y = a[1].replace("-", ""), b[1].replace("-", "")
            if x.endswith("efbfbd") and not y.startswith(x):
                x = x[:-6]          # utf-8: the cut fell inside a multi-byte character, the lossy decoder shows U+FFFD for the torn bytes
            return None if y.startswith(x) else "string %s is not a prefix of %s" % (a[1], b[1])
        if a[0] == "seq":
            if len(a) > len(b):
                return "sequence of %d elements, the complete document has %d" % (len(a) - 1, len(b) - 1)
            for i in range(1, len(a) - 1):
                if a[i] != b[i]:
                    return "sequence element %d differs" % (i - 1)
    return None


def judge_cut_value(R, A, B, key_hex):
    """R accepted while field `key` is being cut.  A / B = expected without / with that field (strings, maybe ERR:..)"""
    if R == A or R == B:
        return None
    ref = A if not A.startswith("ERR") else (B if not B.startswith("ERR") else None)
    if ref is None:
        return "accepted, although the document is refused both without (%s) and with (%s) the field being cut" % (A, B)
    try:
        r, f = sexp(R), sexp(ref)
        b = sexp(B) if not B.startswith("ERR") else None
    except Exception:
        return "unreadable value"
    if not (isinstance(r, list) and isinstance(f, list) and r and f and r[0] == f[0]):
        return "root is %s, expected %s" % (str(r)[:40], str(f)[:40])
    if r[0] == "struct":
        rd, fd = dict((x[0], x[1:]) for x in r[1:]), dict((x[0], x[1:]) for x in f[1:])
        bd = dict((x[0], x[1:]) for x in b[1:]) if b else {}
        if list(rd) != list(fd):
            return "struct fields %s, expected %s" % (list(rd), list(fd))
        for name in rd:
            if name != key_hex:
                if rd[name] != fd[name]:
                    return "field %s (not the one being cut, %s) is %s, the completed fields give %s" % (name, key_hex, rd[name], fd[name])
            elif name in bd and rd[name] and bd[name]:
                why = cut_of(strip_opt(rd[name][0]), strip_opt(bd[name][0]))
                if why:
                    return "field %s (being cut): %s" % (name, why)
        return None
    if r[0] == "map":
        re_, fe = r[1:], (sexp(A)[1:] if not A.startswith("ERR") else [])
        if len(re_) > len(fe) + 1:
            return "%d map entries, the completed fields give %d" % (len(re_), len(fe))
        if re_[:len(fe)] != fe and re_ != fe[:len(re_)]:
            return "map entries %s, the completed fields give %s" % (str(re_)[:120], str(fe)[:120])
        if len(re_) == len(fe) + 1 and re_[-1][0] != key_hex:
            return "extra map entry %s, the field being cut is %s" % (re_[-1][0], key_hex)
        return None
    return None


def strip_opt(v):
    while isinstance(v, list) and len(v) == 2 and v[0] == "some":
        v = v[1]
    return v


# ------------------------------------------------------------------ documents
def small_doc(rng, i64):
    for _ in range(200):
        doc = D.gen_doc(rng, ops=False, allow_escape=False, i64=i64)
        doc["ghost"] = []
        if 1 <= len(doc["f"]) <= 6:
            return doc
    raise RuntimeError("doc")


def sub(doc, n):
    d = dict(doc)
    d["f"] = doc["f"][:n]
    d["ghost"] = []
    return d


def one(doc, i):
    d = dict(doc)
    d["f"] = [doc["f"][i]]
    d["ghost"] = []
    return d


SEPS = [b" ", b" ", b"\n", b"\r\n\t", b"  ", b"\n#c\n", b" # a comment = { \n", b" {} ", b"\n{ }\n"]
TAILS = [b"", b"", b"\n", b" ", b"\r\n", b" # end", b"\n#", b" {}"]


def render_text_fields(doc, rng, enc):
    style = rng.choice(["compact", "spaced", "lines", "wild"])
    out = bytearray(b"\xef\xbb\xbf" if (enc == "utf8" and rng.random() < 0.3) else b"")
    spans = []
    n = len(doc["f"])
    for i in range(n):
        piece = D.render_text(one(doc, i), rng, enc, style=style, trailing=False).strip(b" \t\r\n")
        s = len(out)
        out += piece
        spans.append((s, len(out)))
        if i + 1 < n:
            out += rng.choice(SEPS)
    out += rng.choice(TAILS)
    return bytes(out), spans


def render_bin_fields(doc, rng, fl):
    out = bytearray()
    bounds = {0: 0}
    for i in range(len(doc["f"])):
        if i > 0 and rng.random() < 0.15:
            out += D.OPEN + D.CLOSE
            bounds[len(out)] = i
        out += D.render_bin(one(doc, i), fl)
        bounds[len(out)] = i + 1
    if rng.random() < 0.1:
        out += D.OPEN + D.CLOSE
        bounds[len(out)] = len(doc["f"])
    return bytes(out), bounds


def pick_shape(rng, doc, M, mode):
    for _ in range(20):
        sh = D.gen_shape(rng, [doc], dict(mode=mode, full=rng.random() < 0.5, mishint=0.0, prop=False, any=True, root=True))
        e = D.expected(sh, doc, M)
        if not e.startswith("ERR"):
            return sh, e
    return None, None


# ------------------------------------------------------------------ text
def run_text(ctx):
    rng = ctx.rng
    cases, meta, groups = [], [], []
    for _ in range(ctx.scale(26, 300)):
        doc = small_doc(rng, True)
        enc = rng.choice(["w1252", "utf8"])
        M = D.Mode("text", enc=enc)
        sh, exp = pick_shape(rng, doc, M, "text")
        if sh is None:
            continue
        data, spans = render_text_fields(doc, rng, enc)
        if len(data) > 170:
            continue
        mt = max(64, D.max_token_len(doc, enc) + 8)
        paths = ["slice", "tape", "objreader", "reader:%d:-" % mt, "reader:%d:1*" % mt]
        exps = [D.expected(sh, sub(doc, n), M) for n in range(len(doc["f"]) + 1)]
        shs = D.shape_str(sh)
        g = len(groups)
        groups.append((doc, data, spans, exps, shs, enc))
        ctx.count("typed_text_docs")
        ctx.count("typed_text_root_" + sh[0])
        for k in range(len(data) + 1):
            for p in paths:
                cases.append("\t".join(["de.text", p, enc, shs, hexs(data[:k])])); meta.append((g, k, p))
    impl, _ = ctx.correspond("typed_text_truncations", cases, model=False, nontrivial=lambda c, i: i.startswith("("))
    base = len(impl) - len(cases)
    good = set()
    for j, (g, k, p) in enumerate(meta):
        doc, data, spans, exps, shs, enc = groups[g]
        if k == len(data):
            if impl[base + j] == exps[-1]:
                good.add((g, p))
            else:
                ctx.count("typed_text_skipped")
    for j, (g, k, p) in enumerate(meta):
        o = impl[base + j]
        doc, data, spans, exps, shs, enc = groups[g]
        if o in CRASH:
            ctx.fail("typed-text-trunc-crash", "%s path, target %s, %r cut at %d: %s" % (p, shs, data, k, o), [cases[j]], [o]); continue
        if o.startswith("ERR") or (g, p) not in good:
            continue
        n = sum(1 for (s, e) in spans if e <= k)
        A = exps[n]
        cutting = n < len(spans) and spans[n][0] < k
        if not cutting:
            if o != A:
                ctx.fail("typed-text-trunc-fabricated", "%s path, target %s: %r cut at %d (after %d complete fields, no field being cut) returned %s; the %d complete "
                         "fields give %s" % (p, shs, data, k, n, o[:200], n, A[:200]), [cases[j]], [o], A)
            continue
        why = judge_cut_value(o, A, exps[n + 1], hx(doc["f"][n]["k"]))
        if why:
            ctx.fail("typed-text-trunc-fabricated", "%s path, target %s: %r cut at %d (inside field %d `%s`) returned %s: %s" % (p, shs, data, k, n, doc["f"][n]["k"], o[:200], why),
                     [cases[j]], [o], A)
    ctx.count("typed_text_truncation_cases", len(cases))


# ------------------------------------------------------------------ binary
def run_bin(ctx):
    rng = ctx.rng
    cases, meta, groups = [], [], []
    for _ in range(ctx.scale(30, 300)):
        doc = small_doc(rng, rng.random() < 0.3)
        if not D.bin_representable(doc):
            continue
        fl = rng.choice(["eu4", "raw"])
        ids = doc["ids"]
        known = set(ids)
        strat = rng.choice(["error", "stringify", "ignore"])
        M = D.Mode("bin", flavor=fl, strategy=strat, known=known, ids=ids)
        sh, exp = pick_shape(rng, doc, M, "bin")
        if sh is None:
            continue
        if rng.random() < 0.3:
            sh2 = D.to_tstruct(sh, ids, rng)
            if not D.expected(sh2, doc, M).startswith("ERR"):
                sh = sh2
        data, bounds = render_bin_fields(doc, rng, fl)
        if len(data) > 150:
            continue
        res = D.resolver_spec(ids, known, rng.choice(["map", "lines"]))
        mt = max(40, D.max_token_len(doc, D.flavor_enc(fl)) + 8)
        paths = ["tape", "slice", "reader:%d:-" % mt, "reader:%d:1*" % mt]
        exps = [D.expected(sh, sub(doc, n), M) for n in range(len(doc["f"]) + 1)]
        shs = D.shape_str(sh)
        g = len(groups)
        groups.append((doc, data, bounds, exps, shs))
        ctx.count("typed_bin_docs")
        for k in range(len(data) + 1):
            for p in paths:
                cases.append("\t".join(["de.bin", p, strat, res, fl, shs, hexs(data[:k])])); meta.append((g, k, p))
    impl, _ = ctx.correspond("typed_bin_truncations", cases, model=False, nontrivial=lambda c, i: i.startswith("("))
    base = len(impl) - len(cases)
    good = set()
    for j, (g, k, p) in enumerate(meta):
        doc, data, bounds, exps, shs = groups[g]
        if k == len(data):
            if impl[base + j] == exps[-1]:
                good.add((g, p))
            else:
                ctx.count("typed_bin_skipped")
    for j, (g, k, p) in enumerate(meta):
        o = impl[base + j]
        doc, data, bounds, exps, shs = groups[g]
        if o in CRASH:
            ctx.fail("typed-bin-trunc-crash", "%s path, target %s, %s cut at %d: %s" % (p, shs, data.hex(), k, o), [cases[j]], [o]); continue
        if o.startswith("ERR") or (g, p) not in good:
            continue
        n = bounds.get(k, bounds.get(k - 1))
        if n is None:
            ctx.fail("typed-bin-trunc-accepted", "%s path, target %s: %s cut at %d (inside a container / payload / between a key and the end of its value) accepted as %s"
                     % (p, shs, data.hex(), k, o[:160]), [cases[j]], [o], "an error")
        elif o != exps[n]:
            ctx.fail("typed-bin-trunc-fabricated", "%s path, target %s: %s cut at %d (after %d complete fields) returned %s; the %d complete fields give %s"
                     % (p, shs, data.hex(), k, n, o[:200], n, exps[n][:200]), [cases[j]], [o], exps[n])
    ctx.count("typed_bin_truncation_cases", len(cases))


def run_part(ctx):
    run_text(ctx)
    run_bin(ctx)
