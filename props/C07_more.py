"""C07, wave 4 (engineer a_c07): the clauses, entry points and quantifier dimensions that props/C07.py
did not reach (see audit/C07.md).

* `ops` / `recycled`: every public entry point of text::TokenReader as a *list of calls* on one reader
  (next, read, read_bytes, position after each call, into_parts) x every way of building the reader
  (from_slice, new = 32 KiB default, buffer_len, dirty buffer, buffer really recycled from a previous
  reader with into_parts()).
* `stream_more`: the schedule families the quantifier names but the generator only sampled (ALL 1-cut
  and ALL 2-cut schedules of longer inputs, all compositions of targeted short inputs), atoms of every
  kind (quoted+escapes, unquoted, @word, @[..], comment, comment at EOF, operator, whitespace run, BOM
  probe, truncated tails) sized so that need = cap-1 / cap / cap+1 under every schedule family, the
  BOM at every offset, NUL / lone CR / bytes >= 0x80.
* `cap0`: buffer_len(0), model = implementation only (degenerate configuration, see audit).

Independent oracles (no model involved): a python reference tokenizer written from the format
(`ref_tokenize`), the position law (`position()` after a call lies between the end of the token just
returned and the start of the next one, only blanks in between; at a clean end it is the input
length), `read` = `next` with the clean end turned into Eof, read_bytes = the bytes of the input."""
from vlib import hexs
from props import textgen as tg

BOM = b"\xef\xbb\xbf"
WS = set(b" \t\n\r;")
BOUND = set(b"\t\n\x0b\x0c\r !#<=>[]}{")
OPC = {b"<": 0, b"<=": 1, b">": 2, b">=": 3, b"!": 4, b"!=": 4, b"==": 5, b"=": 6, b"?": 7, b"?=": 7}


def ref_tokenize(data, start=True):
    """Reference tokenizer, from the format: returns ([(text, start, end)], terminal, position).
    terminal: END (position = len) or ERR:102 (the input ends inside an atom)."""
    n, i, toks = len(data), 0, []
    if start and data[:1] == b"\xef":
        if n < 3:
            return toks, "ERR:102", 0
        if data[:3] == BOM:
            i = 3
    while i < n:
        c = data[i]
        if c in WS:
            i += 1
        elif c == 0x23:
            j = data.find(b"\n", i)
            if j < 0:
                return toks, "END", n
            i = j
        elif c == 0x7b:
            toks.append(("O", i, i + 1)); i += 1
        elif c == 0x7d:
            toks.append(("C", i, i + 1)); i += 1
        elif c == 0x22:
            j = i + 1
            while True:
                if j >= n:
                    return toks, "ERR:102", i
                if data[j] == 0x5c:
                    j += 2
                elif data[j] == 0x22:
                    break
                else:
                    j += 1
            toks.append(("Q:" + hexs(data[i + 1:j]), i, j + 1)); i = j + 1
        elif c in b"=<>!?":
            if i + 1 >= n:
                return toks, "ERR:102", i
            op = data[i:i + 2] if data[i + 1] == 0x3d else data[i:i + 1]
            toks.append(("OP:%d" % OPC[op], i, i + len(op))); i += len(op)
        elif c == 0x40 and i + 1 >= n:
            return toks, "ERR:102", i
        elif c == 0x40 and data[i + 1] == 0x5b:
            j = data.find(b"]", i + 2)
            if j < 0:
                return toks, "ERR:102", i
            toks.append(("U:" + hexs(data[i:j + 1]), i, j + 1)); i = j + 1
        else:
            j = i + 1
            while j < n and data[j] not in BOUND:
                j += 1
            toks.append(("U:" + hexs(data[i:j]), i, j)); i = j
    return toks, "END", n


def ref_line(data):
    toks, term, _ = ref_tokenize(data)
    return [t[0] for t in toks], term


def parse_ops_out(o):
    """items [(text, pos)], P, L, D   or None"""
    parts = o.split(" ")
    if len(parts) < 3 or not (parts[-1].startswith("D") and parts[-2].startswith("L") and parts[-3].startswith("P")):
        return None
    items = []
    for x in parts[:-3]:
        if "@" not in x:
            return None
        a, b = x.rsplit("@", 1)
        items.append((a, int(b)))
    return items, int(parts[-3][1:]), int(parts[-2][1:]), int(parts[-1][1:])


def sched_str(s):
    return ",".join(str(x) for x in s) if s else "-"


def shortc(c):
    return c if len(c) <= 160 else c[:150] + "..."


# ---------------------------------------------------------------- atoms of every kind with a given need
def atom_inputs():
    """(label, input) pairs whose largest atom is of one kind, for lengths around the 8/9/16 byte edges"""
    out = []
    for L in (1, 2, 3, 7, 8, 9, 10, 15, 16, 17, 24, 33):
        w = bytes(b"abcdefghijklmnopqrstuvwxyz0123456789"[k % 36] for k in range(L))
        out.append(("unquoted", b"k=" + w + b" z=1"))
        out.append(("unquoted-eof", b"k=" + w))
        out.append(("unquoted-nonalnum", b"k=\xe9" + w[1:] + b"\n"))
        out.append(("atword", b"@" + w + b"=1"))
        out.append(("atbracket", b"x=@[" + w + b"] y"))
        out.append(("atbracket-eof", b"x=@[" + w))
        out.append(("quoted", b'k="' + w + b'" z'))
        if L >= 3:
            out.append(("quoted-esc", b'k="' + w[:L // 2 - 1] + b'\\"' + w[L // 2 + 1:] + b'" z'))
            out.append(("quoted-esc-end", b'k="' + w[:L - 2] + b'\\\\" z'))
            out.append(("quoted-esc-all", b'"' + b'\\"' * (L // 2) + b'" z'))
        out.append(("quoted-eof", b'k="' + w))
        out.append(("quoted-eof-esc", b'k="' + w + b"\\"))
        out.append(("comment", b"a #" + w + b"\nb"))
        out.append(("comment-cr", b"a #" + w + b"\r\nb"))
        out.append(("comment-eof", b"a=b #" + w))
        out.append(("ws-run", b"a" + b" " * L + b"b"))
        out.append(("ws-run-tabs", b"a=b\n" + b"\t" * L + b"c"))
        out.append(("ws-only", b" " * L))
    out += [("operator", b"a>=b"), ("operator", b"a==b"), ("operator", b"a<=b"), ("operator", b"a!=b"), ("operator", b"a?=b"), ("operator", b"a=b"),
            ("operator-eof", b"a="), ("operator-eof", b"a>"), ("operator-eof", b"a !"), ("operator-eof", b"a ?"), ("operator-eof", b"a<"), ("at-eof", b"a @"),
            ("braces", b"{{}}{}"), ("bom", BOM + b"a=1"), ("bom-only", BOM), ("bom-partial", b"\xef\xbb"), ("bom-partial", b"\xef"), ("bom-not", b"\xef\xbb\xbea=1"),
            ("bom-not", b"\xefa=1"), ("bom-not", b"\xef\xbb=1")]
    return out


def special_inputs(rng):
    """NUL, lone CR, bytes >= 0x80, BOM at every offset"""
    out = [b"a\x00b=c\x00 \x00", b"\x00", b"\x00=\x00", b'"\x00"', b'k="a\x00b" \x00x', b"#\x00\n\x00", b"a\rb", b"a=b\rc=d\r", b"\r", b"#c\ra\nb", b'"a\rb"\r', b"a=\r\rb",
           b"\x80\x81=\xfe\xff", b"\xff", b'"\xff\xfe"', b"caf\xe9=\xfc \xa0x", b"\xc3\xa9=\xef\xbb\xbf", b"a=\xefb", b"a={\xef\xbb\xbf}", b"{\xef\xbb\xbfx}", b'"q"\xef\xbb\xbfy',
           b"name=\xef", b"name=\xefa", b"#\xef\xbb\xbf\na", BOM + BOM + b"a", BOM + b" " + BOM, b" " + BOM, b"\n" + BOM + b"a=1", BOM + b"#c", BOM + b'"q"', BOM + b"{", BOM + b"=a"]
    base = b"ab=1 {c}"
    for k in range(len(base) + 1):
        out.append(base[:k] + BOM + base[k:])
    alpha = b"\x00\r\x80\xff\xef\xbb\xbfa= \"\\#\n{"
    for _ in range(40):
        out.append(bytes(rng.choice(alpha) for _ in range(rng.randrange(1, 14))))
    return out


def family_schedules(rng, n):
    """one representative of every schedule family"""
    out = [[1] * n, [n or 1], [2] * (n // 2 + 1), [3] * (n // 3 + 1), [8] * (n // 8 + 1), [9] * (n // 9 + 1)]
    if n > 1:
        out.append([rng.randrange(1, n), n])
    if n > 2:
        c1 = rng.randrange(1, n - 1)
        out.append([c1, rng.randrange(1, n - c1), n])
    s, t = [], 0
    while t < n:
        x = rng.choice([1, 1, 2, 3, 5, 8, 9, 13])
        s.append(x); t += x
    out.append(s)
    return out


def all_cuts(n, two=True):
    out = [[c, n] for c in range(1, n)]
    if two:
        out += [[c1, c2 - c1, n] for c1 in range(1, n) for c2 in range(c1 + 1, n)]
    return out


# ---------------------------------------------------------------- the run
def run(ctx, C07):
    import vlib
    rng = ctx.rng

    # ================= stream_more: tr.stream over the missing quantifier dimensions =================
    cases, meta = [], []

    def add(inp, cap, sched, recycled=None, tag=""):
        c = "tr.stream\t%d\t%s\t%s" % (cap, sched_str(sched), hexs(inp)) + ("\t%d" % recycled if recycled is not None else "")
        cases.append(c); meta.append((inp, cap, sched, tag))

    atoms = atom_inputs()
    specials = special_inputs(rng)
    longer = [b'k="aa\\"bb\\\\" #c\nv>=@[1] {x}', b"\xef\xbb\xbfab == \"q\\\\\"\r\n#z\n@w ?= 1;", b"a=b\n\t\t\t\t\t\t\t\tc={ d }", b'x="\\\\\\"" y!=z #end']
    shorts = [b'"a\\"b"c', b"a>=1 b", BOM + b"a=1", b"#c\na=b", b"@[x]=1", b"a\r=\x00 b", b'k="\\\\"', b"\xef\xbba=1", b"a ?= b", b"{a}#x", b'""=""', b"@a @[", b'"\\"', b"a<=>b"]
    all_inputs = [i for _, i in atoms] + specials + longer + shorts
    need_out = vlib.run_model(["tr.need\t%s" % hexs(i) for i in all_inputs])
    need = {i: int(o) for i, o in zip(all_inputs, need_out) if o.isdigit()}
    if len(need) != len(set(all_inputs)):
        ctx.broken.append({"what": "model-build", "detail": "tr.need did not answer for every input"})
    kinds = {}
    for label, inp in atoms:
        nd = need.get(inp, tg.atoms(inp))
        n = len(inp)
        kinds[label] = kinds.get(label, 0) + 1
        for cap in sorted(set([max(1, nd - 1), nd, nd + 1])):
            for s in family_schedules(rng, n):
                add(inp, cap, s, tag=label)
        # a dirty buffer of exactly the needed size, one-byte reads
        add(inp, max(1, nd), [1] * n, recycled=rng.choice([0x22, 0x5c, 0x7b, 0x7d, 0x23, 0x0a]), tag=label)
    for k, v in kinds.items():
        ctx.count("atom_" + k, v)
    for inp in specials:
        nd = need.get(inp, tg.atoms(inp))
        n = len(inp)
        for s in family_schedules(rng, n)[:7]:
            add(inp, rng.choice([max(nd, 1), nd + 1, n + 1, 64]), s, tag="special")
        add(inp, max(nd, 1), [1] * n, tag="special")
        if nd > 1:
            add(inp, nd - 1, [1] * n, tag="special")
    ctx.count("special_inputs", len(specials))
    # ALL 1-cut and 2-cut schedules (the generator of C07.py samples them)
    for inp in longer:
        nd = need.get(inp, tg.atoms(inp))
        for s in all_cuts(len(inp)):
            add(inp, rng.choice([nd, nd + 1, len(inp) + 1]), s, tag="allcuts")
    for label, inp in atoms:
        if label in ("quoted-esc", "quoted-esc-end", "comment", "atbracket", "unquoted") and 12 <= len(inp) <= 26:
            nd = need.get(inp, tg.atoms(inp))
            for s in all_cuts(len(inp), two=ctx.tier == "thorough"):
                add(inp, nd, s, tag="allcuts")
    # every composition of targeted short inputs, at the just-sufficient size and one above the input
    for inp in shorts:
        nd = need.get(inp, tg.atoms(inp))
        for comp in tg.compositions(len(inp)):
            add(inp, max(nd, 1), comp, tag="compositions")
    ctx.count("allcuts_inputs", len(longer)); ctx.count("composition_inputs", len(shorts))

    uniq = sorted(set(m[0] for m in meta))
    slice_cases = ["tr.slice\t%s" % hexs(i) for i in uniq]
    s_impl, _ = ctx.correspond("slice_more", slice_cases, nontrivial=lambda c, i: " " in i)
    sb = len(s_impl) - len(slice_cases)
    smap = {}
    for k, inp in enumerate(uniq):
        o = s_impl[sb + k]
        smap[inp] = o
        S = C07.split_out(o)
        toks, term = ref_line(inp)
        if S is None:
            ctx.fail("crash", "slice reader %s on %r" % (o, inp), [slice_cases[k]], [o])
        elif S[0] != toks or S[1] != term:
            ctx.fail("slice-ne-reference", "from_slice reader on %r: %s ; reference tokenizer: %s %s" % (inp, o, " ".join(toks), term), [slice_cases[k]], [o], " ".join(toks + [term]))
        elif S[1] == "END" and S[2] != str(len(inp)):
            ctx.fail("position", "slice reader ends cleanly at %s, length %d: %r" % (S[2], len(inp), inp), [slice_cases[k]], [o])
    t_impl, _ = ctx.correspond("stream_more", cases, nontrivial=lambda c, i: ("U:" in i or "Q:" in i or "ERR" in i))
    tb = len(t_impl) - len(cases)
    for k, (inp, cap, sched, tag) in enumerate(meta):
        nd = need.get(inp, tg.atoms(inp))
        both = ["tr.slice\t%s" % hexs(inp), cases[k]]
        C07.judge(ctx, inp, nd, cap, sched_str(sched), smap[inp], t_impl[tb + k], both)
        T = C07.split_out(t_impl[tb + k])
        if T and inp in need and 0 < cap < nd and T[1] != "ERR:101":
            ctx.fail("undersized-not-bufferfull", "[%s] on %r cap=%d < need %d the reader ended with %s instead of BufferFull" % (tag, inp, cap, nd, T[1]), both, [smap[inp], t_impl[tb + k]], "ERR:101")
    ctx.count("stream_more_cases", len(cases))

    # ================= cap0: buffer_len(0) -- degenerate, model = implementation only =================
    c0 = ["tr.stream\t0\t%s\t%s" % (sched_str(s), hexs(i)) for i in (b"", b"a", b"a=1", b" ", BOM) for s in ([], [1, 1, 1])]
    ctx.correspond("cap0", c0)

    # ================= ops: lists of calls on one reader =================
    ocases, ometa = [], []

    def addop(mode, cap, sched, inp, ops, rec=None):
        if rec is None:
            ocases.append("tr.ops\t%s\t%d\t%s\t%s\t%s" % (mode, cap, sched_str(sched), hexs(inp), ops))
        else:
            ocases.append("tr.opsrec\t%d\t%s\t%s\t%s\t%s\t%s\t%s" % (cap, sched_str(sched), hexs(inp), ops, sched_str(rec[0]), hexs(rec[1]), rec[2]))
        ometa.append((mode if rec is None else "rec", cap, sched, inp, ops))

    oin = [tg.gen_stream(rng) for _ in range(ctx.scale(220, 2500))] + [tg.gen_soup(rng) for _ in range(ctx.scale(80, 800))]
    oin += [b"abcdefghij klm", b"EU4txt\nabcdefghij klm=\"q\\\"x\" #c\n{ } a>=1", b"a=b", b"", b" ", b"#c", b"a=", b'"', BOM + b"a=1 ", b"a=1\n#x"] + [i for _, i in atoms[::5]] + specials[::3]
    prev = b"{{{ }}} {}{}{}{ a=b c=d \"}{\" #{}\n e=f {{{{{{}}}}}}}}}}}}}}}}}}}}} = = \"\"\"\" \\\\\\"
    oneed_out = vlib.run_model(["tr.need\t%s" % hexs(i) for i in oin])
    for inp, no in zip(oin, oneed_out):
        n = len(inp)
        nd = int(no) if no.isdigit() else n + 1
        scheds = tg.schedules(rng, n, 2)
        fit = sorted(set([max(nd, 1), nd + 1, n + 1, n + 9]))
        mix = ",".join(rng.choice("nnr") for _ in range(rng.randrange(1, 8)))
        addop("slice", 0, [], inp, "N"); addop("slice", 0, [], inp, "R"); addop("slice", 0, [], inp, mix + ",N")
        for ops in ("N", "R", mix + ",N"):
            addop("len", rng.choice(fit), rng.choice(scheds), inp, ops)
        addop("new", 0, rng.choice(scheds), inp, rng.choice(["N", "R"]))
        addop("buf%d" % rng.choice([0x7b, 0x7d, 0x22, 0x23, 0x5c, 0xef, 0x0a, 0x41]), rng.choice(fit), rng.choice(scheds), inp, rng.choice(["N", "R"]))
        # a buffer recycled from a real previous reader (same capacity; the first reader is stopped anywhere)
        cap = rng.choice(fit)
        first = prev if rng.random() < 0.6 else rng.choice(oin)
        addop("len", cap, rng.choice(scheds), inp, rng.choice(["N", "R"]),
              rec=(rng.choice([[], [1] * 9, [7, 2, 5], [cap]]), first, rng.choice(["N", "n,n,n", "n", "b3,n,n", "R"])))
        # undersized: must not end cleanly / split
        if nd > 1:
            addop("len", rng.choice([nd - 1, max(1, nd // 2), 1]), rng.choice(scheds), inp, rng.choice(["N", "R"]))
        # header bytes first (what a save-file reader does), then tokens
        k = rng.choice([0, 1, 2, 3, 6, 7, n, n + 1, rng.randrange(0, n + 2)])
        rest = inp[k:]
        capk = max(k, 1, n + 1)
        addop("slice", 0, [], inp, "b%d,N" % k)
        addop("len", capk, rng.choice(scheds), inp, "b%d,N" % k)
        addop("len", rng.choice([max(1, k - 1), max(1, k), k + 1, 1, 2]), rng.choice(scheds), inp, "b%d,N" % k)
        # read_bytes in the middle of the token stream: model = implementation (chunk-dependent by one blank, see audit)
        j = rng.randrange(0, 5)
        addop(rng.choice(["len", "slice"]), n + 9, rng.choice(scheds), inp, ",".join(["n"] * j + ["b%d" % rng.randrange(0, 4), "N"]))
    # the witnesses of Props/C07_ops.v (C07_read_bytes_after_token_refuted, C07_mid_position_refuted) on the real code: model = implementation
    w = b"abcdefghij klmnopqrst"
    wit = ["tr.opsp\tlen\t15\t%s\t%s\tn,b1" % (sched_str([1] * 21), hexs(w)), "tr.opsp\tslice\t0\t-\t%s\tn,b1" % hexs(w),
           "tr.opsp\tlen\t15\t%s\t%s\tn,n,n" % (sched_str([1] * 21), hexs(w)), "tr.opsp\tslice\t0\t-\t%s\tn,n,n" % hexs(w)]
    ctx.correspond("ops_witness", wit)
    # model = implementation on the results and the final position ...
    ctx.correspond("ops", ocases, nontrivial=lambda c, i: ("U:" in i or "Q:" in i or "B:" in i))
    # ... and the same calls with position() printed after each of them: judged by the oracles below only (the position in
    # the middle of the stream depends on the fast path swallowing one blank, which the property does not fix)
    ocases = [c.replace("tr.opsrec\t", "tr.opsrecp\t", 1).replace("tr.ops\t", "tr.opsp\t", 1) for c in ocases]
    o_impl, _ = ctx.correspond("ops_positions", ocases, nontrivial=lambda c, i: ("U:" in i or "Q:" in i or "B:" in i), model=False)
    ob = len(o_impl) - len(ocases)
    need_of = {inp: (int(no) if no.isdigit() else None) for inp, no in zip(oin, oneed_out)}
    for k, (mode, cap, sched, inp, ops) in enumerate(ometa):
        o = o_impl[ob + k]
        c = [ocases[k]]
        if o in ("PANIC", "ABORT", "HANG") or "RUNAWAY" in o or "BADCASE" in o:
            ctx.fail("ops-crash", "%s on %s" % (o, shortc(ocases[k])), c, [o]); continue
        P = parse_ops_out(o)
        if P is None:
            ctx.fail("format", "unparsable output of %s" % shortc(ocases[k]), c, [o]); continue
        items, pos, blen, deliv = P
        n = len(inp)
        nd = need_of.get(inp)
        # ---- into_parts: the buffer that comes back is the one that went in; the inner Read was not over-consumed
        want_len = 0 if mode == "slice" else 32768 if mode == "new" else cap
        if blen != want_len:
            ctx.fail("into-parts-buffer", "into_parts returned a buffer of %d bytes, built with %d: %s" % (blen, want_len, shortc(ocases[k])), c, [o], "L%d" % want_len)
        if mode != "slice" and not (pos <= deliv <= n):
            ctx.fail("into-parts-delivered", "position %d but the Read delivered %d of %d bytes: %s" % (pos, deliv, n, shortc(ocases[k])), c, [o])
        # ---- header read_bytes as first call
        first_b = ops.startswith("b")
        hk = int(ops.split(",")[0][1:]) if first_b else 0
        ecap = 10 ** 9 if mode == "slice" else (32768 if mode == "new" else cap)
        if first_b:
            it = items[0][0] if items else "?"
            if hk <= n and hk <= ecap:
                exp = "B:" + hexs(inp[:hk])
            elif n < hk and (n < ecap):
                exp = "ERR:102"
            else:
                exp = "ERR:101"
            if it != exp or (it.startswith("B:") and items[0][1] != hk):
                ctx.fail("read-bytes", "read_bytes(%d) as first call on %r (cap %s) gave %s@%s, expected %s@%d" % (hk, inp, ecap, it, items[0][1] if items else "?", exp, hk if exp.startswith("B") else 0), c, [o], exp)
                continue
            if not it.startswith("B:"):
                continue
        # ---- position law + reference tokens for runs made of next/read (optionally after the header)
        body = ops.split(",")[1:] if first_b else ops.split(",")
        if any(x.startswith("b") for x in body):
            continue
        rest = inp[hk:]
        toks, term, _ = ref_tokenize(rest, start=(hk == 0))
        fits_rest = mode == "slice" or ecap >= n + 1 or (hk == 0 and nd is not None and ecap >= nd)
        got = items[1:] if first_b else items
        calls = []
        for x in body:
            calls += [x.lower()] * (n + 2 if x in ("N", "R") else 1)
        exp_items = []
        for idx, call in enumerate(calls):
            if idx < len(toks):
                exp_items.append(toks[idx][0])
            else:
                exp_items.append("ERR:102" if (term == "ERR:102" or call == "r") else "END")
                break
        got_items = [a for a, _ in got]
        if fits_rest:
            if got_items != exp_items:
                key = "read-vs-next" if (got_items[:-1] == exp_items[:-1] and {got_items[-1], exp_items[-1]} == {"END", "ERR:102"} and term == "END") else "ops-ne-reference"
                ctx.fail(key, "calls %s on %r (%s cap=%s sched=%s): got %s, reference %s" % (ops, inp, mode, ecap, C07.short(sched_str(sched)), " ".join(got_items), " ".join(exp_items)), c, [o], " ".join(exp_items))
                continue
            # position after each call
            for idx, (a, p) in enumerate(got):
                if idx < len(toks) and a == toks[idx][0]:
                    lo = hk + toks[idx][2]
                    hi = hk + (toks[idx + 1][1] if idx + 1 < len(toks) else len(rest))
                    gap_ok = lo <= p <= hi and all(b in WS for b in inp[lo:p])
                    if not gap_ok:
                        ctx.fail("position-law", "after call %d (%s) position() = %d, the token ends at %d and the next item starts at %d: %s" % (idx + 1, a, p, lo, hi, shortc(ocases[k])), c, [o], "%d..%d" % (lo, hi))
                        break
                elif a == "END" or (a == "ERR:102" and term == "END"):
                    if p != n:
                        ctx.fail("position", "clean end reported at position %d, input length %d: %s" % (p, n, shortc(ocases[k])), c, [o], "@%d" % n)
            if pos != (got[-1][1] if got else (hk if first_b else 0)):
                ctx.fail("position-law", "position() changed without a call: %s" % shortc(ocases[k]), c, [o])
        else:
            # undersized: a prefix of the reference tokens, then an error -- never a clean end, never a split token
            ok_prefix = got_items[:-1] == exp_items[:len(got_items) - 1] and got_items[-1].startswith("ERR") if got_items else False
            if got_items != exp_items and not ok_prefix:
                ctx.fail("undersized-" + ("clean-end" if got_items and got_items[-1] == "END" else "split"),
                         "calls %s on %r cap=%s < need: got %s, reference %s" % (ops, inp, ecap, " ".join(got_items), " ".join(exp_items)), c, [o], "prefix of the reference tokens, then ERR")
    ctx.count("ops_cases", len(ocases))
