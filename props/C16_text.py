"""C16, text half (wave 4, a_dom): the exact JSON text of to_writer / to_vec / to_string.

Stream `print` (harness/src/fam_jsontext.rs, model coq/theories/JsonText.v): the bytes the three
entry points of all three builders emit (must be identical), compared with the printer model
(serde_json's compact and pretty formatter) applied to the model's tree; float tokens are checked
against the JSON number grammar by the harness and replaced by their bit pattern on both sides.

Oracles on the implementation's text (independent of the model):
  json-invalid     a strict RFC 8259 recogniser written here (and Python's json module, strict) accepts
                   the text; the text is valid UTF-8; compact output has no byte outside tokens
  pretty-ws        the pretty text has the same token sequence as the compact text and only
                   ' ' / '\\n' between tokens (pretty printing changes whitespace only)
  doc-order        (Preserve, TypeNarrowing::None, root object): the token sequence of the text is the
                   one a walk over the TAPE STRING alone predicts: every key and every scalar in
                   document order, operators / headers as single-entry objects, the array part under
                   "remainder", key-op-value triples inside arrays folded (no DOM view, no model involved)
  header-single    a header value becomes {"<header>": <json of its container>}
  entry / default  to_writer = to_vec = to_string; json() without with_options = default options"""
import json, re
from vlib import hexs, unhex

OPNAMES = {"0": "LESS_THAN", "1": "LESS_THAN_EQUAL", "2": "GREATER_THAN", "3": "GREATER_THAN_EQUAL", "4": "NOT_EQUAL",
           "5": "EXACT", "6": "EQUAL", "7": "EXISTS"}
OPSYM = {"0": "<", "1": "<=", "2": ">", "3": ">=", "4": "!=", "5": "==", "6": "=", "7": "?="}


# ------------------------------------------------------------------ strict RFC 8259 tokenizer / recogniser
class Bad(Exception):
    pass


WS = b" \t\n\r"
NUM = re.compile(rb"-?(0|[1-9][0-9]*)(\.[0-9]+)?([eE][+-]?[0-9]+)?")
FLT = re.compile(rb"#[0-9a-f]{16}#")


def tokenize(b):
    """[(kind, bytes, gap_before)] kinds: one of {}[],: / s (string) / n (number) / l (literal)"""
    out, i, n = [], 0, len(b)
    while True:
        g = i
        while i < n and b[i] in WS:
            i += 1
        gap = b[g:i]
        if i >= n:
            return out, gap
        c = b[i:i + 1]
        if c in (b"{", b"}", b"[", b"]", b",", b":"):
            out.append((c.decode(), c, gap)); i += 1
        elif c == b'"':
            j = i + 1
            while True:
                if j >= n:
                    raise Bad("unterminated string")
                x = b[j]
                if x == 0x22:
                    break
                if x < 0x20:
                    raise Bad("control character %d inside a string" % x)
                if x == 0x5c:
                    if j + 1 >= n:
                        raise Bad("dangling backslash")
                    e = b[j + 1:j + 2]
                    if e in b'"\\/bfnrt':
                        j += 2
                    elif e == b"u":
                        if not re.fullmatch(rb"[0-9a-fA-F]{4}", b[j + 2:j + 6]):
                            raise Bad("bad \\u escape")
                        j += 6
                    else:
                        raise Bad("bad escape \\%s" % e.decode("latin1"))
                else:
                    j += 1
            out.append(("s", b[i:j + 1], gap)); i = j + 1
        elif c == b"#":
            m = FLT.match(b, i)
            if not m:
                raise Bad("stray #")
            out.append(("n", m.group(0), gap)); i = m.end()
        elif c == b"-" or c.isdigit():
            m = NUM.match(b, i)
            if not m or m.end() == i:
                raise Bad("bad number")
            out.append(("n", m.group(0), gap)); i = m.end()
            if i < n and (b[i:i + 1].isalnum() or b[i:i + 1] in b".+-"):
                raise Bad("number followed by %r" % b[i:i + 1])
        else:
            for lit in (b"null", b"true", b"false"):
                if b.startswith(lit, i):
                    out.append(("l", lit, gap)); i += len(lit)
                    break
            else:
                raise Bad("unexpected byte %r at %d" % (c, i))


def recognise(toks):
    """value grammar over the token list; raises Bad"""
    pos = 0

    def value():
        nonlocal pos
        if pos >= len(toks):
            raise Bad("value expected at the end")
        k = toks[pos][0]
        if k in "snl":
            pos += 1
        elif k == "[":
            pos += 1
            if toks[pos][0] == "]":
                pos += 1
                return
            while True:
                value()
                if toks[pos][0] == ",":
                    pos += 1
                elif toks[pos][0] == "]":
                    pos += 1
                    return
                else:
                    raise Bad("',' or ']' expected")
        elif k == "{":
            pos += 1
            if toks[pos][0] == "}":
                pos += 1
                return
            while True:
                if toks[pos][0] != "s":
                    raise Bad("string key expected")
                pos += 1
                if toks[pos][0] != ":":
                    raise Bad("':' expected")
                pos += 1
                value()
                if toks[pos][0] == ",":
                    pos += 1
                elif toks[pos][0] == "}":
                    pos += 1
                    return
                else:
                    raise Bad("',' or '}' expected")
        else:
            raise Bad("value expected, got %s" % k)

    try:
        value()
    except IndexError:
        raise Bad("truncated")
    if pos != len(toks):
        raise Bad("trailing tokens")


def str_hex(tok):
    """decoded content of a JSON string token as hex of its UTF-8 bytes"""
    s = json.loads(tok.decode("utf-8"))
    b = s.encode("utf-8", "surrogatepass")
    return b.hex() if b else "-"


# ------------------------------------------------------------------ what the tape alone predicts (Preserve, NarrowNone)
def cont_end(tok):
    return int(tok.split(":")[1]) if tok[:2] in ("A:", "O:") else None


def value_end(toks, v):
    ce = cont_end(toks[v])
    if ce is not None:
        return ce + 1
    if toks[v].startswith("H:"):
        return cont_end(toks[v + 1]) + 1
    return v + 1


def plain(rawhex):
    raw = unhex(rawhex)
    return all(32 < b < 127 and b != 92 for b in raw)


def S(rawhex, prefix=b"", suffix=b""):
    """expected string event: exact hex when the scalar is plain ASCII (decode = identity), else a wildcard"""
    if rawhex in ("", "-"):
        rawhex = ""
    if rawhex == "" or plain(rawhex):
        h = (prefix + unhex(rawhex) + suffix).hex()
        return ("s", h if h else "-")
    return ("s", None)


class Skip(Exception):
    pass


def ev_value(toks, v, out):
    t = toks[v]
    k = t[:2]
    if k in ("U:", "Q:"):
        out.append(S(t[2:]))
    elif k == "A:":
        ev_array(toks, v + 1, cont_end(t), out)
    elif k == "O:":
        ev_object(toks, v + 1, cont_end(t), out)
    elif k == "H:":
        out.append(("{",)); out.append(S(t[2:])); ev_value(toks, v + 1, out); out.append(("}",))
    else:
        out.append(("null",))      # End / Operator / Parameter / UndefinedParameter / MixedContainer


def ev_object(toks, s, e, out):
    out.append(("{",))
    i = s
    while i < e and toks[i] != "M":
        t = toks[i]
        if t[:2] in ("U:", "Q:"):
            out.append(S(t[2:]))
        elif t[:2] == "P:":
            out.append(S(t[2:], b"[", b"]"))
        elif t[:2] == "N:":
            out.append(S(t[2:], b"[!", b"]"))
        else:
            raise Skip("grammar")
        if toks[i + 1].startswith("OP:"):
            op, v = toks[i + 1][3:], i + 2
            out.append(("{",)); out.append(("s", OPNAMES[op].encode().hex()))
            ev_value(toks, v, out)
            out.append(("}",))
        else:
            v = i + 1
            ev_value(toks, v, out)
        i = value_end(toks, v)
    if i < e:
        out.append(("s", b"remainder".hex()))
        ev_array(toks, i + 1, e, out)
    out.append(("}",))


def ev_array(toks, s, e, out):
    vals, i = [], s
    while i < e:
        vals.append(i)
        ce = cont_end(toks[i])
        i = ce + 1 if ce is not None else i + 1
    out.append(("[",))
    i = 0
    while i < len(vals):
        t0 = toks[vals[i]]
        if t0 == "M":
            i += 1
            continue
        if t0.startswith("H:"):
            raise Skip("header among array values (known finding header-dup)")
        if i + 2 < len(vals) and toks[vals[i + 1]].startswith("OP:"):
            op = toks[vals[i + 1]][3:]
            out.append(("{",))
            if t0[:2] in ("U:", "Q:", "P:", "N:"):
                out.append(S(t0[2:]))
            elif t0.startswith("OP:"):
                out.append(("s", OPSYM[t0[3:]].encode().hex()))
            else:
                out.append(("s", b"__invalid_key".hex()))
            if op != "6":
                out.append(("{",)); out.append(("s", OPNAMES[op].encode().hex()))
            ev_value(toks, vals[i + 2], out)
            if op != "6":
                out.append(("}",))
            out.append(("}",))
            i += 3
        else:
            ev_value(toks, vals[i], out)
            i += 1
    out.append(("]",))


def text_events(toks):
    out = []
    for k, b, _ in toks:
        if k in "{}[]":
            out.append((k,))
        elif k == "s":
            out.append(("s", str_hex(b)))
        elif k == "l":
            out.append((b.decode(),))
        elif k == "n":
            out.append(("num",))
    return out


def events_match(exp, got):
    if len(exp) != len(got):
        return "the text has %d keys / leaves / brackets, the document predicts %d" % (len(got), len(exp))
    for n, (a, b) in enumerate(zip(exp, got)):
        if a[0] != b[0] or (a[0] == "s" and a[1] is not None and a[1] != b[1]):
            return "event %d is %s, the document predicts %s" % (n, b, a)
    return None


# ------------------------------------------------------------------ the stream
def run_text(ctx, parsed, meta_out, stream="print", select_all=False, model=True, add_headers=True):
    # (s_dom, wave 6: the last four parameters serve the ladder streams of props/C16_ladder.py; the defaults are the old behaviour)
    """parsed: [(doc, tape, toks)], meta_out: {(di, idx, entry, enc, p, du, na): (impl_tree_line, json.ser case)} of the main run"""
    rng = ctx.rng
    keys = list(meta_out.keys())
    chosen = set()
    for m in keys:
        di, idx, entry, enc, p, du, na = m
        if select_all or (p == "1" and rng.random() < ctx.scale(0.35, 1.0)) or (idx == "top" and du == "p" and na == "n") or rng.random() < ctx.scale(0.08, 0.5):
            chosen.add(m)
            chosen.add((di, idx, entry, enc, "0", du, na))
    chosen = [m for m in keys if m in chosen]
    # the root under (Preserve, None) for every document and both encodings, whether or not the main run had it
    have = set(chosen)
    for di in range(len(parsed)):
        for enc in "wu":
            m = (di, "top", "o", enc, "0", "p", "n")
            if m not in have:
                chosen.append(m); have.add(m)
    # every header node and its container, so that header-single can compare the two texts
    for di, (d, tape, toks) in enumerate(parsed):
        for i, t in enumerate(toks):
            if add_headers and t.startswith("H:"):
                for m in [(di, str(i + k), "v", "w", "0", du, na) for (du, na) in (("p", "a"), ("k", "n"), ("g", "u")) for k in (0, 1)]:
                    if m not in have:
                        chosen.append(m); have.add(m)
    cases = []
    for (di, idx, entry, enc, p, du, na) in chosen:
        d, tape, toks = parsed[di]
        cases.append("json.print\t%s\t%s\t%s\t%s\t%s\t%s\t%s\t%s" % (hexs(d), tape, enc, idx, entry, p, du, na))
    ctx.count("print cases", len(cases))
    impl, _ = ctx.correspond(stream, cases, model=model, nontrivial=lambda c, i: len(i) > 8)
    base = len(impl) - len(cases)
    texts = {}
    for k, m in enumerate(chosen):
        o, c = impl[base + k], cases[k]
        if o in ("PANIC", "ABORT", "HANG"):
            ctx.fail("json-crash", "json() crashes", [c], [o], "a JSON text"); continue
        if o == "OUTPUT-LIMIT":
            ctx.fail("json-runaway", "json() produces unbounded output", [c], [o]); continue
        if o == "ENTRY-MISMATCH":
            ctx.fail("entry-mismatch", "to_writer, to_vec and to_string do not produce the same bytes", [c], [o]); continue
        if o == "DEFAULT-MISMATCH":
            ctx.fail("default-options", "json() without with_options differs from JsonOptions::default()", [c], [o]); continue
        if o == "FLOAT-LEX":
            ctx.fail("json-invalid", "a number token of the output is not a JSON number", [c], [o], "valid JSON"); continue
        if o in ("E", "UNREACH", "ERR", "TAPE-MISMATCH", "BADCASE"):
            continue
        try:
            b = unhex(o)
        except ValueError:
            ctx.fail("format", "unparsable print output", [c], [o[:100]]); continue
        try:
            b.decode("utf-8")
        except UnicodeDecodeError as ex:
            ctx.fail("json-invalid", "the output is not valid UTF-8: %s" % ex, [c], [o[:200]], "valid UTF-8"); continue
        try:
            toks, tail = tokenize(b)
            recognise(toks)
            json.loads(FLT.sub(b"0.5", b).decode("utf-8"), parse_constant=lambda x: (_ for _ in ()).throw(ValueError("constant " + x)))
        except (Bad, ValueError) as ex:
            ctx.fail("json-invalid", "the output is not valid JSON: %s" % str(ex)[:100], [c], [o[:200]], "valid JSON"); continue
        texts[m] = (b, toks, tail, c, o)
        di, idx, entry, enc, p, du, na = m
        if p == "0" and (tail or any(g for _, _, g in toks)):
            ctx.fail("pretty-ws", "the minified output contains whitespace between tokens", [c], [o[:200]])
    for m, (b, toks, tail, c, o) in texts.items():
        di, idx, entry, enc, p, du, na = m
        if p == "1":
            q = (di, idx, entry, enc, "0", du, na)
            if q in texts:
                cb, ctoks, _, cc, co = texts[q]
                if [(k, x) for k, x, _ in toks] != [(k, x) for k, x, _ in ctoks]:
                    ctx.fail("pretty-ws", "pretty and minified output differ in more than whitespace", [cc, c], [co[:200], o[:200]])
                elif tail or any(set(g) - set(b" \n") for _, _, g in toks):
                    ctx.fail("pretty-ws", "pretty output has bytes other than space / newline between tokens", [c], [o[:200]])
            continue
        doc_toks = parsed[di][2]
        if idx == "top" and du == "p" and na == "n":
            if any(t[:2] in ("P:", "N:") for t in doc_toks):
                ctx.count("doc-order skipped: parameters")
            else:
                try:
                    exp = []
                    ev_object(doc_toks, 0, len(doc_toks), exp)
                    msg = events_match(exp, text_events(toks))
                    if msg:
                        ctx.fail("doc-order", "the JSON text does not carry the document's keys and scalars in order: " + msg, [c], [o[:300]])
                    else:
                        ctx.count("doc-order checked")
                except Skip as ex:
                    ctx.count("doc-order skipped: " + str(ex)[:40])
                except (IndexError, KeyError, TypeError, ValueError):
                    ctx.count("doc-order skipped: grammar")
        if idx != "top" and entry == "v" and doc_toks[int(idx)].startswith("H:"):
            # {"<header>": <json of the container>}
            h = doc_toks[int(idx)][2:]
            q = (di, str(int(idx) + 1), "v", enc, p, du, na)
            ok = len(toks) >= 4 and toks[0][0] == "{" and toks[1][0] == "s" and toks[2][0] == ":" and toks[-1][0] == "}"
            if ok and plain(h) and str_hex(toks[1][1]) != h:
                ok = False
            if ok and q in texts and [(k, x) for k, x, _ in toks[3:-1]] != [(k, x) for k, x, _ in texts[q][1]]:
                ok = False
            if not ok:
                ctx.fail("header-single", "a header is not the single-entry object {header: container}", [c], [o[:200]])
            else:
                ctx.count("header-single checked")
