"""buffer.rs at storage level (wave 5, engineer w_buf): op sequences on the real BufferWindow.

Kinds (harness/src/fam_bufstore.rs, ocaml/fam_bufstore.ml, model coq/theories/BufStore.v):
  bs.ops  mode spec data sched ops      mode buf (spec = hex of the dirty buffer) | len (spec = n, zeroed) | slice
  bs.abs  (same)                        model side = the window-level runner abs_run (proved = bs_run)
  bs.rec  spec data1 sched1 ops1 data2 sched2 ops2     second window built from the first one's buffer
ops: f | f<hex byte> (fill_buf; the Read also dirties the unreported part of its slice with that byte) |
     z | z<hex byte> (fill_buf over a Read that answers Ok(0) although data may be left; schedule untouched) |
     a<k> advance(k mod (window_len+1)) | t<k> advance_to(start + k mod (window_len+1)) |
     g<i>.<j> get(a..b), a = i mod (end+1), b = a + j mod (end-a+1) | A<k> T<p> G<i>.<j> the same unresolved.
Output: one item per op `<ev>:<window hex>@<position>/<consumed_data>`, ev = F<n> | IO | FULL | A<amt> | G<hex>.

Oracle (independent of the Coq side): `expect()` below follows the window at STREAM level -- it keeps no buffer
contents at all, only offsets into the data the Read delivers -- and says what every op must print:
window() = data[position .. position+len), get(a..b) = data[prior+a .. prior+b), position = bytes consumed so far,
FULL exactly when the unconsumed bytes fill a non-empty buffer, F0 from a fitting buffer only at the end of the data.
Stale bytes of a dirty / recycled buffer and bytes scribbled by the Read must never show."""
from vlib import hexs

ALPHA = b'ab=" {}#\\\n\x00\xff1'


def sched_str(s):
    return ",".join(str(x) for x in s) if s else "-"


def parse_sched(s):
    return [] if s in ("-", "") else [None if x == "F" else int(x) for x in s.split(",")]


class Sim:
    """stream-level reference of one window: offsets only, no storage"""

    def __init__(self, cap, data, sched, slice_mode=False):
        self.cap = 0 if slice_mode else cap
        self.data = data
        self.sched = sched
        self.idx = 0
        self.delivered = len(data) if slice_mode else 0
        self.prior = 0
        self.start = 0
        self.end = len(data) if slice_mode else 0
        self.moves = 0

    def wl(self):
        return self.end - self.start

    def view(self, ev):
        w = self.data[self.prior + self.start:self.prior + self.end]
        return "%s:%s@%d/%d" % (ev, hexs(w), self.prior + self.start, self.start)

    def step(self, op):
        """expected item, or 'PANIC' when the op is outside the window's contract"""
        c, arg = op[0], op[1:]
        if c in "fz":
            carry = self.wl()
            if carry >= self.cap:
                return self.view("F0" if self.cap == 0 else "FULL")
            if c == "z":
                if carry and self.start:
                    self.moves += 1
                self.prior += self.start
                self.start, self.end = 0, carry
                return self.view("F0")
            if carry and self.start:
                self.moves += 1          # the copy_within path: a carry-over really moves
            self.prior += self.start
            self.start, self.end = 0, carry
            ev = self.sched[self.idx] if self.idx < len(self.sched) else 10 ** 9
            self.idx += 1
            if ev is None:
                return self.view("IO")
            k = min(max(ev, 1), self.cap - carry, len(self.data) - self.delivered)
            self.delivered += k
            self.end += k
            return self.view("F%d" % k)
        if c in "at":
            amt = int(arg) % (self.wl() + 1)
            self.start += amt
            return self.view("A%d" % amt)
        if c == "g":
            i, j = (int(x) for x in arg.split("."))
            a = i % (self.end + 1)
            b = a + j % (self.end - a + 1)
            return self.view("G" + hexs(self.data[self.prior + a:self.prior + b]))
        if c == "A":
            k = int(arg)
            if k > self.wl():
                return "PANIC"
            self.start += k
            return self.view("A%d" % k)
        if c == "T":
            p = int(arg)
            if not (self.start <= p <= self.end):
                return "PANIC"
            amt = p - self.start
            self.start = p
            return self.view("A%d" % amt)
        if c == "G":
            i, j = (int(x) for x in arg.split("."))
            if not (i <= j <= self.end):
                return "PANIC"
            return self.view("G" + hexs(self.data[self.prior + i:self.prior + j]))
        raise ValueError(op)


def expect(case):
    f = case.split("\t")
    if f[0] in ("bs.ops", "bs.abs"):
        mode, spec, h, sched, ops = f[1:6]
        data = bytes.fromhex(h) if h != "-" else b""
        cap = len(spec) // 2 if mode == "buf" and spec != "-" else (0 if mode == "buf" else (int(spec) if mode == "len" else 0))
        sim = Sim(cap, data, parse_sched(sched), slice_mode=(mode == "slice"))
    else:
        spec, _h1, _s1, _o1, h, sched, ops = f[1:8]
        data = bytes.fromhex(h) if h != "-" else b""
        sim = Sim(len(spec) // 2 if spec != "-" else 0, data, parse_sched(sched))
    out = []
    for op in ([] if ops in ("-", "") else ops.split(",")):
        it = sim.step(op)
        if it == "PANIC":
            return "PANIC"
        out.append(it)
    return " ".join(out) if out else "-"


def rand_bytes(rng, n, alpha=ALPHA):
    return bytes(rng.choice(alpha) for _ in range(n))


def rand_sched(rng, n, cap, faults):
    k = rng.randrange(6)
    if k == 0:
        s = []
    elif k == 1:
        s = [1] * min(n + 3, 60)
    elif k == 2:
        s = [rng.choice([0, 1, 2, 3, cap, cap + 1, 10 ** 6]) for _ in range(rng.randrange(1, 14))]
    elif k == 3:
        p = rng.randrange(1, 9)
        s = [p] * rng.randrange(1, 20)
    else:
        s = [rng.randrange(0, max(2, cap + 2)) for _ in range(rng.randrange(1, 20))]
    if faults and s and rng.random() < 0.5:
        for _ in range(rng.randrange(1, 4)):
            s[rng.randrange(len(s))] = "F"
    elif faults and rng.random() < 0.15:
        s = ["F"] + s
    return s


def rand_ops(rng, cap, n, raw_tail=False):
    ops = []
    for _ in range(n):
        x = rng.random()
        big = rng.choice([0, 1, 2, 3, cap - 1, cap, cap + 1, 2 * cap + 1, rng.randrange(0, 3 * cap + 4)])
        big = max(big, 0)
        if x < 0.33:
            ops.append("f")
        elif x < 0.36:
            ops.append(rng.choice(["z", "z7b", "z22"]))
        elif x < 0.46:
            ops.append("f%02x" % rng.choice([0x7b, 0x7d, 0x22, 0x5c, 0x00, 0x61, 0xff]))
        elif x < 0.66:
            ops.append("a%d" % big)
        elif x < 0.76:
            ops.append("t%d" % big)
        else:
            ops.append("g%d.%d" % (rng.randrange(0, 2 * cap + 3), rng.randrange(0, 2 * cap + 3)))
    return ops


def reader_like_ops(rng, cap, n):
    """the pattern of the two TokenReaders: fill until something is there, consume a token (advance_to + get of
    the bytes just passed), refill with a carry-over"""
    ops = []
    for _ in range(n):
        ops.append(rng.choice(["f", "f", "f7d", "f22"]))
        for _ in range(rng.randrange(0, 3)):
            k = rng.randrange(0, cap + 2)
            ops.append(rng.choice(["a%d", "t%d"]) % k)
            ops.append("g%d.%d" % (rng.randrange(0, cap + 2), rng.randrange(0, cap + 2)))
    return ops


def gen_cases(rng, n_cases, faults=True, caps=None):
    """(cases, counts) -- mostly fitting op lists over dirty buffers, all caps 1..40 (+0), short reads, reads at the
    end of the data (Ok(0)), full buffers, faults"""
    cases = []
    cnt = {}
    caps = caps or list(range(0, 41))
    for k in range(n_cases):
        cap = caps[k % len(caps)]
        n = rng.choice([0, 1, cap, cap + 1, 2 * cap, 3 * cap + 4, rng.randrange(0, 3 * cap + 5), rng.randrange(0, 3 * cap + 5)])
        data = rand_bytes(rng, n)
        sched = rand_sched(rng, n, cap, faults)
        nops = rng.choice([1, 3, 8, 16, 30])
        ops = reader_like_ops(rng, cap, max(1, nops // 3)) if rng.random() < 0.4 else rand_ops(rng, cap, nops)
        m = rng.random()
        if m < 0.55:
            # dirty buffer: bytes of the same alphabet as the data (stale braces / quotes / backslashes)
            dirty = rand_bytes(rng, cap) if rng.random() < 0.7 else bytes([rng.choice([0x7b, 0x7d, 0x22, 0xa5])]) * cap
            c = "bs.ops\tbuf\t%s\t%s\t%s\t%s" % (hexs(dirty), hexs(data), sched_str(sched), ",".join(ops))
            mode = "buf"
        elif m < 0.68:
            c = "bs.ops\tlen\t%d\t%s\t%s\t%s" % (cap, hexs(data), sched_str(sched), ",".join(ops))
            mode = "len"
        elif m < 0.78:
            c = "bs.ops\tslice\t-\t%s\t%s\t%s" % (hexs(data), sched_str(sched), ",".join(ops))
            mode = "slice"
        else:
            d1 = rand_bytes(rng, rng.randrange(0, 3 * cap + 4))
            ops1 = rand_ops(rng, cap, rng.choice([1, 4, 12]))
            c = "bs.rec\t%s\t%s\t%s\t%s\t%s\t%s\t%s" % (hexs(rand_bytes(rng, cap)), hexs(d1), sched_str(rand_sched(rng, len(d1), cap, False)),
                                                      ",".join(ops1), hexs(data), sched_str(sched), ",".join(ops))
            mode = "rec"
        cases.append(c)
        cnt["mode_" + mode] = cnt.get("mode_" + mode, 0) + 1
        if mode in ("buf", "len", "slice") and rng.random() < 0.25:
            cases.append("bs.abs" + c[len("bs.ops"):])
            cnt["abs_runner"] = cnt.get("abs_runner", 0) + 1
    return cases, cnt


def edge_cases():
    """hand-written: exact fit, full buffer, cap 1, carry-over over stale bytes, Ok(0) at the end, fault then retry"""
    h = hexs
    return [
        # window fills the buffer exactly -> FULL, stays FULL, one byte consumed -> room for one
        "bs.ops\tbuf\t%s\t%s\t-\tf,f,f,a1,f,g0.4,f" % (h(b"{{{{"), h(b"abcdefgh")),
        # carry-over moves over stale '}' bytes; get reaches the carried bytes at offset 0
        "bs.ops\tbuf\t%s\t%s\t3,1,1,9\tf,a2,f,g0.2,f,a1,f,f,g1.3" % (h(b"}}}}}}"), h(b'a="b c"\n')),
        # cap 1
        "bs.ops\tbuf\t%s\t%s\t-\tf,f,a1,f,a1,f,a1,f,f" % (h(b"{"), h(b"xy")),
        # empty data: Ok(0) from the first fill on, nothing of the dirty buffer shows
        "bs.ops\tbuf\t%s\t-\t-\tf,f,g0.0,a5,f" % h(b'"{}"#'),
        # zero-length reads in the middle of the data (with and without a carry-over), then the data arrives
        "bs.ops\tbuf\t%s\t%s\t2,2,9\tz,f,z7d,a1,z,g0.1,f,z22,f" % (h(b"}}}}}"), h(b"abcdefg")),
        # fault, then the retry delivers; the failing Read scribbled over the free space
        "bs.ops\tbuf\t%s\t%s\tF,2,F,F,1\tf7d,f,a1,f7b,f22,f,f,f" % (h(b"zzzzz"), h(b"k=v w")),
        # zero capacity (buffer_len(0)): fill_buf answers Ok(0) like the slice window
        "bs.ops\tlen\t0\t%s\t-\tf,f,a3" % h(b"abc"),
        "bs.ops\tbuf\t-\t%s\t-\tf,g0.0" % h(b"abc"),
        # slice window: fill_buf never reads, advance / get over the borrowed data
        "bs.ops\tslice\t-\t%s\t1,1\tf,a2,g0.5,t9,f,g3.1" % h(b"hello"),
        # recycled: first life leaves valid looking tokens behind
        "bs.rec\t%s\t%s\t-\tf,a3,f,a2,f\t%s\t1,2\tf,f,a1,f,g0.9,f" % (h(b"\x00" * 8), h(b"a={b=c}d=e"), h(b"x=y z")),
    ]


def run(ctx, pid, n_quick, n_thorough, profiles=("release",), crash_oracle=False):
    """shared by props/C07.py, C08.py (model = implementation, stream-level oracle) and C05.py (both build
    profiles: in the debug build every debug_assert! of buffer.rs is armed; no op of a contract-respecting client
    may trip one)"""
    import random
    rng = random.Random((ctx.seed * 1000003 + int(pid[1:])) & 0xffffffff)
    cases, cnt = gen_cases(rng, ctx.scale(n_quick, n_thorough))
    cases = edge_cases() + cases
    for k, v in cnt.items():
        ctx.count("bufstore_" + k, v)
    for prof in profiles:
        stream = "bufstore" if prof == "release" else "bufstore_" + prof
        impl, _model = ctx.correspond(stream, cases, profile=prof, nontrivial=lambda c, i: " " in i and "PANIC" not in i)
        base = len(impl) - len(cases)
        for k, c in enumerate(cases):
            o = impl[base + k]
            if crash_oracle and o in ("PANIC", "ABORT", "HANG"):
                ctx.fail("crash-bufstore", "%s build: %s on a contract-respecting op list of BufferWindow: %s" % (prof, o, c[:200].replace("\t", " ")),
                         [c], [o], "no panic: every offset stays inside the buffer")
                continue
            e = expect(c)
            if o != e:
                oi, ei = o.split(" "), e.split(" ")
                at = next((x for x in range(min(len(oi), len(ei))) if oi[x] != ei[x]), min(len(oi), len(ei)))
                ev = (oi[at] if at < len(oi) else "").split(":")[0]
                key = "bufstore-full" if "FULL" in (ev, (ei[at] if at < len(ei) else "").split(":")[0]) else \
                      "bufstore-position" if at < len(oi) and at < len(ei) and oi[at].split("@")[0] == ei[at].split("@")[0] else "bufstore-window"
                ctx.fail(key, "BufferWindow (%s build) shows something else than the stream delivered by the Read at op #%d: %s" % (prof, at, c[:200].replace("\t", " ")),
                         [c], [o], e)


def contract_cases(rng, n_cases):
    """op lists that END UP OUTSIDE the contract of advance / advance_to / get about two times in three (raw ops)"""
    cases = []
    for k in range(n_cases):
        cap = k % 41
        n = rng.randrange(0, 3 * cap + 5)
        data = rand_bytes(rng, n)
        sched = rand_sched(rng, n, cap, True)
        ops = rand_ops(rng, cap, rng.choice([1, 3, 8]))
        if rng.random() < 0.7:
            x = rng.randrange(3)
            if x == 0:
                ops.append("A%d" % rng.randrange(0, cap + 3))
            elif x == 1:
                ops.append("T%d" % rng.randrange(0, cap + 1))
            else:
                i = rng.randrange(0, cap + 1)
                ops.append("G%d.%d" % (i, rng.randrange(i, cap + 1)))      # i <= j: a reversed range is not a panic but UB
            ops += rand_ops(rng, cap, 2)
            cases.append("bs.ops\tbuf\t%s\t%s\t%s\t%s" % (hexs(rand_bytes(rng, cap)), hexs(data), sched_str(sched), ",".join(ops)))
        else:
            # raw offsets stay inside the borrowed data
            ops += (["T%d" % rng.randrange(0, n + 1)] if n else []) + ["A%d" % rng.randrange(0, n + 2)]
            cases.append("bs.ops\tslice\t-\t%s\t%s\t%s" % (hexs(data), sched_str(sched), ",".join(ops)))
    return cases


def run_contract(ctx, n_quick, n_thorough):
    """NOT gating (a note in the evidence): op lists that leave the contract, debug build only.  The model's OOB outcomes
    (sites 8600 / 8601 / 8606) must be exactly the debug_assert!s of advance_to / advance / get.  A disagreement here
    means the model's contract and the code's stated contract drifted apart; it is no behaviour of the public API
    (no client leaves the contract: C05_store + C05_readers), so it never produces a VIOLATION on its own."""
    import random
    import vlib
    rng = random.Random((ctx.seed * 7919 + 5) & 0xffffffff)
    cases = contract_cases(rng, ctx.scale(n_quick, n_thorough))
    impl = vlib.run_impl(cases, "debug")
    mod = vlib.run_model(cases)
    dis = [(c, i, m) for c, i, m in zip(cases, impl, mod) if i != m]
    ctx.streams["bufstore_contract_debug(not gating)"] = {"cases": len(cases), "disagree": len(dis)}
    ctx.count("bufstore_contract_panics", sum(1 for i in impl if i == "PANIC"))
    if dis:
        c, i, m = dis[0]
        ctx.notes.append("bufstore contract drift (debug build, not gating): %d of %d raw op lists; first: %s impl=%s model=%s" % (
            len(dis), len(cases), c.replace("\t", " ")[:160], i[:80], m[:80]))
