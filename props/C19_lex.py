"""Token-level part of C19: the binary slice lexer (the documented `while let Some(t) = lexer.next_token()?` loop), the
binary streaming reader and the text token reader on EVERY prefix of generated token sequences / documents.

binary: a prefix that ends inside a token (after its 2-byte id, inside a length prefix or payload, inside an rgb block) must
        end in an error after exactly the complete tokens; a prefix that ends on a token boundary ends cleanly with exactly
        those tokens and position = length.  The expectation comes from the generator's own token list (independent of the
        model and of the implementation).
text:   the tokens before the cut are the complete document's tokens (the last one may be a cut unquoted scalar or a cut
        operator), and a prefix that ends inside a quoted scalar is an error, never a clean end."""
from vlib import hexs
from props import C08 as B
from props import textdoc as td

CRASH = ("PANIC", "ABORT", "HANG")


def _bin_docs(rng, n):
    out = []
    for _ in range(n):
        r = rng.random()
        if r < 0.5:
            toks = B.rand_seq(rng, rng.randrange(1, 9))
        else:
            toks = [B.wf_fix(("T", rng.randrange(65536)), rng), ("EQ",), ("O",)] + B.rand_doc(rng, depth=1) + [("C",)]
        if sum(len(B.enc(t)) for t in toks) <= 140:
            out.append(toks)
    # every payload kind once, so that "cut right after the type id" is reached for each of them on every run
    out.append([("U32", 7), ("U64", 8), ("I32", -3), ("I64", -4), ("F32", b"\x00\x00\x80\x3f"), ("F64", b"\x00" * 7 + b"\x40"), ("BOOL", True),
                ("Q", b"ab"), ("U", b"cd"), ("RGB", (1, 2, 3)), ("RGB", (1, 2, 3, 4)), ("T", 0x2d82)])
    return out


def run_binary(ctx):
    rng = ctx.rng
    cases, meta = [], []
    for toks in _bin_docs(rng, ctx.scale(60, 700)):
        encs = [B.enc(t) for t in toks]
        d = b"".join(encs)
        ends, p = [0], 0
        for e in encs:
            p += len(e); ends.append(p)
        texts = [B.txt(t) for t in toks]
        for k in range(len(d) + 1):
            h = hexs(d[:k])
            ncomplete = max(i for i, e in enumerate(ends) if e <= k)
            for c in ("bl.lex\t%s" % h, "bl.rslice\t%s" % h,
                      "bl.stream\t%s\t%d\t%s" % (h, rng.choice([48, 64, 200]), rng.choice(["-", ",".join(["1"] * min(k, 200)) or "-", "3,1,7,2,5"]))):
                cases.append(c); meta.append((d, k, texts[:ncomplete], k in ends))
    impl, _ = ctx.correspond("bin_token_truncations", cases, nontrivial=lambda c, i: "|END|" in i)
    base = len(impl) - len(cases)
    for j, (d, k, want, boundary) in enumerate(meta):
        o = impl[base + j]
        kind = cases[j].split("\t")[0]
        if o in CRASH:
            ctx.fail("lex-trunc-crash", "%s on %s cut at %d: %s" % (kind, d.hex(), k, o), [cases[j]], [o]); continue
        p = o.split("|")
        if len(p) != 3:
            continue
        got = [] if p[0] == "-" else p[0].split(" ")
        if boundary:
            if got != want or p[1] != "END" or p[2] != str(k):
                ctx.fail("lex-trunc-boundary", "%s on %s cut at the token boundary %d returned %s; expected exactly the %d complete tokens, a clean end and position %d" % (kind, d.hex(), k, o[:160], len(want), k), [cases[j]], [o], "%s|END|%d" % (" ".join(want) or "-", k))
        else:
            if p[1] == "END":
                ctx.fail("lex-trunc-clean-end", "%s on %s cut at %d (inside a token) reports a clean end of input: %s" % (kind, d.hex(), k, o[:160]), [cases[j]], [o], "an error after %d tokens" % len(want))
            elif got != want:
                ctx.fail("lex-trunc-tokens", "%s on %s cut at %d (inside a token) returned the tokens %s before the error; the complete tokens of the prefix are %s" % (kind, d.hex(), k, p[0][:120], " ".join(want)[:120]), [cases[j]], [o], " ".join(want) or "-")
    ctx.count("bin_token_truncation_cases", len(cases))


def _in_quote(d):
    """does the text end inside a quoted scalar? (independent byte scan: comments run to end of line, backslash escapes inside quotes)"""
    i, n = 0, len(d)
    while i < n:
        c = d[i]
        if c == 0x23:                         # '#'
            while i < n and d[i] != 0x0a:
                i += 1
        elif c == 0x22:                       # '"'
            i += 1
            while True:
                if i >= n:
                    return True
                if d[i] == 0x5c:
                    i += 2
                    if i > n:
                        return True
                    continue
                if d[i] == 0x22:
                    break
                i += 1
            i += 1
        else:
            i += 1
    return False


def quote_glued(d):
    """does a quoted scalar open right behind a byte that is not a separator for the TOKEN reader (`]"q k"`, minimal layout
    behind a parameter block)?  The token reader knows no parameter syntax: it reads `]"q` as one bare word with a quote in
    it (same class as C09's `x"y`), on the complete document and on every prefix alike, so the token-list half of the oracle
    still holds, but the byte scan `_in_quote` of props/C19_lex.py (which says where an error is REQUIRED) assumes that a
    quote opens a string wherever it stands.  Such documents are left out of the token-reader stream (counted), they stay in
    the tape and view streams."""
    ok_before = set(b" \t\r\n={}<>;\"")
    i, n = (3 if d.startswith(b"\xef\xbb\xbf") else 0), len(d)
    while i < n:
        c = d[i]
        if c == 0x23:
            while i < n and d[i] != 0x0a:
                i += 1
        elif c == 0x22:
            if i > 0 and not (i == 3 and d.startswith(b"\xef\xbb\xbf")) and d[i - 1] not in ok_before:
                return True
            i += 1
            while i < n and d[i] != 0x22:
                i += 2 if d[i] == 0x5c else 1
            i += 1
        else:
            i += 1
    return False


def _split(o):
    p = o.split(" ")
    if len(p) < 2 or not p[-1].startswith("@"):
        return None
    return p[:-2], p[-2]


def run_text(ctx):
    rng = ctx.rng
    datas = []
    for _ in range(ctx.scale(50, 600)):
        doc = td.gen_doc(rng, depth=rng.choice([1, 2, 3]))
        d = td.render(doc, rng, rng.choice(td.STYLES), bom=rng.random() < 0.1)
        if len(d) > 130:
            continue
        datas.append(d)
    judge_text(ctx, "text_token_truncations", datas, "text_token_truncation_cases")


def judge_text(ctx, stream, datas, counter):
    """every prefix of every byte string of `datas` through the slice and the streaming token reader (a_c19: split out of
    run_text so that props/C19_view.py can feed the directed documents -- ending in a comment, `@[..]`, a parameter block,
    an rgb header, behind a BOM -- through the same oracle)"""
    rng = ctx.rng
    cases, meta = [], []
    for d in datas:
        if quote_glued(d):
            ctx.count(counter + "_skipped_glued_quote"); continue
        for k in range(len(d) + 1):
            h = hexs(d[:k])
            for c in ("tr.slice\t%s" % h, "tr.stream\t%d\t%s\t%s" % (rng.choice([160, 300]), rng.choice(["-", ",".join(["1"] * min(k, 200)) or "-", "5,1,3,9,2"]), h)):
                cases.append(c); meta.append((d, k))
    impl, _ = ctx.correspond(stream, cases, nontrivial=lambda c, i: " END @" in i)
    base = len(impl) - len(cases)
    full = {}
    for j, (d, k) in enumerate(meta):
        if k == len(d) and cases[j].startswith("tr.slice"):
            s = _split(impl[base + j])
            if s and s[1] == "END":
                full[d] = s[0]
    for j, (d, k) in enumerate(meta):
        o = impl[base + j]
        kind = cases[j].split("\t")[0]
        if o in CRASH:
            ctx.fail("text-lex-trunc-crash", "%s on %r cut at %d: %s" % (kind, d, k, o), [cases[j]], [o]); continue
        s = _split(o)
        T = full.get(d)
        if s is None or T is None:
            continue
        P, end = s
        if _in_quote(d[:k]) and end == "END":
            ctx.fail("text-lex-trunc-quote", "%s on %r cut at %d (inside a quoted scalar) reports a clean end: %s" % (kind, d, k, o[:160]), [cases[j]], [o], "an error")
            continue
        bad = None
        if len(P) > len(T):
            bad = "more tokens than the complete document"
        else:
            for i, t in enumerate(P):
                if t == T[i]:
                    continue
                last = i == len(P) - 1
                if last and t.startswith("U:") and T[i].startswith("U:") and T[i][2:].startswith(t[2:]):
                    continue                  # a cut unquoted scalar
                if last and t.startswith("OP:") and T[i].startswith("OP:"):
                    continue                  # a cut two-byte operator
                bad = "token %d is %s, the complete document has %s" % (i, t, T[i]); break
        if bad:
            ctx.fail("text-lex-trunc-fabricated", "%s on %r cut at %d: %s (%s)" % (kind, d, k, bad, o[:160]), [cases[j]], [o], " ".join(T)[:200])
    # >>> w_tdef (wave 5): Python transcription of TruncTextTokProofs.tok_cut (Props/C19_texttok.v C19_text_tok_slice_reader_trunc /
    # C19_text_tok_stream_trunc), for EVERY document, accepted or not: the outputs of the prefix run are (i) literally the first
    # tokens of the complete run followed by END or the Eof error, or (ii) those plus ONE shortened unquoted scalar (non-empty,
    # proper prefix) followed by END.  Stricter than the oracle above: a cut two-byte operator must be an error, a shortened
    # scalar must be followed by a clean end, any error must be Eof, and documents that do not end cleanly are judged too.
    fullany = {}
    for j, (d, k) in enumerate(meta):
        if k == len(d) and cases[j].startswith("tr.slice"):
            s_ = _split(impl[base + j])
            if s_:
                fullany[d] = s_
    for j, (d, k) in enumerate(meta):
        o = impl[base + j]
        s_ = _split(o)
        F = fullany.get(d)
        if o in CRASH or s_ is None or F is None:
            continue
        P, end = s_
        T = F[0] + [F[1]]
        n = len(P)
        case_i = end in ("END", "ERR:102") and n < len(T) and P == T[:n]
        case_ii = (end == "END" and n >= 1 and n <= len(T) and P[:n - 1] == T[:n - 1] and P[n - 1].startswith("U:") and T[n - 1].startswith("U:")
                   and len(P[n - 1]) > 2 and len(T[n - 1]) > len(P[n - 1]) and T[n - 1].startswith(P[n - 1]))
        ctx.count("tok_cut_case_i" if case_i else ("tok_cut_case_ii" if case_ii else "tok_cut_neither"))
        if not (case_i or case_ii):
            ctx.fail("text-lex-trunc-strict", "%s on %r cut at %d: %s is not a cut of the complete run %s (tok_cut: literal prefix + END/Eof, or literal prefix + one shortened unquoted scalar + END)" % (cases[j].split("\t")[0], d, k, o[:160], " ".join(T)[:160]), [cases[j]], [o], " ".join(T)[:200])
    # <<< w_tdef
    ctx.count(counter, len(cases))


def run_part(ctx):
    run_binary(ctx)
    run_text(ctx)
