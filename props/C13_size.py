"""C13 wave 6 (s_c13): size / boundary ladders (audit/C13.md, section "Size dimensions").

One dimension at a time on an otherwise small input: total text length, digit count / zero padding / sign of the year,
digit count and zero padding of month / day / hour, trailing-garbage run length, magnitude and zero padding of the
plain-integer form, position of the text inside a larger buffer, add_days offset magnitude, days_until year distance,
every u8 in each constructor argument, every (month, day, hour) a RawDate can hold x every year width in the three formats.

Every case has an oracle that shares no code with the crate or the Coq model: the expected components are known by
construction (the generator builds the text from them) or come from `ref_typed` below, a 40-line regex reading of the
accepted language (the one proved in Props/C13.v: C13_parse_lang and the *_lang_complete theorems)."""
import re
from vlib import hexs, unhex
from props.C13_more import DPM, BAD, MAX_BIN, MIN_BIN, md_of, ref_days, ordinal, ref_game, ref_iso, ref_from_binary, valid, ok_tuple, ctx_profiles

LADDER = [0, 1, 2, 3, 7, 8, 9, 15, 16, 17, 31, 32, 33, 63, 64, 65, 127, 128, 129, 255, 256, 257, 1023, 1024, 1025, 4095, 4096, 4097,
          65533, 65534, 65535, 65536]
KIND_PARSE = {"date": "date.parse", "dh": "dh.parse", "ud": "ud.parse", "raw": "raw.parse"}
TYPES = ("date", "dh", "ud", "raw")

LANG = re.compile(rb"\A([+-]?)(\d*)\.(\d{1,2})\.(\d{1,2})(?:\.([1-9]\d?))?\Z")
INT = re.compile(rb"\A([+-]?)(\d*)\Z")


def num(digits):
    """value of a digit string ("" = 0); leading zeros are stripped first (python refuses to convert 4300+ digits)"""
    d = bytes(digits).lstrip(b"0")
    return 10 ** 40 if len(d) > 40 else int(d or b"0")


def ref_expanded(s):
    """What the text means: ("txt", y, m, d, h) for [sign]digits.M.D[.H] (1-2 digits each, hour without leading 0, year in i16),
    ("int", y, m, d, h0) for a plain integer that fits i32 and decodes as a binary date (hour 0-based), else None.
    A sign without digits reads as 0 (the scalar reader's quirk, C11); the first byte must be a digit or a sign."""
    if not s or s[:1] not in (b"+", b"-") and not s[:1].isdigit():
        return None
    m = INT.match(s)
    if m:
        v = num(m.group(2))
        if v >= 2 ** 63:
            return None
        v = -v if m.group(1) == b"-" else v
        if not -2 ** 31 <= v < 2 ** 31:
            return None
        r = ref_from_binary(v)
        return ("int",) + r if r else None
    m = LANG.match(s)
    if not m:
        return None
    y = num(m.group(2))
    y = -y if m.group(1) == b"-" else y
    if not -32768 <= y <= 32767:
        return None
    return ("txt", y, int(m.group(3)), int(m.group(4)), int(m.group(5)) if m.group(5) else 0)


def ref_typed(s):
    """expected result of the four parsers; for Date also whether the answer is binding ("exact") or only an upper bound
    ("sound": Date::parse documents YYYY.MM.DD and looks only at 5..12 bytes starting with a digit or '-'; outside that
    window the property only forbids accepting something else)"""
    e = ref_expanded(s)
    out = {"date": None, "dh": None, "ud": None, "raw": None}
    if e:
        form, y, m, d, h = e
        mok = 1 <= m <= 12
        cal = mok and 1 <= d <= DPM[m]
        if form == "txt" and mok and 1 <= d <= 31 and h <= 24:
            out["raw"] = (y, m, d, h)
        if cal and h == 0:
            out["date"] = (y, m, d, 0)          # also for the integer form: unlike Date::from_binary, Date::parse does not drop an hour
        if cal and 1 <= h <= 24:
            out["dh"] = (y, m, d, h)
        if mok and 1 <= d <= 30 and h == 0:
            out["ud"] = (y, m, d, 0)
    window = 5 <= len(s) <= 12 and (s[:1] == b"-" or s[:1].isdigit())
    return out, ("exact" if window else "sound")


def show(t):
    return "ok %d %d %d %d" % t if t else "none"


def judge_parse(ctx, key, tag, s, which, got_line, case):
    """compare one parser's answer on `s` with the reference"""
    exp, mode = ref_typed(s)
    e = exp[which]
    if got_line in BAD:
        ctx.fail("size-parse-panic", "%s: %s::parse(%s) = %s" % (tag, which, brief(s), got_line), [case], [got_line], show(e))
        return
    got = ok_tuple(got_line)
    if which == "date" and mode == "sound":
        ok = got is None or got == e
    else:
        ok = got == e
    if not ok:
        ctx.fail(key, "%s: %s::parse(%s) = %s, the text means %s" % (tag, which, brief(s), got_line, show(e)), [case], [got_line], show(e))


def brief(s):
    s = bytes(s)
    if len(s) <= 48:
        return repr(s)
    return "%r..(%d bytes)..%r" % (s[:16], len(s), s[-20:])


def run_size(ctx):
    rng = ctx.rng
    profiles = ctx_profiles(ctx)
    debug_jobs = []      # (stream, cases, release outputs): repeated on the debug build at the end

    # ================================================================== text: parse ladders
    strs = {}            # bytes -> tag (first tag wins)

    def add(s, tag):
        s = bytes(s)
        if s not in strs:
            strs[s] = tag
            ctx.count("size_" + tag, 1)

    # -- (a) year: sign x significant digits x zero padding, on small tails
    year_vals = [0, 1, 9, 10, 99, 100, 999, 1000, 1444, 9999, 10000, 32767, 32768, 32769, 65535, 65536, 99999, 100000,
                 2 ** 31 - 1, 2 ** 31, 2 ** 32 + 1444, 2 ** 63 - 1, 2 ** 63, 2 ** 64 - 1, 2 ** 64, 2 ** 64 + 1444, 10 ** 24 + 1444]
    tails = [b".1.1", b".11.11", b".12.31.24", b".2.30", b".01.01"]
    for v in year_vals:
        for sign in (b"", b"-", b"+"):
            for k in (0, 1, 2, 3, 4, 5, 6, 7, 8, 9, 10, 11, 12, 13, 15, 16, 17, 20):
                for t in tails[:3] if k > 4 else tails:
                    add(sign + b"0" * k + str(v).encode() + t, "year_digits")
    # every digit count 1..25 of the year (10^(n-1) and 10^n - 1), three signs
    for n in range(1, 26):
        for v in (10 ** (n - 1), 10 ** n - 1):
            for sign in (b"", b"-", b"+"):
                for t in (b".1.1", b".10.10.10"):
                    add(sign + str(v).encode() + t, "year_digits")
    # sign without digits, doubled signs
    for y in (b"", b"-", b"+", b"--1", b"+-1", b"-+1", b"++1", b"-0", b"+0", b"-00", b"0"):
        for t in tails:
            add(y + t, "year_sign")
    # zero padding of the year along the whole ladder (the text stays a valid UniformDate / DateHour / RawDate)
    for k in LADDER:
        for (sign, y) in ((b"", b"1444"), (b"-", b"1"), (b"", b"32767"), (b"", b"32768")) if k <= 4097 else ((b"", b"1444"),):
            for t in (b".11.11", b".1.1.12"):
                add(sign + b"0" * k + y + t, "year_zero_pad")
    # -- (b) total length 0..24: every prefix of long exemplars, and a valid text of every length where one exists
    exemplars = [b"0001444.11.11.11xx", b"-32768.12.31.24.1", b"1444.1.1", b"1444.11.11", b"1444.1.11", b"1444.11.1", b"43808760",
                 b"-43808760000", b"+1444.11.11", b"00000000001.1.1", b"2200.02.30", b"1936.01.01.10", b"000000000056379360"]
    for ex in exemplars:
        for L in range(len(ex) + 1):
            add(ex[:L], "length_prefix")
    for L in range(0, 41):
        for (y, t) in ((b"1", b".1.1"), (b"1", b".1.1.1"), (b"9", b".12.31"), (b"7", b".10.10.24"), (b"-5", b".2.28")):
            k = L - len(y) - len(t)
            if k >= 0:
                sign, digits = (y[:1], y[1:]) if y[:1] == b"-" else (b"", y)
                add(sign + b"0" * k + digits + t, "length_exact")
    # -- (c) month x day x hour: 1 / 2 / 3 digits, with and without leading zeros
    mforms = [b"0", b"1", b"9", b"00", b"01", b"09", b"10", b"12", b"13", b"19", b"99", b"000", b"001", b"012", b"100", b"120"]
    dforms = [b"0", b"1", b"9", b"00", b"01", b"09", b"10", b"28", b"29", b"30", b"31", b"32", b"99", b"001", b"031", b"100", b"310"]
    hforms = [None, b"", b"0", b"1", b"9", b"00", b"01", b"09", b"10", b"19", b"24", b"25", b"26", b"99", b"001", b"024", b"100", b"240"]
    for y in (b"1444", b"1", b"-1", b"01444"):
        for mf in mforms:
            for df in dforms:
                for hf in hforms:
                    add(y + b"." + mf + b"." + df + (b"" if hf is None else b"." + hf), "component_digits")
    # every hour value 0..30, one and two digit renderings, behind every shape of Y.M.D
    for h in range(0, 31):
        for base in (b"1936.1.1", b"1936.01.01", b"1936.12.31", b"1.2.28", b"-100.10.9"):
            for hf in (b"%d" % h, b"%02d" % h, b"%03d" % h):
                add(base + b"." + hf, "hour_value")
    # -- (d) trailing / leading run after a complete date: rejected whatever its length
    for g in LADDER:
        fills = (b"0", b".", b" ", b"\x00", b"9") if g <= 4097 else (b"0", b" ")
        for base in (b"1444.11.11", b"1444.1.1", b"1936.1.1.12", b"1936.1.1.1", b"1.1.1"):
            if g > 257 and base not in (b"1444.11.11", b"1936.1.1.12"):
                continue
            for f in fills:
                add(base + f * g, "trailing_run")
                if g and g <= 257:
                    add(base + b"." + f * g, "trailing_run")
                    add(f * g + base, "leading_run")
    # -- (e) the plain-integer form: magnitude at every width boundary, sign, zero padding
    ints = [0, 1, 23, 24, 8759, 8760, 8761, 9999, 10000, 99999, 43791240, 43808760, 43808761, 56379360, 60759371, MAX_BIN - 1, MAX_BIN,
            MAX_BIN + 8760, -MIN_BIN, -MIN_BIN + 8760, 2 ** 31 - 1, 2 ** 31, 2 ** 31 + 1, 2 ** 32 - 1, 2 ** 32, 2 ** 32 + 56379360,
            2 ** 63 - 1, 2 ** 63, 2 ** 63 + 56379360, 2 ** 64 - 1, 2 ** 64, 2 ** 64 + 56379360, 10 ** 20, 10 ** 25 + 56379360]
    for v in ints:
        for sign in (b"", b"-", b"+"):
            for k in (0, 1, 2, 3, 4, 5, 6, 7, 8, 9, 11, 12, 13, 16, 20, 31, 32, 33):
                add(sign + b"0" * k + str(v).encode(), "integer_text")
    for k in LADDER:
        for v in (56379360, 60759371, 8760):
            if k > 4097 and v != 56379360:
                continue
            add(b"0" * k + str(v).encode(), "integer_zero_pad")
            add(b"-" + b"0" * k + str(v).encode(), "integer_zero_pad")

    order = sorted(strs, key=lambda s: (len(s), s))
    lens = sorted(set(len(s) for s in order))
    ctx.count("size_parse_strings", len(order))
    ctx.count("size_parse_max_len", lens[-1])
    cases, meta = [], []
    for s in order:
        hx = hexs(s)
        for which in TYPES:
            cases.append("%s\t%s" % (KIND_PARSE[which], hx)); meta.append((s, which))
    impl, _ = ctx.correspond("size_parse", cases, nontrivial=lambda c, i: i.startswith("ok") or len(c) > 40)
    base = len(impl) - len(cases)
    for k, (s, which) in enumerate(meta):
        judge_parse(ctx, "size-parse", strs[s], s, which, impl[base + k], cases[k])
    debug_jobs.append(("size_parse_debug", cases, impl[base:]))
    acc = {w: 0 for w in TYPES}
    for k, (s, which) in enumerate(meta):
        if impl[base + k].startswith("ok"):
            acc[which] += 1
    for w in TYPES:
        ctx.count("size_parse_accepted_" + w, acc[w])

    # FromStr and the serde visitors see the same language at every length (utf-8 inputs only)
    cases, meta = [], []
    for n, s in enumerate(order):
        if any(b > 127 for b in s) or (n % 5 and len(s) < 64):
            continue
        hx = hexs(s)
        for which in TYPES:
            cases.append("dt.fromstr\t%s\t%s" % (which, hx)); meta.append((s, which, False))
            if which != "raw":
                mode = ("str", "bstr", "string")[n % 3]
                cases.append("dt.de\t%s\t%s\t%s" % (which, mode, hx)); meta.append((s, which, True))
    impl, _ = ctx.correspond("size_fromstr_de", cases, nontrivial=lambda c, i: i.startswith("ok") or len(c) > 40)
    base = len(impl) - len(cases)
    for k, (s, which, de) in enumerate(meta):
        o = impl[base + k]
        judge_parse(ctx, "size-parse", strs[s] + (" (serde)" if de else " (FromStr)"), s, which, "none" if o == "err" else o, cases[k])

    # the text at every offset 0..17 (+ around 32 / 64) of a larger buffer whose neighbours are digits
    cases, meta = [], []
    at = [b"1444.11.11", b"1444.1.1", b"1444.11.1", b"1444.1.11", b"43808760", b"1.1.1", b"-32768.12.31", b"1936.1.1.12", b"2200.02.30",
          b"1444.11.1x", b"1444.1.", b"0001.1.1", b"5637936", b"1444.11.", b"1936.1.1.1"]
    for s in at:
        for pre in list(range(0, 18)) + [31, 32, 33, 63, 64, 65]:
            for suf in (0, 1, 8, 9):
                for which in TYPES:
                    cases.append("dt.parse_at\t%s\t%d\t%s\t%d" % (which, pre, hexs(s), suf)); meta.append((s, which))
    impl, _ = ctx.correspond("size_parse_at", cases, nontrivial=lambda c, i: i.startswith("ok"), model=False)
    base = len(impl) - len(cases)
    for k, (s, which) in enumerate(meta):
        parts = impl[base + k].split(" | ")
        if len(parts) != 3:
            ctx.fail("size-parse-at", "%s on %r inside a buffer: %s" % (which, s, impl[base + k]), [cases[k]], [impl[base + k]])
            continue
        for form, o in zip(("byte sub-slice", "str sub-slice", "owned copy"), parts):
            judge_parse(ctx, "size-parse-at", "inside a buffer, %s (%s)" % (form, cases[k].replace("\t", " ")), s, which, o, cases[k])
    debug_jobs.append(("size_parse_at_debug", cases, impl[base:]))

    # ================================================================== constructors: every u8 in each argument
    kind_ctor = {"date": "date.ymd", "dh": "dh.ymdh", "ud": "ud.ymd", "raw": "raw.ymdh"}
    triples = set()
    for m in range(256):
        for d in (1, 28, 30, 31):
            for h in (0, 1):
                triples.add((m, d, h))
    for d in range(256):
        for m in (1, 2, 4, 12):
            for h in (0, 1, 24):
                triples.add((m, d, h))
    for h in range(256):
        for (m, d) in ((1, 1), (2, 28), (12, 31), (2, 30)):
            triples.add((m, d, h))
    cases, meta = [], []
    ys = [-32768, -1, 0, 1, 1444, 32767]
    for n, (m, d, h) in enumerate(sorted(triples)):
        y = ys[n % len(ys)]
        for which in TYPES:
            hh = h if which in ("dh", "raw") else 0
            if which in ("date", "ud") and h not in (0, 1):
                continue
            c = "%s\t%d\t%d\t%d" % (kind_ctor[which], y, m, d) + ("\t%d" % hh if which in ("dh", "raw") else "")
            cases.append(c); meta.append((which, y, m, d, hh, "opt"))
        cases.append("dt.rawf\t%d\t%d\t%d\t%d" % (y, m, d, h)); meta.append(("raw", y, m, d, h, "rawf"))
        cases.append("dt.ctorp\t%s\t%d\t%d\t%d\t%d" % ("dh", y, m, d, h)); meta.append(("dh", y, m, d, h, "panic"))
    ctx.count("size_ctor_cases", len(cases))
    impl, _ = ctx.correspond("size_ctor_u8", cases, nontrivial=lambda c, i: i.startswith("ok"))
    base = len(impl) - len(cases)
    for k, (which, y, m, d, h, mode) in enumerate(meta):
        v = valid(which, y, m, d, h)
        if mode == "rawf":
            exp = "ok %d %d %d %d %d" % (y, m, d, h, 1 if h else 0) if v else "none"
        else:
            exp = "ok %d %d %d %d" % (y, m, d, h) if v else ("none" if mode == "opt" else "PANIC")
        if impl[base + k] != exp:
            ctx.fail("size-ctor", "%s constructor (%s) on %d.%d.%d.%d gives %s, the calendar says %s" % (which, mode, y, m, d, h, impl[base + k], exp),
                     [cases[k]], [impl[base + k]], exp)
    debug_jobs.append(("size_ctor_u8_debug", cases, impl[base:]))

    # ================================================================== formatter: every (m, d, h) a RawDate holds x every year width
    fy_all = [-32768, 1]
    fy = [-10000, -9999, -1000, -999, -100, -99, -10, -9, -1, 0, 9, 10, 99, 100, 999, 1000, 9999, 10000, 32767]
    cases, meta = [], []
    for y in fy_all + fy:
        for m in range(1, 13):
            for d in (range(1, 32) if y in fy_all else (1, 9, 10, 28, 29, 30, 31)):
                for h in range(0, 25):
                    cases.append("dt.fmtx\traw\t%d\t%d\t%d\t%d" % (y, m, d, h)); meta.append((y, m, d, h))
    ctx.count("size_fmt_raw_cases", len(cases))
    impl, _ = ctx.correspond("size_fmt_raw", cases, nontrivial=lambda c, i: " " in i)
    base = len(impl) - len(cases)
    pcases, pmeta = [], []
    for k, (y, m, d, h) in enumerate(meta):
        short, wide, iso = ref_game(y, m, d, h, False), ref_game(y, m, d, h, True), ref_iso(y, m, d, h)
        exp = " ".join(hexs(s.encode()) for s in (short, wide, iso, short, iso))
        if impl[base + k] != exp:
            ctx.fail("size-fmt", "RawDate %d.%d.%d.%d renders as %s; reference %s / %s / %s" % (y, m, d, h, impl[base + k], short, wide, iso),
                     [cases[k]], [impl[base + k]], exp)
            continue
        if y in fy_all or k % 3 == 0:
            pcases.append("raw.parse\t%s" % hexs(short.encode())); pmeta.append((y, m, d, h, k))
            if h == 0 or h >= 10:     # zero-padded hours 1..9 are the known finding fmt-parse-wide-hour-lt10
                pcases.append("raw.parse\t%s" % hexs(wide.encode())); pmeta.append((y, m, d, h, k))
    debug_jobs.append(("size_fmt_raw_debug", cases[::7], impl[base:][::7]))
    impl2, _ = ctx.correspond("size_fmt_raw_parse", pcases, nontrivial=lambda c, i: i.startswith("ok"))
    base = len(impl2) - len(pcases)
    for j, (y, m, d, h, k) in enumerate(pmeta):
        if ok_tuple(impl2[base + j]) != (y, m, d, h):
            ctx.fail("size-fmt-parse", "RawDate %d.%d.%d.%d: its rendering %r parses to %s" % (y, m, d, h, unhex(pcases[j].split("\t")[1]), impl2[base + j]),
                     [cases[k], pcases[j]], [impl2[base + j]], "ok %d %d %d %d" % (y, m, d, h))

    # ================================================================== add_days: offset magnitude ladder
    HI, LO = 32768 * 365, -32768 * 365 - 365      # exclusive bounds of the day number
    offs = set(LADDER)
    for k in (1, 2, 10, 100, 1000, 10000, 32767, 32768, 65535, 65536):
        for e in (-1, 0, 1):
            offs.add(365 * k + e)
    for b in range(17, 32):
        offs.update((2 ** b - 1, 2 ** b, 2 ** b + 1))
    offs.update((364, 366, 729, 731, 11960319, 11960320, 11960684, 11960685, 23921003, 23921004, 23921005, 2 ** 31 - 1, 2 ** 31 - 2))
    offs = sorted(o for o in offs if o < 2 ** 31)
    starts = [(1, 1, 1), (1444, 11, 11), (0, 1, 1), (0, 12, 31), (-1, 1, 1), (-1, 12, 31), (32767, 12, 31), (32767, 1, 1), (-32768, 1, 1),
              (-32768, 12, 31), (16000, 6, 15), (-16000, 6, 15), (9999, 12, 31), (-9999, 1, 1)]
    cases, meta = [], []
    for (y, m, d) in starts:
        D = ref_days(y, m, d)
        for o in offs:
            for n in ((o, -o) if o else (0,)):
                cases.append("date.add\t%d\t%d\t%d\t%d" % (y, m, d, n)); meta.append((y, m, d, n, D))
        cases.append("date.add\t%d\t%d\t%d\t%d" % (y, m, d, -2 ** 31)); meta.append((y, m, d, -2 ** 31, D))
    ctx.count("size_add_cases", len(cases))
    impl, _ = ctx.correspond("size_add", cases, nontrivial=lambda c, i: i.startswith("ok") or i == "PANIC")
    base = len(impl) - len(cases)
    debug_jobs.append(("size_add_debug", cases, impl[base:]))
    ucases, umeta = [], []
    for k, (y, m, d, n, D) in enumerate(meta):
        o = impl[base + k]
        nd = D + n
        inside = LO < nd < HI
        g = ok_tuple(o)
        if inside != (g is not None) or (not inside and o != "PANIC"):
            ctx.fail("size-add-panic-iff", "add_days(%d.%d.%d, %d) = %s; day number %d is %s the representable range" % (y, m, d, n, o, nd, "inside" if inside else "outside"),
                     [cases[k]], [o], "a date" if inside else "PANIC")
            continue
        if g:
            q = abs(nd) // 365 * (1 if nd >= 0 else -1)
            mm, dd = md_of(abs(nd) % 365)
            if g[:3] != (q, mm, dd):
                ctx.fail("size-add-value", "add_days(%d.%d.%d, %d) = %s, expected %d.%d.%d" % (y, m, d, n, o, q, mm, dd), [cases[k]], [o], "ok %d %d %d 0" % (q, mm, dd))
                continue
            if (D >= 0 and nd >= 0) or (D < 0 and nd <= -365):
                ucases.append("date.until\t%d\t%d\t%d\t%d\t%d\t%d" % (y, m, d, g[0], g[1], g[2])); umeta.append((n, k))
                if y >= 1 and g[0] >= 1:
                    ucases.append("date.cmp\t%d\t%d\t%d\t%d\t%d\t%d" % (y, m, d, g[0], g[1], g[2])); umeta.append((n, k))
    impl2, _ = ctx.correspond("size_add_until", ucases, nontrivial=lambda c, i: True)
    base = len(impl2) - len(ucases)
    for j, (n, k) in enumerate(umeta):
        exp = str(n) if ucases[j].startswith("date.until") else ("lt" if n > 0 else ("gt" if n < 0 else "eq"))
        if impl2[base + j] != exp:
            ctx.fail("size-add-until", "%s then %s = %s, expected %s" % (cases[k].replace("\t", " "), ucases[j].split("\t")[0], impl2[base + j], exp),
                     [cases[k], ucases[j]], [impl2[base + j]], exp)

    # ================================================================== days_until: year distance ladder, up to first year .. last year
    cases, meta = [], []
    mds = [((1, 1), (12, 31)), ((12, 31), (1, 1)), ((6, 15), (6, 15)), ((3, 1), (2, 28))]
    for dist in [x for x in LADDER if x <= 65535] + [32767, 32768, 40000, 65000]:
        for ay in sorted(set((-32768, 32767 - dist, 0, 1, -dist, -(dist // 2), 1444 - dist))):
            by = ay + dist
            if not (-32768 <= ay <= 32767 and -32768 <= by <= 32767):
                continue
            for (ma, mb) in mds:
                a, b = (ay,) + ma, (by,) + mb
                cases.append("dt.arith\t%d\t%d\t%d\t%d\t%d\t%d" % (a + b)); meta.append((a, b))
                cases.append("dt.arith\t%d\t%d\t%d\t%d\t%d\t%d" % (b + a)); meta.append((b, a))
    ctx.count("size_until_cases", len(cases))
    impl, _ = ctx.correspond("size_until", cases, nontrivial=lambda c, i: " ok " in i)
    base = len(impl) - len(cases)
    debug_jobs.append(("size_until_debug", cases, impl[base:]))
    for k, (a, b) in enumerate(meta):
        o = impl[base + k].split(" ")
        if len(o) != 8:
            ctx.fail("size-until-panic", "days_until / add_days on %s, %s: %s" % (a, b, impl[base + k]), [cases[k]], [impl[base + k]])
            continue
        n, back, c, cmpv = int(o[0]), int(o[1]), tuple(int(x) for x in o[3:6]), o[7]
        if c != b:
            ctx.fail("size-until-add", "a=%s b=%s: a.add_days(a.days_until(b)) = %s" % (a, b, c), [cases[k]], [impl[base + k]], str(b))
        if back != -n:
            ctx.fail("size-until-antisym", "a=%s b=%s: days_until %d one way, %d back" % (a, b, n, back), [cases[k]], [impl[base + k]])
        oa, ob = ordinal(a[1], a[2]), ordinal(b[1], b[2])
        if a[0] >= 0 and b[0] >= 0 and n != (b[0] - a[0]) * 365 + ob - oa:
            ctx.fail("size-until-ref", "a=%s b=%s: days_until = %d, 365-day calendar says %d" % (a, b, n, (b[0] - a[0]) * 365 + ob - oa), [cases[k]], [impl[base + k]])
        if a[0] >= 1 and b[0] >= 1 and cmpv != ("lt" if n > 0 else ("gt" if n < 0 else "eq")):
            ctx.fail("size-ord-sign", "a=%s b=%s: Ord says %s, days_until = %d" % (a, b, cmpv, n), [cases[k]], [impl[base + k]])
        if cmpv != ("lt" if a < b else ("gt" if a > b else "eq")):
            ctx.fail("size-ord-lex", "a=%s b=%s: Ord says %s" % (a, b, cmpv), [cases[k]], [impl[base + k]])

    # ================================================================== the ladders again on the debug build
    if "debug" in profiles:
        for stream, dcases, rel in debug_jobs:
            impl_d, _ = ctx.correspond(stream, dcases, nontrivial=lambda c, i: True, model=False, profile="debug")
            based = len(impl_d) - len(dcases)
            for k, c in enumerate(dcases):
                if impl_d[based + k] != rel[k]:
                    ctx.fail("size-profile-dependent", "%s gives %s in the debug build, %s in the release build" % (c[:200].replace("\t", " "), impl_d[based + k], rel[k]),
                             [c], [impl_d[based + k]], rel[k])
