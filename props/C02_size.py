"""C02, wave 6 (engineer s_c02): size / boundary ladders for the text deserializers.

ONE size-like dimension at a time on an otherwise tiny document (plus the pairs the code couples: length x alignment,
token length x buffer size, token x refill boundary), every rung of

    0 1 2 3 7 8 9 15 16 17 31 32 33 63 64 65 127 128 129 255 256 257 1023 1024 1025 4095 4096 4097 65533 65534 65535 65536

that the entry point allows at acceptable cost.  Every case is a `de.text` case (the runtime-shape serde interpreter of
harness/src/fam_de.rs) on the entry points  from_*_slice / from_*_tape / ObjectReader::deserialize / from_*_reader (default
32 KiB buffer, scripted Read) / TextDeserializer::from_*_reader over a TokenReader with a SMALL buffer and a chunked read
schedule.  The expected value is written down BY CONSTRUCTION in this file (closed forms: `f<i> = <i>`, `"a" * L`, ...), never
computed by the implementation or by the model; the small cases are additionally run through the extracted deserializer walks
(stream `size_walk`, the `walk_model` machinery of props/C02.py); the long ones are implementation + oracle only (the extracted
walk is quadratic beyond a few thousand tokens) -- which ones is recorded in the distribution (`size_model_cases`).

The families (`fam`) and what they ladder are listed in audit/C02.md, section "Size dimensions".
"""
from fractions import Fraction
import struct

from props.dedoc import hx

LADDER = [0, 1, 2, 3, 7, 8, 9, 15, 16, 17, 31, 32, 33, 63, 64, 65, 127, 128, 129, 255, 256, 257, 1023, 1024, 1025,
          4095, 4096, 4097, 65533, 65534, 65535, 65536]


def lad(hi, lo=0):
    return [x for x in LADDER if lo <= x <= hi]


TAPE = ["slice", "tape", "objreader"]
BIG = ["reader:32768:-", "freader:-"]

# ------------------------------------------------------------------------------------------ canonical values / shapes
def vs(b, enc="w1252"):
    """value of a string scalar whose bytes in the document are b"""
    if isinstance(b, str):
        b = b.encode("ascii")
    return "(str %s)" % hx(b.decode("cp1252" if enc == "w1252" else "utf-8"))


def vu(n):
    return "(u %d)" % n


def vi(n):
    return "(i %d)" % n


def vseq(xs):
    return "(seq%s)" % "".join(" " + x for x in xs)


def vstruct(fs):
    return "(struct%s)" % "".join(" (%s %s)" % (hx(n), v) for (n, v) in fs)


def vmap(fs):
    return "(map%s)" % "".join(" (%s %s)" % (hx(n), v) for (n, v) in fs)


def sstruct(fs):
    """fs: (name, mode, shape)"""
    return "struct(%s)" % ",".join("%s%s:%s" % (hx(n), m, s) for (n, m, s) in fs)


def need_of(text):
    """bytes of buffer the longest lexical item of `text` needs: quoted token + 1, unquoted token + its boundary byte,
    comment incl. `#` + 1 (measured on the unchanged reader: one byte less is answered `full`)"""
    i, n, m = 0, len(text), 8
    while i < n:
        c = text[i]
        if c == 0x22:
            j = i + 1
            while j < n and text[j] != 0x22:
                j += 2 if text[j] == 0x5c else 1
            m = max(m, j - i)
            i = j + 1
        elif c == 0x23:
            j = i
            while j < n and text[j] != 0x0a:
                j += 1
            m = max(m, j - i + 1)
            i = j
        elif c in b" \t\r\n;{}=<>!?":
            i += 1
        else:
            j = i
            while j < n and text[j] not in b" \t\r\n;{}=<>!#\"":
                j += 1
            m = max(m, j - i + 1)
            i = j
    return m


class Cases:
    def __init__(self, ctx):
        self.ctx = ctx
        self.rows = []       # (fam, n, path, enc, shape, text, expect, model)
        self.k = 0

    def add(self, fam, n, text, shape, expect, enc="w1252", paths=None, small=True, model=None, sched=None, reader_expect=None):
        """one document on all entry points.  small=True adds a TokenReader whose buffer is just above what the longest token
        needs, read in small chunks.  reader_expect: the value of the reader paths where it is known to differ (object tails,
        headers: known findings of the property), None = same as `expect`"""
        self.k += 1
        ps = list(paths if paths is not None else TAPE + BIG)
        nd = need_of(text)
        if paths is None and len(text) > 20000 and self.ctx.scale(True, False):
            ps = ["slice", "objreader"][self.k % 2:][:1] + ["tape"][:self.k % 2] + BIG       # long documents: one tape-side entry point per case, alternating
        if nd > 32768 and paths is None:
            # a token that does not fit the default 32 KiB buffer is answered `full` (C07's subject): a reader that fits instead
            ps = [ps[0]] + ["reader:%d:-" % (nd + self.k % 3), "reader:%d:4096*" % (nd + 1 + self.k % 2)]
        if small:
            sc = sched or ["1*", "7*", "8,9*", "3,16,5*", "-"][self.k % 5]
            ps.append("reader:%d:%s" % (max(nd + [0, 1, 2, 7, 8, 9][self.k % 6], 16), sc))
        if model is None:
            model = len(text) <= 1500
        self.ctx.count("size_fam_" + fam)
        # the extracted walks know two routes (the tape walk for slice / tape / ObjectReader, the stream walk for the readers):
        # one entry point of each per document goes to the model, every entry point goes to the implementation + oracle
        readers = [p for p in ps if p.startswith("reader:") or p.startswith("freader:")]
        tapes = [p for p in ps if p not in readers]
        mpaths = set(tapes[self.k % len(tapes):][:1] if tapes else []) | set(readers[-1:])
        for p in ps:
            rd = p in readers
            self.rows.append((fam, n, p, enc, shape, text, reader_expect if (rd and reader_expect is not None) else expect, model and p in mpaths))


# ------------------------------------------------------------------------------------------ the families
def fam_fields(C):
    """number of distinct fields of one object = number of fields of the target struct (every one captured, shape order reversed)"""
    for n in lad(1025, 1) + [4097]:
        text = " ".join("f%d=%d" % (i, i) for i in range(n)).encode()
        sh = sstruct([("f%d" % i, "", "u32") for i in reversed(range(n))])
        C.add("fields", n, text, sh, vstruct([("f%d" % i, vu(i)) for i in reversed(range(n))]))
    # nested: the same inside an object that is a field
    for n in lad(257, 1):
        text = ("o={" + " ".join("f%d=%d" % (i, i) for i in range(n)) + "} z=1").encode()
        sh = sstruct([("z", "", "u8"), ("o", "", sstruct([("f%d" % i, "", "u32") for i in range(n)]))])
        C.add("fields_nested", n, text, sh, vstruct([("z", vu(1)), ("o", vstruct([("f%d" % i, vu(i)) for i in range(n)]))]))


def fam_dups(C):
    """occurrences of ONE key: collected into a Vec (`*`), last one taken (`!`), refused (plain field, from 2 on)"""
    for n in lad(65536):
        text = (" ".join("k=%d" % i for i in range(n)) + " z=1").encode()
        C.add("dup_collect", n, text, sstruct([("k", "*", "u32"), ("z", "", "u8")]),
              vstruct([("k", vseq(vu(i) for i in range(n))), ("z", vu(1))]))
    for n in lad(4097, 1):
        text = ("z=1 " + " ".join("k=%d" % i for i in range(n))).encode()
        C.add("dup_last", n, text, sstruct([("k", "!", "u32"), ("z", "", "u8")]), vstruct([("k", vu(n - 1)), ("z", vu(1))]))
        # interleaved with unknown fields and a second collected key, nested
        text = ("o={" + " ".join("k=%d u%d=x j=%d" % (i, i, 2 * i) for i in range(n)) + "}").encode()
        C.add("dup_collect_nested", n, text, sstruct([("o", "", sstruct([("j", "*", "u32"), ("k", "*", "u16")]))]),
              vstruct([("o", vstruct([("j", vseq(vu(2 * i) for i in range(n))), ("k", vseq(vu(i) for i in range(n)))]))]))
    for n in (2, 3, 257):
        text = " ".join("k=%d" % i for i in range(n)).encode()
        C.add("dup_once", n, text, sstruct([("k", "", "u32")]), "ERR:dup")
    # duplicates of an OBJECT-valued key collected into a Vec of structs
    for n in lad(1025):
        text = (" ".join("k={a=%d b=x%d}" % (i, i) for i in range(n)) + " z=1").encode()
        C.add("dup_collect_obj", n, text, sstruct([("k", "*", sstruct([("b", "", "str"), ("a", "", "u32")])), ("z", "", "u8")]),
              vstruct([("k", vseq(vstruct([("b", vs("x%d" % i)), ("a", vu(i))]) for i in range(n))), ("z", vu(1))]))


def fam_skip(C):
    """unknown fields: how many, how deep, how long, of which kind -- before, between and after the known ones"""
    sh = sstruct([("a", "", "u8"), ("b", "", "u8")])
    exp = vstruct([("a", vu(1)), ("b", vu(2))])
    for n in lad(65536):
        text = (" ".join("u%d=%d" % (i, i) for i in range(n)) + " a=1 b=2").encode()
        C.add("skip_scalars_before", n, text, sh, exp)
    for n in lad(4097):
        mid = " ".join(["u%d={x=%d y={%d %d}}", "u%d=\"q %d } { %d %d\"", "u%d={ {} %d %d %d }", "u%d = rgb { %d %d %d }"][i % 4] % (i, i, i, i) for i in range(n))
        text = ("a=1 " + mid + " b=2").encode()
        C.add("skip_mixed_between", n, text, sh, exp)
        text = ("o={a=1 " + mid + " b=2} " + mid).encode()
        C.add("skip_mixed_nested", n, text, sstruct([("o", "", sh)]), vstruct([("o", exp)]))
    # nesting depth of ONE unknown value: arrays of arrays, objects of objects
    for d in lad(65536, 1):
        text = b"a=1 u=" + b"{" * d + b"}" * d + b" b=2"
        C.add("skip_depth_arrays", d, text, sh, exp)
    for d in lad(4097, 1):
        text = b"a=1 u=" + b"{k=" * d + b"1" + b"}" * d + b" b=2"
        C.add("skip_depth_objects", d, text, sh, exp)
        text = b"o={a=1 u=" + b"{ 1 k={" * (d // 2 + 1) + b"}}" * (d // 2 + 1) + b" b=2}"
        C.add("skip_depth_nested", d, text, sstruct([("o", "", sh)]), vstruct([("o", exp)]))
    # byte length of ONE unknown container (the 8-byte block loop of skip_container runs over it), four kinds of content
    for n in lad(65536):
        for kind, unit in (("words", b"xy "), ("braces", b"{}{ } "), ("quotes", b"\"}{\" "), ("comment", b"#}{\n")):
            if n > 4097 and kind != "words":
                continue
            body = (unit * (n // len(unit) + 1))[:n]
            if kind == "quotes":
                body = body + (b"\"" if body.count(b"\"") % 2 else b"")
            if kind == "comment" and not body.endswith(b"\n"):
                body = body + (b"\n" if b"#" in body[body.rfind(b"\n") + 1:] else b"")
            if kind == "braces":
                # keep it balanced: cut back to the last balanced prefix
                dpt = 0
                last = 0
                for q, ch in enumerate(body):
                    dpt += (ch == 0x7b) - (ch == 0x7d)
                    if dpt == 0:
                        last = q + 1
                body = body[:last]
            text = b"a=1 u={" + body + b"} b=2"
            C.add("skip_len_" + kind, n, text, sh, exp)


def fam_skip_align(C):
    """length of the skipped container (0..40) x where it starts relative to the 8-byte blocks (pad 0..7) x content kind: the
    closing brace, a quote, a comment or a nested pair lands on every position of a block"""
    sh = sstruct([("a", "", "u8"), ("b", "", "u8")])
    exp = vstruct([("a", vu(1)), ("b", vu(2))])
    for n in range(0, 41):
        for pad in range(0, 8):
            kind = (n + pad) % 5
            fill = b"x" * n
            if kind == 1 and n >= 2:
                fill = b"x" * (n - 2) + b"{}"
            elif kind == 2 and n >= 4:
                fill = b"x" * (n - 4) + b" \"}\""
            elif kind == 3 and n >= 4:
                fill = b"x" * (n - 4) + b" #}\n"
            elif kind == 4 and n >= 4:
                fill = b"{{" + b"x" * (n - 4) + b"}}"
            text = b"a=1" + b" " * pad + b" u={" + fill + b"} b=2"
            C.add("skip_align", n * 8 + pad, text, sh, exp, paths=["slice", "reader:32768:-"], small=True)
    # many closes / opens inside ONE block
    for k in range(1, 18):
        text = b"a=1 u=" + b"{" * k + b"}" * k + b" b=2"
        C.add("skip_block_braces", k, text, sh, exp, paths=["slice", "reader:32768:-"])
        text = b"a=1 u={" + b"{}" * k + b"} b=2"
        C.add("skip_block_pairs", k, text, sh, exp, paths=["slice", "reader:32768:-"])


def fam_seq(C):
    for n in lad(65536):
        text = ("s={" + " ".join(str(i) for i in range(n)) + "} z=1").encode()
        C.add("seq_len", n, text, sstruct([("s", "", "seq(u32)"), ("z", "", "u8")]), vstruct([("s", vseq(vu(i) for i in range(n))), ("z", vu(1))]))
    for n in lad(4097):
        text = ("s={" + " ".join("w%d" % i if i % 2 else "\"w %d\"" % i for i in range(n)) + "}").encode()
        C.add("seq_len_str", n, text, sstruct([("s", "", "seq(str)")]), vstruct([("s", vseq(vs("w%d" % i if i % 2 else "w %d" % i) for i in range(n)))]))
        text = ("s={" + " ".join("{a=%d u=x}" % i for i in range(n)) + "}").encode()
        C.add("seq_len_obj", n, text, sstruct([("s", "", "seq(%s)" % sstruct([("a", "", "u32")]))]), vstruct([("s", vseq(vstruct([("a", vu(i))]) for i in range(n)))]))
        text = ("s={" + " ".join("{%d %d}" % (i, i + 1) for i in range(n)) + "}").encode()
        # an empty {} first would be a ghost; these are never empty
        C.add("seq_len_seq", n, text, sstruct([("s", "", "seq(seq(u32))")]), vstruct([("s", vseq(vseq([vu(i), vu(i + 1)]) for i in range(n)))]))
    for n in lad(257, 1):
        text = ("t={" + " ".join(str(i) for i in range(n)) + "}").encode()
        C.add("tuple_len", n, text, sstruct([("t", "", "tup(%s)" % ",".join(["u32"] * n))]), vstruct([("t", vseq(vu(i) for i in range(n)))]))
    # the sequence is skipped / taken as Option / as Property
    for n in lad(4097):
        text = ("s={" + " ".join(str(i) for i in range(n)) + "} z=1").encode()
        C.add("seq_len_opt", n, text, sstruct([("s", "", "opt(seq(u16))"), ("z", "", "u8")]), vstruct([("s", "(some %s)" % vseq(vu(i) for i in range(n))), ("z", vu(1))]))


def fam_map(C):
    for n in lad(65536):
        text = ("m={" + " ".join("k%d=%d" % (i, i) for i in range(n)) + "} z=1").encode()
        C.add("map_size", n, text, sstruct([("m", "", "map(u32)"), ("z", "", "u8")]), vstruct([("m", vmap(("k%d" % i, vu(i)) for i in range(n))), ("z", vu(1))]))
    for n in lad(4097):
        text = " ".join("%d=v%d" % (i % 7, i) for i in range(n)).encode()
        C.add("map_size_root_dupkeys", n, text, "map(str)", vmap((str(i % 7), vs("v%d" % i)) for i in range(n)))
        text = ("m={" + " ".join("k%d={%d}" % (i, i) for i in range(n)) + "}").encode()
        C.add("map_size_seq_values", n, text, sstruct([("m", "", "map(seq(u32))")]), vstruct([("m", vmap(("k%d" % i, vseq([vu(i)])) for i in range(n)))]))


def str_content(kind, n, enc):
    """n BYTES of string content inside quotes and its decoded text"""
    if kind == "ascii" or n == 0:
        b = (b"abcdefg " * (n // 8 + 1))[:n]
        if b.endswith(b" "):
            b = b[:-1] + b"h"
        return b, b.decode()
    if kind == "high_last":
        if enc == "w1252":
            return b"a" * (n - 1) + b"\xe9", "a" * (n - 1) + "é"
        if n < 2:
            return b"a" * n, "a" * n
        return b"a" * (n - 2) + b"\xc3\xa9", "a" * (n - 2) + "é"
    if kind == "high_all":
        if enc == "w1252":
            b = (b"\x80\xe9\x9c\xff" * (n // 4 + 1))[:n]
            return b, b.decode("cp1252")
        s = "a" * (n % 5) + "€é" * (n // 5)
        return s.encode("utf-8"), s
    if kind == "escape_last":
        if n < 2:
            return b"a" * n, "a" * n
        return b"a" * (n - 2) + b"\\\"", "a" * (n - 2) + "\""
    raise RuntimeError(kind)


def fam_strings(C):
    """byte length of quoted / unquoted values and keys under both encodings"""
    for enc in ("w1252", "utf8"):
        for n in lad(65536) + [65537]:
            for kind in ("ascii", "high_last", "high_all", "escape_last"):
                if n > 4097 and kind == "high_all" and enc == "utf8":
                    pass
                b, s = str_content(kind, n, enc)
                text = b"a=\"" + b + b"\" b=2"
                esc = kind == "escape_last" and n >= 2
                C.add("str_len_" + kind, n, text, sstruct([("a", "", "str"), ("b", "", "u8")]),
                      vstruct([("a", "(str %s)" % hx(s)), ("b", vu(2))]), enc=enc,
                      small=not esc and n <= 4097, sched=None)
        # number of escapes in one string (every one is dropped by the decoder; the readers take the slow path from the first on)
        for n in lad(4097, 1):
            b = b"x\\\"" * n + b"y"
            text = b"a=\"" + b + b"\" b=2"
            C.add("str_escapes", n, text, sstruct([("a", "", "str"), ("b", "", "u8")]), vstruct([("a", "(str %s)" % hx("x\"" * n + "y")), ("b", vu(2))]), enc=enc, small=False)
        for n in lad(65536, 1):
            b = (b"abcdefgh" * (n // 8 + 1))[:n]
            text = b"a=" + b + b" b=2"
            C.add("unquoted_len", n, text, sstruct([("a", "", "str"), ("b", "", "u8")]), vstruct([("a", vs(b)), ("b", vu(2))]), enc=enc, small=n <= 4097)
            hb = (b"k\xe9" if enc == "w1252" else b"k\xc3\xa9")
            if n >= len(hb) + 1:
                b2 = hb + b[len(hb):]
                text = b"a=" + b2 + b" b=2"
                C.add("unquoted_len_high", n, text, sstruct([("a", "", "str"), ("b", "", "u8")]), vstruct([("a", vs(b2, enc)), ("b", vu(2))]), enc=enc, small=n <= 4097)
        # key length: a struct field name, a map key (quoted and not)
        for n in lad(65536, 1):
            k = (b"kbcdefgh" * (n // 8 + 1))[:n]
            name = k.decode()
            for q in (False, True):
                kb = b"\"" + k + b"\"" if q else k
                text = b"z=1 " + kb + b"=7 y=2"
                C.add("key_len_struct", n, text, sstruct([(name, "", "u8"), ("y", "", "u8")]), vstruct([(name, vu(7)), ("y", vu(2))]), enc=enc, small=n <= 4097)
                text = b"m={ " + kb + b"=7 y=2 }"
                C.add("key_len_map", n, text, sstruct([("m", "", "map(u8)")]), vstruct([("m", vmap([(name, vu(7)), ("y", vu(2))]))]), enc=enc, small=n <= 4097)


def fam_str_align(C):
    """string length 0..40 x offset of the opening quote 0..8 (the 8-byte quote search of the reader, the chunked decoders)"""
    for n in range(0, 41):
        for pad in range(0, 9):
            enc = ("w1252", "utf8")[(n + pad) % 2]
            kind = ("ascii", "high_last", "escape_last", "high_all")[(n // 2 + pad) % 4]
            b, s = str_content(kind, n, enc)
            text = b" " * pad + b"a=\"" + b + b"\" b=2"
            esc = b"\\" in b
            C.add("str_align", n * 9 + pad, text, sstruct([("a", "", "str"), ("b", "", "u8")]), vstruct([("a", "(str %s)" % hx(s)), ("b", vu(2))]),
                  enc=enc, paths=["slice", "reader:32768:-"], small=not esc)
    # a backslash at every position of a string that spans three blocks
    for pos in range(0, 25):
        for enc in ("w1252", "utf8"):
            b = b"a" * pos + b"\\\"" + b"b" * (24 - pos)
            s = "a" * pos + "\"" + "b" * (24 - pos)
            text = b"a=\"" + b + b"\" b=2"
            C.add("str_escape_pos", pos, text, sstruct([("a", "", "str"), ("b", "", "u8")]), vstruct([("a", "(str %s)" % hx(s)), ("b", vu(2))]), enc=enc,
                  paths=["slice", "tape", "reader:32768:-", "freader:-"], small=False)


WIDTHS = [("u", 8), ("u", 16), ("u", 32), ("u", 64), ("i", 8), ("i", 16), ("i", 32), ("i", 64)]


def int_expect(k, b, n):
    lo, hi = (0, 2 ** b - 1) if k == "u" else (-2 ** (b - 1), 2 ** (b - 1) - 1)
    if lo <= n <= hi:
        return "(%s %d)" % (k, n)
    return "ERR:de"


def fam_ints(C):
    """magnitudes at every target width (both sides of both ends) x zero padding (the digit run of the numeral)"""
    for (k, b) in WIDTHS:
        lo, hi = (0, 2 ** b - 1) if k == "u" else (-2 ** (b - 1), 2 ** (b - 1) - 1)
        vals = [0, 1, hi - 1, hi, hi + 1, 10 * hi, 2 ** 64 - 1, 2 ** 64, 10 ** 20, 10 ** 40]
        if k == "i":
            vals += [-1, lo + 1, lo, lo - 1, 10 * lo, -2 ** 63 - 1, -10 ** 20]
        else:
            vals += [-1]
        sh = "%s%d" % (k, b)
        for n in vals:
            if n == -2 ** 63:
                continue          # i64::MIN as text is refused by Scalar::to_i64: C11's subject (ASSUMPTIONS[2])
            pads = lad(65535) if n in (hi, hi + 1) or (k == "i" and n in (lo, lo - 1)) else [0, 1, 2, 19, 20, 21]
            if n in (hi + 1, lo - 1) or b in (16, 32):
                pads = [p for p in pads if p <= 257]
            for z in pads:
                num = ("-" if n < 0 else "") + "0" * z + str(abs(n))
                exp = int_expect(k, b, n)
                if exp.startswith("ERR"):
                    C.add("int_out_of_range", z, ("a=%s b=2" % num).encode(), sstruct([("a", "", sh), ("b", "", "u8")]), "ERR:de", small=z <= 257, model=z <= 257)
                else:
                    C.add("int_width", z, ("a=%s b=2" % num).encode(), sstruct([("a", "", sh), ("b", "", "u8")]), vstruct([("a", exp), ("b", vu(2))]), small=z <= 257, model=z <= 257)
        # a '+' sign, a quoted numeral, the numeral as element / map value / typed map key
        C.add("int_plus", b, ("a=+%d" % hi).encode(), sstruct([("a", "", sh)]), vstruct([("a", int_expect(k, b, hi))]))
        C.add("int_quoted", b, ("a=\"%d\"" % lo).encode() if lo != -2 ** 63 else ("a=\"%d\"" % (lo + 1)).encode(), sstruct([("a", "", sh)]),
              vstruct([("a", int_expect(k, b, lo if lo != -2 ** 63 else lo + 1))]))
        C.add("int_seq", b, ("a={%d 0 %d}" % (hi, hi - 1)).encode(), sstruct([("a", "", "seq(%s)" % sh)]), vstruct([("a", vseq([int_expect(k, b, hi), int_expect(k, b, 0), int_expect(k, b, hi - 1)]))]))
        C.add("int_seq_over", b, ("a={%d 0 %d}" % (hi, hi + 1)).encode(), sstruct([("a", "", "seq(%s)" % sh)]), "ERR:de")
        for z in (0, 1, 17, 257):
            # typed map keys: the walk models have no kmap shape (the key loops are TextDeKeys / stream keys_model): implementation + oracle
            C.add("int_key", z, ("m={%s=1 %s%d=2}" % ("0" * z + "7", "0" * z, hi)).encode(), sstruct([("m", "", "kmap(%s,u8)" % sh)]),
                  vstruct([("m", "(amap (%s %s) (%s %s))" % (int_expect(k, b, 7), vu(1), int_expect(k, b, hi), vu(2)))]), model=False)
            C.add("int_key_over", z, ("m={%s=1 %s%d=2}" % ("0" * z + "7", "0" * z, hi + 1)).encode(), sstruct([("m", "", "kmap(%s,u8)" % sh)]), "ERR:de", model=False)


def f64_bits(x):
    return struct.unpack("<Q", struct.pack("<d", x))[0]


def fam_floats(C):
    """fraction digits 0..22 (the table of powers of ten has 23 entries), integer part up to 2^53 - 1"""
    for k in range(1, 23):
        for mant in (1, 5, 123456789, 2 ** 53 - 1):
            digs = str(mant)
            if len(digs) > k:
                num = digs[:len(digs) - k] + "." + digs[len(digs) - k:]
            else:
                num = "0." + "0" * (k - len(digs)) + digs
            x = float(Fraction(mant, 10 ** k))          # both operands exact in binary64, one correctly rounded division
            for sg in ("", "-"):
                C.add("float_frac_digits", k, ("a=%s%s b=2" % (sg, num)).encode(), sstruct([("a", "", "f64"), ("b", "", "u8")]),
                      vstruct([("a", "(f64 %016x)" % f64_bits(-x if sg else x)), ("b", vu(2))]))
    for n in (0, 1, 2 ** 24, 2 ** 24 + 1, 2 ** 53 - 1):
        for z in (0, 1, 8, 17, 257):
            C.add("float_int", z, ("a=%s%d" % ("0" * z, n)).encode(), sstruct([("a", "", "f64")]), vstruct([("a", "(f64 %016x)" % f64_bits(float(n)))]))
            C.add("float_int_neg", z, ("a=-%s%d" % ("0" * z, n)).encode(), sstruct([("a", "", "f64")]), vstruct([("a", "(f64 %016x)" % f64_bits(-float(n) if n else 0.0))]))


def fam_buffer(C):
    """streaming buffer size x token length x read schedule: the buffer is exactly what the token needs, and 1, 2, 7, 8, 9 more"""
    sh = sstruct([("a", "", "str"), ("b", "", "u8")])
    for n in lad(4097, 1) + [65535, 65536]:
        q = (b"abcdefg " * (n // 8 + 1))[:n - 1] + b"z"
        u = (b"abcdefgh" * (n // 8 + 1))[:n]
        docs = [("quoted", b"a=\"" + q + b"\" b=2", sh, vstruct([("a", vs(q)), ("b", vu(2))])),
                ("unquoted", b"a=" + u + b" b=2", sh, vstruct([("a", vs(u)), ("b", vu(2))])),
                ("unquoted_last", b"b=2 a=" + u, sh, vstruct([("a", vs(u)), ("b", vu(2))])),
                ("key", u + b"=x b=2", sstruct([(u.decode(), "", "str"), ("b", "", "u8")]), vstruct([(u.decode(), vs("x")), ("b", vu(2))])),
                ("skipped", b"a=x \"" + q + b"\"=" + u + b" b=2", sh, vstruct([("a", vs("x")), ("b", vu(2))])),
                ("comment", b"a=x #" + q + b"\nb=2", sh, vstruct([("a", vs("x")), ("b", vu(2))]))]
        for name, text, s, exp in docs:
            nd = need_of(text)
            scheds = ["-", "1*", "7*", "8,9*"] if n <= 4097 else ["-", "4096*"]
            paths = ["reader:%d:%s" % (nd + d, sc) for d in (0, 1, 2, 7, 8, 9) for sc in scheds if (d in (0, 1, 8) or sc in ("-", "1*"))]
            C.add("buf_" + name, n, text, s, exp, paths=["slice"] + paths, small=False)


def fam_default_buffer(C):
    """tokens that just fit the DEFAULT buffer (32 KiB) of from_*_reader / TokenReader::new: need = 32767 and 32768"""
    sh = sstruct([("a", "", "str"), ("b", "", "u8")])
    for nd in (32767, 32768):
        q = (b"abcdefg " * 4096)[:nd - 2] + b"z"
        u = (b"abcdefgh" * 4096)[:nd - 1]
        for name, text, exp in (("quoted", b"b=2 a=\"" + q + b"\" ", vstruct([("a", vs(q)), ("b", vu(2))])),
                                ("unquoted", b"b=2 a=" + u + b" ", vstruct([("a", vs(u)), ("b", vu(2))])),
                                ("comment", b"a=x #" + q[1:] + b"\nb=2", vstruct([("a", vs("x")), ("b", vu(2))]))):
            assert need_of(text) == nd, (name, need_of(text), nd)
            C.add("default_buffer_" + name, nd, text, sh, exp, paths=["slice", "reader:32768:-", "freader:-", "freader:4096*", "freader:32768,1*"], small=False, model=False)


def fam_buffer_size(C):
    """the buffer size itself over the ladder on one fixed document of short tokens (many refills: text / buffer from 0 to 200)"""
    body = " ".join("f%d={x=%d s=\"v %d\" {} l={1 2 3}}" % (i, i, i) for i in range(64))
    text = ("a=1 " + body + " b=2").encode()
    nd = need_of(text)
    for n in lad(65536, nd):
        for sc in ("-", "1*", "7*", "64,3*"):
            C.add("buf_size", n, text, sstruct([("a", "", "u8"), ("b", "", "u8"), ("f63", "", sstruct([("s", "", "str")]))]),
                  vstruct([("a", vu(1)), ("b", vu(2)), ("f63", vstruct([("s", vs("v 63"))]))]), paths=["reader:%d:%s" % (n, sc)], small=False, model=False)


def fam_depth(C):
    """nesting depth of the TARGET type: struct in struct, seq in seq, map in map, Option in Option"""
    for d in lad(C.ctx.scale(1025, 4097), 1):
        text = b"a={" * d + b"a=1" + b"}" * d
        sh = "u8"
        exp = vu(1)
        for _ in range(d + 1):
            sh = sstruct([("a", "", sh)])
            exp = vstruct([("a", exp)])
        C.add("depth_struct", d, text, sh, exp, model=d <= 129)
        text = b"a=" + b"{" * d + b"1 2" + b"}" * d
        sh, exp = "u8", None
        exp = vseq([vu(1), vu(2)])
        sh = "seq(u8)"
        for _ in range(d - 1):
            sh = "seq(%s)" % sh
            exp = vseq([exp])
        C.add("depth_seq", d, text, sstruct([("a", "", sh)]), vstruct([("a", exp)]), model=d <= 129)
        text = b"a={" + b"k={" * (d - 1) + b"k=1" + b"}" * d
        sh, exp = "map(u8)", vmap([("k", vu(1))])
        for _ in range(d - 1):
            sh = "map(%s)" % sh
            exp = vmap([("k", exp)])
        C.add("depth_map", d, text, sstruct([("a", "", sh)]), vstruct([("a", exp)]), model=d <= 129)
        sh, exp = "u8", vu(1)
        for _ in range(d):
            sh = "opt(%s)" % sh
            exp = "(some %s)" % exp
        C.add("depth_option", d, b"a=1", sstruct([("a", "", sh)]), vstruct([("a", exp)]), model=d <= 129)


def fam_gaps(C):
    """white-space runs and comments between the tokens of `a = x  b = 2` (every gap of the document at once)"""
    sh = sstruct([("a", "", "str"), ("b", "", "u8")])
    exp = vstruct([("a", vs("x")), ("b", vu(2))])
    for n in lad(65536):
        for unit in (b" ", b"\t", b"\n", b"\r\n", b" ;"):
            if n > 4097 and unit != b"\t":
                continue
            g = (unit * (n // len(unit) + 1))[:n]
            if unit == b"\r\n" and g.endswith(b"\r"):
                g = g[:-1] + b"\n"
            text = g + b"a" + g + b"=" + g + b"x" + (g or b" ") + b"b" + g + b"=" + g + b"2" + g
            C.add("ws_run", n, text, sh, exp, small=n <= 4097)
        c = b"#" + (b"c{}=\"" * (n // 5 + 1))[:n] + b"\n"
        text = c + b"a=x" + c + b"b" + c + b"=2" + c
        # a comment has to fit into the buffer like a token: the default 32 KiB readers see it only up to 32766 bytes
        C.add("comment_len", n, text, sh, exp, paths=TAPE + (BIG if n <= 32000 else []) + ["reader:%d:%s" % (max(n + 2, 9) + d, s) for d in (0, 1, 8) for s in ("-", "7*" if n <= 4097 else "4096*")], small=False)


def fam_ghosts(C):
    """consecutive empty `{}` where a key is expected: at the start, between fields, at the end; root and nested"""
    sh = sstruct([("a", "", "str"), ("b", "", "u8")])
    exp = vstruct([("a", vs("x")), ("b", vu(2))])
    for n in lad(65536):
        for sep in (b"", b" "):
            if n > 4097 and sep:
                continue
            g = (b"{}" + sep) * n
            C.add("ghost_start", n, g + b"a=x b=2", sh, exp)
            C.add("ghost_middle", n, b"a=x " + g + b" b=2", sh, exp)
            C.add("ghost_end", n, b"a=x b=2 " + g, sh, exp)
            C.add("ghost_nested", n, b"o={ " + g + b"a=x " + g + b" b=2 " + g + b"} " + g + b"z=1", sstruct([("z", "", "u8"), ("o", "", sh)]),
                  vstruct([("z", vu(1)), ("o", exp)]))
            C.add("ghost_map", n, b"m={ k1=1 " + g + b" k2=2 }", sstruct([("m", "", "map(u8)")]), vstruct([("m", vmap([("k1", vu(1)), ("k2", vu(2))]))]))


def fam_headers(C):
    """components of a header value `rgb { .. }`: captured on the tape paths (the reader paths do not deliver headers: finding H,
    they get the document with the header skipped), skipped on all"""
    for n in lad(4097, 1):          # `rgb { }` is the scalar rgb followed by an empty (ghost) object
        comps = [i % 256 for i in range(n)]
        text = ("c = rgb { " + " ".join(map(str, comps)) + " } z=1").encode()
        C.add("header_len", n, text, sstruct([("c", "", "tup(str,seq(u8))"), ("z", "", "u8")]),
              vstruct([("c", vseq([vs("rgb"), vseq(vu(x) for x in comps)])), ("z", vu(1))]), paths=TAPE, small=False)
        C.add("header_len_skipped", n, text, sstruct([("z", "", "u8")]), vstruct([("z", vu(1))]))
    # object tails (`remainder`): tape paths only (the stream path has no remainder: known difference, Props/C02_walk.v)
    for n in lad(4097, 1):
        text = ("o={a=1 " + " ".join(str(i) for i in range(n)) + "} z=1").encode()
        C.add("tail_len", n, text, sstruct([("o", "", sstruct([("a", "", "u8"), ("remainder", "", "seq(u32)")])), ("z", "", "u8")]),
              vstruct([("o", vstruct([("a", vu(1)), ("remainder", vseq(vu(i) for i in range(n)))])), ("z", vu(1))]), paths=TAPE, small=False)


def fam_options(C):
    """absent Option fields of the target (none of them in the document), one present field among them"""
    for n in lad(1025):
        fs = [("q%d" % i, "", "opt(u8)") for i in range(n)]
        fs.insert(n // 2, ("p", "", "u8"))
        ex = [("q%d" % i, "(none)") for i in range(n)]
        ex.insert(n // 2, ("p", vu(5)))
        C.add("absent_options", n, b"u=1 p=5 w={}", sstruct(fs), vstruct(ex))
    for n in lad(1025, 1):
        names = ["v%d" % i for i in range(n)]
        C.add("enum_variants", n, ("e=%s z=1" % names[-1]).encode(), sstruct([("e", "", "enum(%s)" % ",".join(hx(x) for x in names)), ("z", "", "u8")]),
              vstruct([("e", "(enum %s)" % hx(names[-1])), ("z", vu(1))]))


def fam_input_align(C):
    """where the document's tokens sit relative to the start and the end of the input (the reader takes a 9-byte look-ahead path
    only when 9 bytes are left; a BOM is only looked for at offset 0)"""
    sh = sstruct([("a", "", "str"), ("b", "", "u8")])
    for lead in range(0, 18):
        for trail in range(0, 18):
            if not (lead in (0, 1, 7, 8, 9) or trail in (0, 1, 7, 8, 9)):
                continue
            for kind in range(3):
                v, e = [(b"xyz", "xyz"), (b"\"x z\"", "x z"), (b"12345678", "12345678")][kind]
                bom = b"\xef\xbb\xbf" if (lead + trail) % 3 == 0 else b""
                text = bom + b" " * lead + b"b=2 a=" + v + b"\n" * trail
                C.add("input_align", lead * 18 + trail, text, sh, vstruct([("a", vs(e)), ("b", vu(2))]), enc="utf8", paths=["slice", "reader:32768:-", "freader:1*"], small=(kind == 0))


def fam_straddle(C):
    """a token / a skipped container / a duplicate run that straddles the 32768-byte refill boundary of the default buffer"""
    sh = sstruct([("a", "", "str"), ("b", "", "u8"), ("k", "*", "u16")])
    for k in range(0, 12):
        for what in ("quoted", "unquoted", "skip", "key"):
            pre = b""
            i = 0
            target = 32768 - k
            while len(pre) + 12 < target:
                pre += b"k=%d " % (i % 1000)
                i += 1
            pre += b" " * (target - len(pre))
            ks = vseq(vu(j % 1000) for j in range(i))
            if what == "quoted":
                text = pre + b"a=\"0123456789 abcdefghij\" b=2"
                exp = vstruct([("a", vs("0123456789 abcdefghij")), ("b", vu(2)), ("k", ks)])
            elif what == "unquoted":
                text = pre + b"a=0123456789abcdefghij b=2"
                exp = vstruct([("a", vs("0123456789abcdefghij")), ("b", vu(2)), ("k", ks)])
            elif what == "skip":
                text = pre + b"u={ {1 2} \"}\" x={} } a=x b=2"
                exp = vstruct([("a", vs("x")), ("b", vu(2)), ("k", ks)])
            else:
                text = pre + b"a=x b=2"
                exp = vstruct([("a", vs("x")), ("b", vu(2)), ("k", ks)])
            C.add("straddle_" + what, k, text, sh, exp, paths=["slice", "reader:32768:-", "freader:-", "freader:4096*", "reader:32768:1000,7*"], small=False, model=False)


def fam_hints(C):
    """SeqAccess::size_hint / MapAccess::size_hint before every step of a long sequence / map (exact on the tape paths, None on
    the reader paths)"""
    for n in lad(1025):
        text = ("v={" + " ".join(str(i % 200) for i in range(n)) + "}").encode()
        val = vseq(vu(i % 200) for i in range(n))
        C.add("size_hint_seq", n, text, "struct(76:hseq(u8))", "(struct (76 (hint %s %s)))" % (",".join(str(x) for x in range(n, -1, -1)), val),
              paths=TAPE + ["etape"], small=False, model=False)
        C.add("size_hint_seq_reader", n, text, "struct(76:hseq(u8))", "(struct (76 (hint %s %s)))" % (",".join("-" for _ in range(n + 1)), val),
              paths=BIG, small=True, model=False)
        text = ("v={" + " ".join("k%d=%d" % (i, i % 200) for i in range(n)) + "}").encode()
        val = vmap(("k%d" % i, "(ign)") for i in range(n))
        C.add("size_hint_map", n, text, "struct(76:hmap(ign))", "(struct (76 (hint %s %s)))" % (",".join(str(x) for x in range(n, -1, -1)), val),
              paths=TAPE + ["etape"], small=False, model=False)


FAMILIES = [fam_fields, fam_dups, fam_skip, fam_skip_align, fam_seq, fam_map, fam_strings, fam_str_align, fam_ints, fam_floats,
            fam_buffer, fam_default_buffer, fam_buffer_size, fam_depth, fam_gaps, fam_ghosts, fam_headers, fam_options, fam_input_align, fam_straddle, fam_hints]


def build(ctx):
    C = Cases(ctx)
    for f in FAMILIES:
        f(C)
    return C.rows


LONG = 20000          # bytes of text from which a case runs under the short watchdog
LONG_TIMEOUT = 45     # seconds for one harness process over its share of the long cases


def run(ctx):
    import hashlib
    import vlib
    rows = build(ctx)
    cases = ["\t".join(["de.text", p, enc, sh, hx(text)]) for (fam, n, p, enc, sh, text, exp, model) in rows]
    nt = lambda c, i: i.startswith("(")
    short = [k for k, r in enumerate(rows) if len(r[5]) <= LONG]
    long_ = [k for k, r in enumerate(rows) if len(r[5]) > LONG]
    impl = [None] * len(rows)
    out, _ = ctx.correspond("size_ladder", [cases[k] for k in short], nontrivial=nt, model=False)
    base = len(out) - len(short)
    for j, k in enumerate(short):
        impl[k] = out[base + j]
    # the long cases (up to 830 KB of text) under a short watchdog: a change that makes a cursor wrap around loops forever, and
    # the default 600 s per hanging case would turn one such change into hours (same runner, same limits otherwise)
    out = vlib.run_impl([cases[k] for k in long_], ctx.profile, timeout=LONG_TIMEOUT)
    st = ctx.streams.setdefault("size_ladder_long", {"cases": 0, "disagree": 0})
    st["cases"] += len(long_)
    ctx.evaluations += len(long_)
    for j, k in enumerate(long_):
        impl[k] = out[j] if j < len(out) else "MISSING"
        if nt(cases[k], impl[k]):
            ctx.nontrivial.add(hashlib.md5((cases[k] + "\x00" + impl[k]).encode()).digest()[:8])
    for k, (fam, n, p, enc, sh, text, exp, model) in enumerate(rows):
        o = impl[k]
        ctx.count("size_cases")
        if o != exp:
            ctx.fail("size-" + fam, "size ladder `%s` at %d (%d bytes of text) on path %s: the implementation returns %s, the document's values are %s"
                     % (fam, n, len(text), p, o[:160], exp[:160]), [cases[k]], [o[:4000]], exp[:4000])
    # the small cases once more against the extracted deserializer walks (TextDeTape / TextDeStream)
    small = [cases[k] for k, r in enumerate(rows) if r[7] and r[2] != "etape"]
    ctx.count("size_model_cases", len(small))
    ctx.count("size_impl_only_cases", len(cases) - len(small))
    from props import C02 as main
    main.walk_model(ctx, small, stream="size_walk")
