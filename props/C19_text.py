"""Text half of C19: truncated documents never yield fabricated data."""
from vlib import hexs, unhex
from props import textdoc as td
from props.C07 import split_out


def top_fields(toks):
    """split a canonical tape into top-level items (each item = list of tokens)"""
    items, i, n = [], 0, len(toks)
    while i < n:
        t = toks[i]
        if t[0] in "AO" and t[1] == ":":
            e = int(t.split(":")[1])
            if e <= i or e >= n:
                return None          # the container's end index does not point forward into the tape: structurally unsound
            items.append(toks[i:e + 1]); i = e + 1
        else:
            items.append([t]); i += 1
    return items


def strip_idx(item):
    """drop absolute indices so that items can be compared across tapes"""
    out = []
    for t in item:
        if t[0] in "AO" and t[1] == ":":
            out.append(t[0] + ":" + t.split(":")[2])
        elif t.startswith("E:"):
            out.append("E")
        else:
            out.append(t)
    return out


def scalars(toks):
    return [t for t in toks if t[0] in "UQHPN" and t[1] == ":"]


def run_text(ctx):
    rng = ctx.rng
    cases, meta = [], []
    for _ in range(ctx.scale(60, 700)):
        doc = td.gen_doc(rng, depth=rng.choice([1, 2, 3]), n=rng.randrange(1, 5))
        data = td.render(doc, rng, rng.choice(td.STYLES), bom=rng.random() < 0.1)
        if len(data) > 400:
            continue
        full = td.flatten(doc)
        for k in range(len(data) + 1):
            cases.append("tt.parse\t%s" % hexs(data[:k])); meta.append((data, k, full))
    impl, _ = ctx.correspond("text_truncations", cases, nontrivial=lambda c, i: i.startswith("ok") and len(i) > 6)
    base = len(impl) - len(cases)
    for j, (data, k, full) in enumerate(meta):
        o = impl[base + j]
        if o in ("PANIC", "ABORT", "HANG"):
            ctx.fail("text-trunc-crash", "parse of %r cut at %d: %s" % (data, k, o), [cases[j]], [o]); continue
        if not o.startswith("ok "):
            continue
        ft = full.split(" ") if full != "-" else []
        parts = o.split(" ", 2)
        gt = parts[2].split(" ") if len(parts) > 2 and parts[2] != "-" else []
        tf, tg = top_fields(ft), top_fields(gt)
        if tg is None or tf is None:
            ctx.fail("text-trunc-unsound", "%r cut at %d is accepted with a tape whose container end indices do not point forward: %s" % (data, k, o[:200]), [cases[j]], [o], "an error or a sound tape"); continue
        fi, gi = [strip_idx(x) for x in tf], [strip_idx(x) for x in tg]
        # every completed top-level item equals the original's; only the last two items (the field being cut:
        # its key and its value) may differ or be absent
        m = max(0, len(gi) - 2)
        if gi[:m] != fi[:m]:
            ctx.fail("text-trunc-fabricated", "%r cut at %d parses to %s whose completed fields differ from the original %s" % (data, k, o[:200], full[:200]), [cases[j]], [o], full); continue
        # a scalar is never extended, merged or invented: every scalar of the result is a prefix of the scalar at that place
        gs, fs = scalars(gt), scalars(ft)
        bad = None
        for idx, s in enumerate(gs):
            if idx >= len(fs):
                bad = "extra scalar %s" % s; break
            a, b = s.split(":", 1), fs[idx].split(":", 1)
            ha, hb = ("" if a[1] == "-" else a[1]), ("" if b[1] == "-" else b[1])
            if not hb.startswith(ha) or (a[0] != b[0] and not (a[0] == "U" and b[0] == "H")):
                bad = "scalar %s is not a prefix of %s" % (s, fs[idx]); break
            if ha != hb and idx != len(gs) - 1:
                bad = "scalar %s (not the last one) differs from %s" % (s, fs[idx]); break
        if bad:
            ctx.fail("text-trunc-scalar", "%r cut at %d: %s" % (data, k, bad), [cases[j]], [o], full)
    ctx.count("text_truncation_cases", len(cases))
