"""C16, wave 6 (engineer s_dom): the size / boundary ladders of props/C17_ladder.py through the JSON conversion.

Every ladder document (one size-like dimension at a time: fields, duplicates, groups, key / header / parameter length,
array and remainder length, triples x window phase, consecutive operators, nesting depth per container kind, scalar
length, characters needing a JSON escape x kind x position, digits of numbers) is converted at the root and at its
container nodes, under the three duplicate-key modes x three narrowings (pretty where the output stays below the
harness' 256 KiB bound), and judged by the SAME oracles as the main streams:
  * props/C16.check_out  (content-keys / content-value / content-group / content-kvp / content-array / narrowing ..)
  * props/C16_text.run_text (valid RFC 8259 + Python json + UTF-8, pretty = whitespace only, doc-order from the tape
    string alone, header-single, to_writer = to_vec = to_string)
  * ladder-count: the number of entries / elements the document has BY CONSTRUCTION.
Parts (streams): ladder_ser / ladder_print / ladder_atoms with the extracted model (tapes up to 700 tokens, inputs up
to 5 000 bytes, nesting up to 24); ladder_ser_big / ladder_print_big: implementation + oracles only (the model is
roughly quadratic beyond that); ladder_print_deep (nesting 25..135, with the model) and ladder_print_deeper (up to
1025, oracles only): the text streams alone, because the harness re-reads json.ser with serde_json's own parser, which
refuses JSON nesting above 128 (KeyValuePairs spends up to 4 JSON levels per level of the document).  Deterministic: no random choice."""
import sys
from vlib import hexs

PRETTY3 = [("1", "p", "a"), ("1", "k", "n"), ("1", "g", "u")]
ALL9 = [("0", du, na) for du in "pgk" for na in "aun"]
SIX = [("0", "p", "a"), ("0", "p", "n"), ("0", "g", "a"), ("0", "g", "u"), ("0", "k", "n"), ("0", "k", "u")]
THREE = [("0", "p", "a"), ("0", "g", "n"), ("0", "k", "u")]
# KeyValuePairs spends up to 4 JSON levels on one level of the document ({type,val:[[key,{OPERATOR:..}]]}); serde_json's parser
# (used by the harness to re-read json.ser) stops at 128: documents nested deeper than this go through the text streams only
JSON_DEPTH = 24
PRETTY_MODEL_DEPTH = 70       # the printer model's pretty layout is cubic in the depth (3 s at 129): deeper pretty texts are judged by the oracles only
J_MODEL_TOKENS, J_MODEL_BYTES = 700, 5000     # the extracted JSON model + printer on one case: ~20 ms at these sizes, 0.2 s at 2000 tokens


def depth_of(toks):
    d = m = 0
    for t in toks:
        if t[:2] in ("A:", "O:"):
            d += 1
            m = max(m, d)
        elif t[:2] == "E:":
            d -= 1
    return m


def pretty_ok(x, toks, depth):
    """the pretty text stays below the harness' OUT_CAP (256 KiB): indentation is quadratic in the depth"""
    if len(toks) > 9000 or len(x.doc) > 70000:
        return False
    return depth <= 130 or (depth <= 257 and len(toks) <= 3 * depth + 5)


def keys_for(x, toks, depth, big, deep, di, with_model):
    from props import C17_ladder
    nodes = C17_ladder.pick_nodes(toks)
    fc = C17_ladder.first_container(toks)
    pr = pretty_ok(x, toks, depth)
    out = []
    for enc in x.enc:
        if x.light:
            out += [("top", "o", enc) + c for c in THREE]
            continue
        if deep:
            out += [("top", "o", enc) + c for c in THREE + [("0", "p", "n")]]
            if pr and (not with_model or depth <= PRETTY_MODEL_DEPTH):
                out += [("top", "o", enc, "1", "p", "a")]
            for idx in nodes[1:3] + nodes[-1:]:
                out += [(idx, "v", enc, "0", "k", "n")]
            continue
        if big:
            out += [("top", "o", enc) + c for c in THREE + [("0", "p", "n")]]
            if pr:
                out += [("top", "o", enc, "1", "p", "a")]
            for idx in nodes[1:3]:
                out += [(idx, "v", enc) + c for c in THREE]
            if fc is not None:
                out += [(str(fc), "a", enc, "0", "k", "u"), (str(fc), "o", enc, "0", "g", "a")]
            continue
        out += [("top", "o", enc) + c for c in SIX + ([PRETTY3[di % 3]] if pr else [])]
        if fc is not None:
            idx = str(fc)
            out += [(idx, "v", enc) + c for c in THREE]
            out += [(idx, "a", enc, "0", "k", "n"), (idx, "o", enc, "0", "g", "a")]
        for idx in nodes[1:]:
            if fc is None or idx != str(fc):
                out += [(idx, "v", enc, "0", "p", "a")]
    return out


def print_subset(out):
    """the keys whose exact text is compared with the printer model and judged by the text-level oracles"""
    keep = {}
    for m, v in out.items():
        di, idx, entry, enc, p, du, na = m
        if p == "1" or (idx == "top" and (du, na) in (("p", "n"), ("p", "a"), ("k", "u"), ("g", "a"))) or (entry == "v" and (du, na) == ("p", "a")):
            keep[m] = v
    return keep


def check_expect(ctx, x, toks, trees_of, case_of):
    """entries of the Preserve tree / elements of the array, by construction of the document"""
    from props import C16, C17_ladder
    fc = C17_ladder.first_container(toks)
    for (node, field, val) in x.exp:
        idx = "top" if node == "top" else (str(fc) if fc is not None else None)
        if idx is None or field not in ("fl", "g", "n"):
            continue
        if field == "n":
            key = (idx, "a", "w", "0", "k", "n")
        elif field == "g":
            key = (idx, "o", "w", "0", "g", "a") if (idx, "o", "w", "0", "g", "a") in trees_of else (idx, "o", "w", "0", "g", "n")
        else:
            key = (idx, "o", "w", "0", "p", "a") if (idx, "o", "w", "0", "p", "a") in trees_of else (idx, "o", "w", "0", "p", "n")
        o = trees_of.get(key)
        if o is None or o in ("E", "UNREACH", "PANIC", "ABORT", "HANG", "OUTPUT-LIMIT") or o.startswith(("INVALID", "FLOAT-LEX", "ENTRY")):
            continue
        try:
            tr = C16.parse_tree(o)
        except Exception:
            continue
        if field == "n":
            # KeyValuePairs: {type: array, val: [...]}; elements = values minus markers, triples folded: only for plain arrays
            if any(t == "M" for t in toks):
                continue
            got = len(tr[1][1][1][1]) if tr[0] == "obj" and len(tr[1]) == 2 and tr[1][1][1][0] == "arr" else None
        else:
            got = len([k for k, _ in tr[1] if k != C16.hx("remainder")]) if tr is not True and tr is not False and tr[0] == "obj" else None
        if got != val:
            ctx.fail("ladder-count", "ladder %s=%s, node %s: the JSON holds %s %s, the document has %d by construction"
                     % (x.tag, x.val, idx, got, {"n": "elements", "g": "distinct keys", "fl": "entries"}[field], val), [case_of[key]], [o[:300]], str(val))


def run_part(ctx, part, name, model, ser):
    """part: [(Doc, tape, toks, depth)]"""
    from props import C16, C16_text
    if not part:
        return
    parsed3 = [(x.doc, tape, toks) for (x, tape, toks, depth) in part]
    big = name in ("_big",)
    deep = not ser
    keys = []
    for di, (x, tape, toks, depth) in enumerate(part):
        for (idx, entry, enc, p, du, na) in keys_for(x, toks, depth, big, deep, di, model):
            keys.append((di, idx, entry, enc, p, du, na))
    ctx.count("ladder json cases" + name, len(keys))
    if not ser:
        # nesting above what serde_json's parser follows: the exact text and the text-level oracles only
        C16_text.run_text(ctx, parsed3, dict((k, None) for k in keys), stream="ladder_print" + name, select_all=True, model=model, add_headers=False)
        return
    # the DOM views the content oracles compare with (the ladder of C17 judges them; here they are inputs)
    vkeys = sorted(set((di, idx, enc) for (di, idx, entry, enc, p, du, na) in keys), key=lambda k: (k[0], k[1] != "top", len(k[1]), k[1], k[2]))
    vcases = ["dom.node\t%s\t%s\t%s\t%s" % (hexs(parsed3[di][0]), parsed3[di][1], enc, idx) for (di, idx, enc) in vkeys]
    vimpl, _ = ctx.correspond("ladder_node" + name, vcases, model=False, nontrivial=lambda c, i: "/" in i)
    vb = len(vimpl) - len(vcases)
    views = dict((k, vimpl[vb + n]) for n, k in enumerate(vkeys))
    cases = ["json.ser\t%s\t%s\t%s\t%s\t%s\t%s\t%s\t%s" % (hexs(parsed3[di][0]), parsed3[di][1], enc, idx, entry, p, du, na)
             for (di, idx, entry, enc, p, du, na) in keys]
    impl, _ = ctx.correspond("ladder_ser" + name, cases, model=model, nontrivial=lambda c, i: ":" in i or "," in i)
    base = len(impl) - len(cases)
    out = {}
    for k, m in enumerate(keys):
        out[m] = (impl[base + k], cases[k])
    C16.check_out(ctx, parsed3, views, out)
    for di, (x, tape, toks, depth) in enumerate(part):
        mine = dict((m[1:], o) for m, (o, c) in out.items() if m[0] == di)
        case_of = dict((m[1:], c) for m, (o, c) in out.items() if m[0] == di)
        check_expect(ctx, x, toks, mine, case_of)
    C16_text.run_text(ctx, parsed3, print_subset(out), stream="ladder_print" + name, select_all=True, model=model, add_headers=False)
    if model:
        acases = []
        for (d, tape, toks) in parsed3:
            for (du, na) in (("p", "n"), ("k", "a")):
                acases.append("json.atoms\t%s\t%s\tw\t%s\t%s" % (hexs(d), tape, du, na))
        aimpl, _ = ctx.correspond("ladder_atoms", acases, nontrivial=lambda c, i: "," in i)
        ab = len(aimpl) - len(acases)
        for k, c in enumerate(acases):
            o = aimpl[ab + k]
            if o in ("PANIC", "ABORT", "HANG", "OUTPUT-LIMIT") or o.startswith(("INVALID", "FLOAT-LEX", "ENTRY-MISMATCH")):
                ctx.fail("json-invalid" if o.startswith(("INVALID", "FLOAT", "ENTRY")) else "json-crash", "ladder: the root's JSON: %s" % o, [c], [o], "a JSON text")


def run_ladder(ctx):
    from props import C17_ladder
    sys.setrecursionlimit(max(sys.getrecursionlimit(), 20000))
    docs = [x for x in C17_ladder.ladder_docs() if x.json]
    parsed = C17_ladder.parse_ladder(ctx, docs, stream="ladder_parse")
    small, big, deep, deeper = [], [], [], []
    for (x, tape, toks) in parsed:
        depth = depth_of(toks)
        item = (x, tape, toks, depth)
        fits = len(toks) <= J_MODEL_TOKENS and len(x.doc) <= J_MODEL_BYTES
        if depth > JSON_DEPTH:
            if depth <= 135 and fits:
                deep.append(item)
            if depth > PRETTY_MODEL_DEPTH or not fits:
                deeper.append(item)
        else:
            (small if fits else big).append(item)
    ctx.count("ladder documents: model", len(small))
    ctx.count("ladder documents: big (oracles only)", len(big))
    ctx.count("ladder documents: deep (text streams, model)", len(deep))
    ctx.count("ladder documents: deeper (text streams, oracles only)", len(deeper))
    run_part(ctx, small, "", True, True)
    run_part(ctx, big, "_big", False, True)
    run_part(ctx, deep, "_deep", True, False)
    run_part(ctx, deeper, "_deeper", False, False)
