"""C06, wave 6 (s_c06): SIZE ladders.  One size-like dimension at a time on an otherwise minimal input, every case with
an expected tape BY CONSTRUCTION (the builders below write the input bytes and the tape they denote side by side, the
offset of every scalar included), so the oracle is independent of the parsers and of the models:

    expected tape == real tape   (text: TextTapeParser::parse_slice, cross-checked against from_slice by the harness,
                                  with the POINTER offset of every scalar; binary: optimised AND reference parser +
                                  from_slice + the harness's wf flags, string pointer offsets through bt.ptr;
                                  parse_slice_into_tape on used tapes of every relative length for both formats)

A case whose output line is not the expected line goes through the detailed oracles (structural checker, pointer /
payload oracles of props/C06_ptr.py, first differing token).  The constructions themselves are run through the same
checkers (sound tape, offsets point at the bytes) so that a mistake in a builder cannot hide a defect.

ladder = 0 1 2 3 7 8 9 15 16 17 31 32 33 63 64 65 127 128 129 255 256 257 1023 1024 1025 4095 4096 4097 65533 .. 65536
(cut per dimension, see audit/C06.md "Size dimensions"); positions of the MixedContainer marker and counts of unclosed
containers are DENSE (every value 1..300) because they couple with the tape's capacity.  The extracted models run on
the rungs whose tape stays small (they are quadratic in the tape length); longer cases are decided by the oracles
alone (model=False).
"""
import re
from vlib import hexs
from props import tapewf
from props import C03 as B
from props import C06_ptr as P6

LADDER = [0, 1, 2, 3, 7, 8, 9, 15, 16, 17, 31, 32, 33, 63, 64, 65, 127, 128, 129, 255, 256, 257, 1023, 1024, 1025,
          4095, 4096, 4097, 65533, 65534, 65535, 65536]
LSET = set(LADDER)
TEXT_MODEL_TOKENS, TEXT_MODEL_BYTES = 800, 6000
BIN_MODEL_TOKENS, BIN_MODEL_BYTES = 300, 3000
PTR = re.compile(r"([UQHPN])@\d+:")


def lad(hi, lo=0, plus=()):
    return [v for v in LADDER if lo <= v <= hi] + list(plus)


def dense(hi, lo=1):
    """every value lo..300 and the ladder beyond"""
    return sorted(set(range(lo, 301)) | set(lad(hi, lo)))


def plain(s):
    return PTR.sub(r"\1:", s)


# ------------------------------------------------------------------------------------------ builders
def shift_col(tok, n, t0, L, b0, nb):
    """the n shifted copies of one token of a repeated unit (unit = L tokens, nb bytes)"""
    if tok is None:
        return [None] * n
    if len(tok) > 1 and tok[1] == "@":
        head, hx = tok.split(":", 1)
        tag, off = tok[0], int(head[2:])
        return ["%s@%d:%s" % (tag, b0 + k * nb + off, hx) for k in range(n)]
    if tok[:2] in ("A:", "O:"):
        parts = tok.split(":")
        e, rest = int(parts[1]), "".join(":" + x for x in parts[2:])
        return ["%s:%d%s" % (tok[0], t0 + k * L + e, rest) for k in range(n)]
    if tok[:2] == "E:":
        i = int(tok[2:])
        return ["E:%d" % (t0 + k * L + i) for k in range(n)]
    return [tok] * n


class Builder:
    """input bytes and the tape they denote, written side by side (scalars carry their offset: `U@12:6b`)"""
    CONT = "%s:%d"

    def __init__(self, lead=b""):
        self.b = bytearray(lead)
        self.t = []
        self.st = []

    def raw(self, s):
        self.b += s
        return self

    def m(self):
        self.t.append("M")
        return self

    def _open(self, kind, sym):
        self.b += sym
        self.st.append((len(self.t), kind))
        self.t.append(None)
        return self

    def _close(self, sym, fmt_args=()):
        i, kind = self.st.pop()
        self.t[i] = self.CONT % ((kind, len(self.t)) + tuple(fmt_args))
        self.t.append("E:%d" % i)
        self.b += sym
        return self

    def rep(self, n, unit):
        """n copies of a closed unit (unit(builder) writes one copy): built once, shifted n times"""
        if n <= 0:
            return self
        u = self.__class__()
        unit(u)
        assert not u.st
        ub, L, nb = bytes(u.b), len(u.t), len(u.b)
        cols = [shift_col(tok, n, len(self.t), L, len(self.b), nb) for tok in u.t]
        if L == 1:
            self.t += cols[0]
        elif L > 1:
            self.t += [x for tup in zip(*cols) for x in tup]
        self.b += ub * n
        return self

    def nest_open(self, n, unit):
        """n nested levels; unit(builder) writes the opening of one level and leaves that level's containers open"""
        u = self.__class__()
        unit(u)
        L, nb = len(u.t), len(u.b)
        h = (n, len(self.t), L, list(u.st))
        if n > 0:
            cols = [shift_col(tok, n, len(self.t), L, len(self.b), nb) for tok in u.t]
            self.t += cols[0] if L == 1 else [x for tup in zip(*cols) for x in tup]
            self.b += bytes(u.b) * n
        return h

    def nest_close(self, h, syms, tail=""):
        """closes the levels of nest_open; syms = the closing bytes of one level's containers, innermost first"""
        n, t0, L, conts = h
        C = len(conts)
        assert len(syms) == C
        e0 = len(self.t)
        for c, (ci, kind) in enumerate(conts):
            if n > 0:
                self.t[t0 + ci:t0 + n * L:L] = ["%s:%d%s" % (kind, e0 + (n - 1 - i) * C + (C - 1 - c), tail) for i in range(n)]
        self.t += ["E:%d" % (t0 + (n - 1 - r // C) * L + conts[C - 1 - r % C][0]) for r in range(n * C)]
        self.b += b"".join(syms) * n
        return self

    def tokens(self):
        assert not self.st and None not in self.t[:50]
        return self.t


class TX(Builder):
    CONT = "%s:%d:%d"

    def _s(self, tag, s, pre=b"", post=b" "):
        self.b += pre
        self.t.append("%s@%d:%s" % (tag, len(self.b), hexs(s)))
        self.b += s
        self.b += post
        return self

    def u(self, s, post=b" "):
        return self._s("U", s, b"", post)

    def q(self, s, post=b" "):
        return self._s("Q", s, b'"', b'"' + post)

    def h(self, s):
        return self._s("H", s, b"", b" ")

    def p(self, s, undefined=False):
        return self._s("N" if undefined else "P", s, b"[[!" if undefined else b"[[", b"] ")

    def eq(self):
        self.b += b"= "
        return self

    def op(self, sym, code):
        self.b += sym + b" "
        self.t.append("OP:%d" % code)
        return self

    def open(self, kind, sym=b"{ "):
        return self._open(kind, sym)

    def open_silent(self, kind):
        """a container start that has no byte of its own (the object of a parameter definition)"""
        return self._open(kind, b"")

    def close(self, mixed=0, sym=b"} "):
        return self._close(sym, (mixed,))

    def kv(self, k=b"a", v=b"b"):
        return self.u(k, b"").raw(b"=").u(v)

    def nest_close(self, h, syms, mixed=0):
        return Builder.nest_close(self, h, syms, ":%d" % mixed)

    def line(self):
        return "ok 0 " + (" ".join(self.tokens()) or "-")


class BX(Builder):
    def _t(self, raw, tok):
        self.b += raw
        self.t.append(tok)
        return self

    def id(self, v=B.TOKEN_ID):
        return self._t(B.u16(v), "T:%d" % v)

    def i32(self, v=7):
        return self._t(B.u16(0x0c) + B.u32(v), "I32:%d" % v)

    def u32(self, v=7):
        return self._t(B.u16(0x14) + B.u32(v), "U32:%d" % v)

    def u64(self, v=(1 << 64) - 2):
        return self._t(B.u16(0x29c) + B.u64(v), "U64:%d" % v)

    def i64(self, v=-(1 << 63)):
        return self._t(B.u16(0x317) + B.u64(v), "I64:%d" % v)

    def f32(self, raw=b"\x00\x00\x80\x3f"):
        return self._t(B.u16(0x0d) + raw, "F32:" + raw.hex())

    def f64(self, raw=b"\x01\x02\x03\x04\x05\x06\x07\x08"):
        return self._t(B.u16(0x167) + raw, "F64:" + raw.hex())

    def bool(self, v=1):
        return self._t(B.u16(0x0e) + bytes([v]), "B:%d" % (1 if v else 0))

    def s(self, kind, s):
        self.b += B.u16(0x0f if kind == "Q" else 0x17) + B.u16(len(s))
        self.t.append("%s@%d:%s" % (kind, len(self.b), hexs(s)))
        self.b += s
        return self

    def q(self, s=b"qq"):
        return self.s("Q", s)

    def uq(self, s=b"uu"):
        return self.s("U", s)

    def rgb(self, r=1, g=2, b=3, a=None):
        self.b += B.u16(0x243) + B.OPEN + B.u16(0x14) + B.u32(r) + B.u16(0x14) + B.u32(g) + B.u16(0x14) + B.u32(b)
        if a is not None:
            self.b += B.u16(0x14) + B.u32(a)
        self.b += B.CLOSE
        self.t.append("RGB:%d,%d,%d,%s" % (r, g, b, "-" if a is None else a))
        return self

    def eq(self):
        self.b += B.EQUAL
        return self

    def eqtok(self):
        return self._t(B.EQUAL, "EQ")

    def ghost(self, n=1):
        self.b += (B.OPEN + B.CLOSE) * n
        return self

    def open(self, kind):
        return self._open(kind, B.OPEN)

    def close(self):
        return self._close(B.CLOSE)

    def elem(self, kind):
        return getattr(self, kind)()

    def line(self):
        return "OK" + "".join(" " + t for t in self.tokens())


# ------------------------------------------------------------------------------------------ text ladders
def text_ladders():
    """[(dimension, value, input, expected `tt.ptr` line | "ERR", model?, tape length)]"""
    out = []

    def add(dim, n, tx=None, data=None, model=None):
        model = (n in LSET) if model is None else model      # values between the rungs: oracles only
        if tx is None:
            out.append((dim, n, bytes(data), "ERR", model, 0))
        else:
            out.append((dim, n, bytes(tx.b), tx.line(), model, len(tx.t)))

    # ---- nesting depth, one container kind at a time, then a mixture
    for n in lad(4097, plus=[65536]):
        tx = TX()
        h = tx.nest_open(n, lambda u: u.u(b"k", b"").raw(b"=").open("O"))
        add("text depth objects", n, tx.kv().nest_close(h, [b"} "]))
    for n in lad(4097, 1):
        tx = TX().u(b"k", b"").raw(b"=")
        h = tx.nest_open(n, lambda u: u.open("A"))
        add("text depth arrays", n, tx.u(b"v").nest_close(h, [b"} "]))
    for n in lad(1025, 1):
        tx = TX()
        h = tx.nest_open(n, lambda u: u.u(b"k", b"").raw(b"=").h(b"rgb").open("O"))
        add("text depth header objects", n, tx.kv().nest_close(h, [b"} "]))
        # parameter objects `[[p] k = { ... } ]`: two containers per level, closed by `}` and `]`
        tx = TX()
        h = tx.nest_open(n, lambda u: u.p(b"p").open_silent("O").u(b"k").eq().open("O"))
        tx.p(b"p", True).open_silent("O").u(b"k").eq().u(b"v").close(sym=b"] ")
        add("text depth parameter objects", n, tx.nest_close(h, [b"} ", b"] "]))
        # mixture: object > header object > array > parameter object > object ...
        KINDS = [(lambda u: u.open("O").u(b"k").eq(), [b"} "]),
                 (lambda u: u.h(b"hsv").open("O").u(b"k").eq(), [b"} "]),
                 (lambda u: u.open("A"), [b"} "]),
                 (lambda u: u.open("O").p(b"q").open_silent("O").u(b"k").eq(), [b"] ", b"} "])]
        tx = TX().u(b"k", b"").raw(b"=")

        def cycle(u):
            for f, _ in KINDS:
                f(u)
        h = tx.nest_open(n // 4, cycle)
        closers = []
        for i in range(n % 4):
            KINDS[i][0](tx)
            closers.append(KINDS[i][1])
        tx.u(b"leaf")
        for cl in reversed(closers):
            for sym in cl:
                tx.close(sym=sym)
        tx.nest_close(h, [b"] ", b"} ", b"} ", b"} ", b"} "])
        add("text depth mixture O/H/A/P", n, tx)
    # nested MIXED containers (the `mixed` flag is parked in the parent token while a child is open and restored at its close):
    # every level is an object that continues with bare values, or an array that continues with key = value
    for n in lad(1025, 1):
        tx = TX().u(b"k", b"").raw(b"=")
        h = tx.nest_open(n - 1, lambda u: u.open("O").kv().m().u(b"x").u(b"y"))
        tx.open("O").kv().m().u(b"x").q(b"last").close(mixed=1)
        add("text depth mixed objects", n, tx.nest_close(h, [b"} "], mixed=1))
        tx = TX().u(b"k", b"").raw(b"=")
        h = tx.nest_open(n - 1, lambda u: u.open("A").u(b"x").m().u(b"y").op(b"=", 6).u(b"z"))
        tx.open("A").u(b"x").m().u(b"y").op(b">=", 3).u(b"z").close(mixed=1)
        add("text depth mixed arrays", n, tx.nest_close(h, [b"} "], mixed=1))
        tx = TX().u(b"k", b"").raw(b"=")
        h = tx.nest_open((n - 1) // 2, lambda u: u.open("O").kv().m().u(b"x").u(b"y").open("A").u(b"x").m().u(b"y").op(b"=", 6).u(b"z"))
        tx.open("A").u(b"e").q(b"f").close()
        add("text depth mixed objects and arrays alternating", n, tx.nest_close(h, [b"} ", b"} "], mixed=1))
    # ---- siblings
    for n in lad(4097, plus=[65536]):
        tx = TX().u(b"k", b"").raw(b"=").open("O" if n else "A").rep(n, lambda u: u.kv())
        add("text siblings fields of one object", n, tx.close())
        tx = TX().u(b"k", b"").raw(b"=").open("A").rep(n // 2, lambda u: u.u(b"x").q(b"y")).rep(n % 2, lambda u: u.u(b"z"))
        add("text siblings elements of one array", n, tx.close())
    for n in lad(4097):
        add("text siblings top-level fields", n, TX().rep(n, lambda u: u.kv()))
    for n in lad(1025):
        tx = TX().u(b"k", b"").raw(b"=").open("A").u(b"x").rep(n, lambda u: u.open("A").q(b"e").close())
        add("text siblings containers in one array", n, tx.close())
        tx = TX().u(b"k", b"").raw(b"=").open("O" if n else "A").rep(n, lambda u: u.u(b"f", b"").raw(b"=").open("O").kv().close())
        add("text siblings container fields", n, tx.close())
        add("text siblings parameter values", n, TX().rep(n, lambda u: u.p(b"p").u(b"v").raw(b"] ").p(b"n", True).u(b"w").raw(b"]\n")))
    # ---- position of the MixedContainer marker: after n fields (object -> bare values) / n elements (array -> key = value)
    for n in dense(1025):
        tx = TX().u(b"k", b"").raw(b"=").open("O").rep(n, lambda u: u.kv()).m().u(b"t")
        add("text mixed marker after n fields (1 bare value)", n, tx.close(mixed=1))
        tx = TX().u(b"k", b"").raw(b"=").open("A").rep(n, lambda u: u.u(b"x")).m().u(b"y").op(b"=", 6).u(b"z")
        add("text mixed marker after n elements", n, tx.close(mixed=1))
        if n in LSET or n % 16 == 5:
            tx = TX().u(b"k", b"").raw(b"=").open("O").rep(n, lambda u: u.kv()).m().u(b"t").q(b"t2").u(b"t3")
            add("text mixed marker after n fields (3 bare values)", n, tx.close(mixed=1))
    # consecutive operators inside a mixed container
    for n in lad(1025, 1):
        tx = TX().u(b"k", b"").raw(b"=").open("A").u(b"x").m().u(b"y")
        for i in range(n):
            tx.op([b"=", b"<", b">", b"<=", b">=", b"!=", b"=="][i % 7], [6, 0, 2, 1, 3, 4, 5][i % 7])
        add("text consecutive operators in a mixed container", n, tx.u(b"z").close(mixed=1))
    # ---- containers still open at the end of the input: 0 fine, 1 auto-closed (key position), >= 2 rejected
    for n in dense(1025, 0):
        if n >= 2:
            add("text unclosed objects at end of input", n, data=b"k={ " * n + b"a=b")
        else:
            tx = TX()
            h = tx.nest_open(n, lambda u: u.u(b"k", b"").raw(b"=").open("O"))
            add("text unclosed objects at end of input", n, tx.kv().nest_close(h, [b""]))
        if n >= 1:
            add("text unclosed arrays at end of input", n, data=b"k={ " + b"{ " * (n - 1) + b"x ")
        if n >= 1 and n in LSET:
            # n closed levels inside ONE unclosed object: accepted
            tx = TX().u(b"k", b"").raw(b"=").open("O")
            h = tx.nest_open(n, lambda u: u.u(b"i", b"").raw(b"=").open("O"))
            add("text one unclosed object around n closed levels", n, tx.kv().nest_close(h, [b"} "]).close(sym=b""))
    # ---- stray closers at the top level (tolerated, leave no token)
    for n in LADDER:
        for sym in (b"}", b"]", b"} "):
            if sym != b"}" and n > 4097:
                continue
            add("text stray closers %r" % sym.decode(), n, TX().kv().raw(sym * n).kv(b"c", b"d"))
        add("text leading stray closers", n, TX().raw(b"}" * n).kv())
    # ---- ghost `{}`: dropped at key position and at the start of a container, kept as empty arrays among elements
    for n in lad(4097, plus=[65536]):
        add("text ghosts at top-level key position", n, TX().kv().raw(b"{} " * n).kv(b"c", b"d"))
        tx = TX().u(b"k", b"").raw(b"=").open("O").raw(b"{} " * n).kv()
        add("text ghosts at the start of an object", n, tx.close())
    for n in lad(1025):
        add("text ghosts first in the input", n, TX().raw(b"{ } " * n).kv())
        tx = TX().u(b"k", b"").raw(b"=").open("A").raw(b"{}" * n).raw(b" ").u(b"x")
        add("text ghosts at the start of an array", n, tx.close())
        tx = TX().u(b"k", b"").raw(b"=").open("O").kv().raw(b"{}\n" * n).kv(b"c", b"d")
        add("text ghosts at key position inside an object", n, tx.close())
        tx = TX().u(b"k", b"").raw(b"=").open("A").u(b"x").rep(n, lambda u: u.open("A").close())
        add("text empty arrays among elements", n, tx.close())
    # ---- scalar lengths (16-byte SSE2 loops of split_at_scalar / parse_quote_scalar, bytewise fallbacks)
    for n in LADDER:
        if n >= 1:
            add("text unquoted value length, newline after", n, TX().u(b"a", b"").raw(b"=").u(b"x" * n, b"\n"))
            add("text unquoted value length, at end of input", n, TX().u(b"a", b"").raw(b"=").u(b"x" * n, b""))
            add("text unquoted key length", n, TX().u(b"y" * n, b"").raw(b"=").u(b"b"))
            add("text header name length", n, TX().u(b"a", b"").raw(b"=").h(b"h" * n).open("A").u(b"1").close())
            add("text parameter name length", n, TX().p(b"p" * n).u(b"v").raw(b"]"))
            add("text parameter value length", n, TX().p(b"p").u(b"v" * n, b"").raw(b"]"))
            add("text array element length", n, TX().u(b"a", b"").raw(b"=").open("A").u(b"e" * n, b"").close(sym=b"}"))
        add("text quoted value length", n, TX().u(b"a", b"").raw(b"=").q(b"x" * n, b""))
        add("text quoted key length", n, TX().q(b"y" * n, b"").raw(b"=").u(b"b"))
        add("text interpolated variable length", n, TX().u(b"a", b"").raw(b"=").u(b"@[" + b"1" * n + b"]", b""))
        add("text quoted value of n escapes", n, TX().u(b"a", b"").raw(b"=").q(b'\\"' * n, b" "))
    # length x alignment: start of the scalar relative to the input, end of the scalar relative to the end of the input
    for n in lad(129):
        for lead in (0, 1, 7, 15, 16):
            for tail in (0, 1, 2, 14, 15, 16, 17):
                if n >= 1:
                    add("text unquoted length x lead %d x tail %d" % (lead, tail), n,
                        TX(b" " * lead).u(b"a", b"").raw(b"=").u(b"x" * n, b" " * tail))
                add("text quoted length x lead %d x tail %d" % (lead, tail), n,
                    TX(b"\n" * lead).u(b"a", b"").raw(b"=").q(b"x" * n, b"\t" * tail))
    # position of the first backslash / of the closing quote inside the 16-byte blocks
    for i in lad(65):
        for j in (0, 1, 14, 15, 16, 17, 33):
            add("text quoted: n bytes, an escaped quote, %d bytes" % j, i, TX().u(b"a", b"").raw(b"=").q(b"x" * i + b'\\"' + b"z" * j, b" "))
            add("text quoted: n bytes, an escaped backslash, %d bytes" % j, i, TX().q(b"x" * i + b"\\\\" + b"z" * j, b"").raw(b"=").u(b"b"))
    # ---- whitespace runs and comment lengths (bytewise loop of skip_ws_t)
    for n in LADDER:
        for ws in (b" ", b"\t", b"\r\n", b";"):
            if len(ws) * n > 65536:
                continue
            # (`;` is skipped between tokens but is not a scalar boundary: one blank ends the scalar first)
            add("text whitespace run %r" % ws.decode(), n, TX(ws * n).u(b"a", b" " + ws * n).raw(b"=").raw(ws * n).u(b"b", b" " + ws * n))
        add("text comment length", n, TX().kv().raw(b"#" + b"c" * n + b"\n").kv(b"c", b"d"))
        add("text comment length, at end of input", n, TX().kv().raw(b"#" + b"{" * n))
    # ---- tape indices around 65536 (start / end indices that no longer fit 16 bits): containers starting at
    #      65533, 65537, .. and three nested containers ending at 65535, 65536, 65537
    tx = TX().rep(32766, lambda u: u.kv()).u(b"k", b"").raw(b"=").open("A").rep(6, lambda u: u.open("A").u(b"x").q(b"y").close())
    add("text container start indices 65533..65557 (fields before)", 65536, tx.close().kv(), model=False)
    tx = TX().u(b"k", b"").raw(b"=").open("O").u(b"k", b"").raw(b"=").open("A").open("A").rep(65530, lambda u: u.u(b"x"))
    add("text end indices 65535, 65536, 65537 (elements inside)", 65536, tx.close().close().close().kv(), model=False)
    return out


def text_reuse():
    """(dimension, value, previous input, current TX): a tape that holds ~p tokens is reused for a document of c tokens"""
    sizes = [0, 1, 2, 3, 7, 8, 9, 16, 17, 33, 65, 129, 257, 1025, 4097]
    out = []
    for p in sizes:
        # previous document: p tokens; accepted (fields / one container) or rejected half-way (tokens left behind)
        prevs = [("accepted", b"a=b " * (p // 2) + (b"}" if p % 2 else b"")),
                 ("rejected, unclosed", b"k={ " * 2 + b"x " * max(0, p - 4))]
        for c in sizes:
            for pk, prev in prevs:
                tx = TX()
                if c >= 4:
                    tx.u(b"k", b"").raw(b"=").open("A").rep(c - 3, lambda u: u.u(b"e")).close()
                elif c >= 2:
                    tx.kv()
                out.append(("text reused tape: previous (%s) of ~%d tokens, current of n" % (pk, p), len(tx.t), prev, tx))
    return out


# ------------------------------------------------------------------------------------------ binary ladders
KEYS = ["id", "q", "i32", "uq", "u32"]            # three key fast paths + two slow keys
KID = B.u16(B.TOKEN_ID)


def bin_ladders():
    """[(dimension, value, input, expected `bt.ptr` tape | "ERR", model?, tape length)]"""
    out = []

    def add(dim, n, bx=None, data=None, model=None):
        model = (n in LSET) if model is None else model
        if bx is None:
            out.append((dim, n, bytes(data), "ERR", model, 0))
        else:
            out.append((dim, n, bytes(bx.b), bx.line(), model, len(bx.t)))

    # ---- nesting depth
    for kk in KEYS:
        for n in (lad(4097, plus=[65536]) if kk == "id" else lad(1025)):
            bx = BX()
            h = bx.nest_open(n, lambda u: u.elem(kk).eq().open("O"))
            add("binary depth objects (%s keys)" % kk, n, bx.elem(kk).eq().i32().nest_close(h, [B.CLOSE]))
    for n in lad(4097, 1):
        bx = BX().id().eq()
        h = bx.nest_open(n, lambda u: u.open("A"))
        add("binary depth arrays", n, bx.i32().nest_close(h, [B.CLOSE]))
    for n in lad(1025, 1):
        # object > array > object > array ... around a leaf
        bx = BX().id().eq()
        h = bx.nest_open(n // 2, lambda u: u.open("O").q(b"key").eq().open("A"))
        if n % 2:
            bx.open("A").q(b"leaf").close()
        else:
            bx.f32()
        add("binary depth mixture object/array", n, bx.nest_close(h, [B.CLOSE, B.CLOSE]))
    # ---- siblings
    FIELD = [("id", "i32"), ("id", "q"), ("id", "f32"), ("q", "q"), ("i32", "i32"), ("id", "u32"), ("uq", "uq"), ("id", "bool"),
             ("q", "bool"), ("id", "id"), ("u32", "u64"), ("id", "f64"), ("id", "i64")]
    for (kk, vk) in FIELD:
        for n in (lad(4097, plus=[65536]) if (kk, vk) == ("id", "i32") else lad(4097) if (kk, vk) in (("q", "q"), ("i32", "i32")) else lad(1025)):
            bx = BX().id().eq().open("O" if n else "A").rep(n, lambda u: u.elem(kk).eq().elem(vk))
            add("binary siblings fields %s = %s of one object" % (kk, vk), n, bx.close())
    for ek in ("i32", "q", "f32", "u32", "id", "bool", "uq", "i64", "u64", "f64"):
        for n in (lad(4097, plus=[65536]) if ek in ("i32", "u32") else lad(4097) if ek in ("q", "f32") else lad(1025)):
            bx = BX().id().eq().open("A").rep(n, lambda u: u.elem(ek))
            add("binary siblings %s elements of one array" % ek, n, bx.close())
    for n in lad(4097):
        add("binary siblings top-level fields", n, BX().rep(n // 2, lambda u: u.id().eq().q(b"v").id(0x0b).eq().i32(-1)).rep(n % 2, lambda u: u.q(b"k").eq().u32()))
    for n in lad(1025):
        # the i32 run loop of the ArrayValue state (behind two non-i32 elements), and behind a quoted key
        bx = BX().id().eq().open("A").u32().u32().rep(n, lambda u: u.i32())
        add("binary i32 run behind two u32 elements", n, bx.close())
        bx = BX().q(b"key").eq().open("A").rep(n, lambda u: u.i32(-2))
        add("binary i32 elements behind a quoted key", n, bx.close())
        bx = BX().id().eq().open("A").u32().rep(n, lambda u: u.open("A").i32().close())
        add("binary siblings containers in one array", n, bx.close())
        bx = BX().id().eq().open("O" if n else "A").rep(n, lambda u: u.id().eq().open("O").id().eq().i32().close())
        add("binary siblings container fields", n, bx.close())
        bx = BX().id().eq().open("O" if n else "A").rep(n // 2, lambda u: u.id().eq().rgb(255, 2, 3).id().eq().rgb(1, 2, 3, 4)).rep(n % 2, lambda u: u.id().eq().rgb(0, 0, 0, 0))
        add("binary siblings rgb fields", n, bx.close())
    # ---- ghosts
    for n in lad(4097, plus=[65536]):
        bx = BX().id().eq().open("O").ghost(n).id().eq().i32()
        add("binary leading ghosts of an object (only-empties repair)", n, bx.close())
    for n in lad(1025):
        add("binary ghosts at top-level key position", n, BX().id().eq().i32().ghost(n).id().eq().i32())
        bx = BX().id().eq().open("O").id().eq().i32().ghost(n).id().eq().i32().ghost(n)
        add("binary ghosts at key position inside an object", n, bx.close())
        if n >= 1:
            # n leading empties, then TWO scalars before the '=': not "only empties" -> they stay, marker before the last scalar
            bx = BX().id().eq().open("A").rep(n, lambda u: u.open("A").close()).u32().m().u32(9).eqtok().u32(10)
            add("binary leading empties kept in front of a mixed container", n, bx.close())
        bx = BX().id().eq().open("A").u32().rep(n, lambda u: u.open("A").close())
        add("binary empty arrays among elements", n, bx.close())
    # ---- string lengths: the u16 prefix reaches 65535
    for n in [v for v in LADDER if v <= 65535]:
        pay = bytes((0x61 + (i % 23)) for i in range(n))
        for kind in ("Q", "U"):
            add("binary %s value length (after an id key)" % kind, n, BX().id().eq().s(kind, pay))
            add("binary %s key length" % kind, n, BX().s(kind, pay).eq().i32())
            bx = BX().id().eq().open("A").s(kind, pay).s(kind, pay[:3]).s(kind, pay)
            add("binary %s array element length" % kind, n, bx.close())
            bx = BX().q(b"k").eq().open("O").id().eq().s(kind, pay)
            add("binary %s value length behind a quoted key's object" % kind, n, bx.close())
        # payload full of bytes that look like structure
        pay = (B.OPEN + B.CLOSE + B.EQUAL + B.u16(0x0f)) * (n // 8 + 1)
        add("binary quoted payload of structural bytes", n, BX().id().eq().q(pay[:n]).id().eq().i32())
    add("binary string of 65535 bytes cut short by one byte", 65535, data=KID + B.EQUAL + B.u16(0x0f) + B.u16(65535) + b"x" * 65534)
    # ---- position of the MixedContainer marker
    for n in dense(1025):
        # EQUAL in an array after n elements and one more scalar
        for ek in ("u32", "i32", "q"):
            if ek != "u32" and not (n in LSET or n % 16 == 5):
                continue
            bx = BX().id().eq().open("A").rep(n, lambda u: u.elem(ek)).m().u32(9).eqtok().u32(10)
            add("binary mixed marker after n %s elements (EQUAL in an array)" % ek, n, bx.close())
        # object of n fields ending in one bare value (marker inserted at the close)
        bx = BX().id().eq().open("O").rep(n, lambda u: u.id().eq().i32()).m().u32(9)
        add("binary mixed marker after n fields (one bare value)", n, bx.close())
        # object of n fields continuing with bare values (ObjectToArray)
        bx = BX().id().eq().open("O").rep(n, lambda u: u.q(b"k").eq().q(b"v")).m().u32(0).u32(1)
        add("binary mixed marker after n fields (2 bare values)", n, bx.close())
        if n in LSET or n % 16 == 5:
            bx = BX().id().eq().open("O").rep(n, lambda u: u.q(b"k").eq().q(b"v")).m().u32(0).u32(1).q(b"two")
            add("binary mixed marker after n fields (3 bare values)", n, bx.close())
    for n in lad(1025):
        bx = BX().id().eq().open("A").u32().m().u32(9).eqtok().u32(10).rep(n, lambda u: u.id().eqtok().i32())
        add("binary key = value pairs inside a mixed container", n, bx.close())
    # ---- containers still open at the end, closers without a container: always rejected
    for n in dense(1025):
        add("binary unclosed objects at end of input", n, data=(KID + B.EQUAL + B.OPEN) * n + KID + B.EQUAL + B.enc("i32"))
        add("binary unclosed arrays at end of input", n, data=KID + B.EQUAL + B.OPEN * n + B.enc("i32"))
        add("binary stray closers", n, data=KID + B.EQUAL + B.enc("i32") + B.CLOSE * n)
        if n in LSET:
            add("binary balanced arrays followed by one stray closer", n, data=KID + B.EQUAL + B.OPEN * n + B.enc("i32") + B.CLOSE * n + B.CLOSE)
    # ---- tape indices around 65536
    bx = BX().rep(32766, lambda u: u.id().eq().i32()).id().eq().open("A").rep(3, lambda u: u.open("A").i32().q(b"y").close())
    bx.close().rep(3, lambda u: u.id().eq().open("O").id().eq().bool().close().q(b"k").eq().open("A").i32().i32().close())
    add("binary container start indices 65534..65570 (fields before)", 65536, bx, model=False)
    for ek in ("i32", "u32"):
        bx = BX().id().eq().open("O").id().eq().open("A").open("A").rep(65530, lambda u: u.elem(ek))
        add("binary end indices 65535, 65536, 65537 (%s elements inside)" % ek, 65536, bx.close().close().close().id().eq().i32(), model=False)
    # ---- every id as key, as value and as array element (256 ids per case)
    SPECIAL = {1, 3, 4, 0x0c, 0x0d, 0x0e, 0x0f, 0x14, 0x17, 0x167, 0x29c, 0x317}
    for hi in range(256):
        ids = [v for v in range(hi * 256, hi * 256 + 256) if v not in SPECIAL]
        ib = [B.u16(v) for v in ids]
        vb = [B.u32(v) for v in ids]
        data = b"".join(i + B.EQUAL + b"\x0c\x00" + v for i, v in zip(ib, vb))
        out.append(("binary ids as keys", hi * 256, data, "OK" + "".join(" T:%d I32:%d" % (v, v) for v in ids), hi == 0, 2 * len(ids)))
        data = b"".join(b"\x14\x00" + v + B.EQUAL + i for i, v in zip(ib, vb) if i != b"\x43\x02")
        out.append(("binary ids as values", hi * 256, data, "OK" + "".join(" U32:%d T:%d" % (v, v) for v in ids if v != 0x243), hi == 0, 2 * len(ids)))
        data = KID + B.EQUAL + B.OPEN + B.enc("u32", 6) + b"".join(ib) + B.CLOSE
        out.append(("binary ids as array elements", hi * 256, data,
                    "OK T:%d A:%d U32:7" % (B.TOKEN_ID, len(ids) + 3) + "".join(" T:%d" % v for v in ids) + " E:1", hi == 0, len(ids) + 4))
    return out


def bin_reuse():
    sizes = [0, 1, 2, 3, 7, 8, 9, 10, 11, 16, 17, 33, 65, 129, 257, 1025, 4097]
    out = []
    for p in sizes:
        prevs = [("accepted", (KID + B.EQUAL + B.enc("u32")) * (p // 2)),
                 ("rejected, unclosed", KID + B.EQUAL + B.OPEN + B.enc("quoted") * max(0, p - 2))]
        for c in sizes:
            for pk, prev in prevs:
                bx = BX()
                if c >= 4:
                    bx.id().eq().open("A").rep(c - 3, lambda u: u.q(b"e1")).close()
                elif c >= 2:
                    bx.id().eq().q(b"v")
                out.append(("binary reused tape: previous (%s) of ~%d tokens, current of n" % (pk, p), len(bx.t), prev, bx))
    return out


# ------------------------------------------------------------------------------------------ running
def affordable(it, max_tokens, max_bytes):
    """may the extracted model run this case?  (it is quadratic in the tape length)"""
    return it[4] and len(it[2]) <= max_bytes and it[5] <= max_tokens


def first_diff(a, b):
    m = min(len(a), len(b))
    for k in range(m):
        if a[k] != b[k]:
            return k
    return m


def note_max(ctx, key, v):
    if v > ctx.dist.get(key, 0):
        ctx.dist[key] = v


def tok_plain(t):
    return t[0] + ":" + t.split(":", 1)[1] if len(t) > 1 and t[1] == "@" else t


def self_check(ctx, fmt, items, limit=1500):
    """the constructions themselves: every expected tape is sound and every expected offset is where the bytes are"""
    for it in items:
        (dim, n, d, exp) = it[:4]
        if exp == "ERR" or it[5] > limit:
            continue
        if fmt == "text":
            pl, scal = P6.split_ptr_tokens(exp.split(" ", 2)[2])
            bad = tapewf.check_tape(pl, d) or P6.check_text_ptr(scal, d)
        else:
            toks = exp.split(" ")[1:]
            bad = tapewf.check_tape([tok_plain(t) for t in toks]) or P6.check_bin_payloads(toks, d)
        if bad:
            ctx.broken.append({"what": "check-internal", "detail": "C06_size: the construction for %s = %d is itself wrong: %s" % (dim, n, bad)})
            return


def judge_text(ctx, dim, n, data, exp, ptr, case, o):
    """detailed oracles for a text case whose output line is not the expected line"""
    where = "%s = %d" % (dim, n)
    if o in ("PANIC", "ABORT", "HANG"):
        ctx.fail("size-text-crash", "text tape parser at %s (%d input bytes): %s" % (where, len(data), o), [case], [o], "no crash")
        return
    if o == "from_slice-differs":
        ctx.fail("text-entry-points", "TextTapeParser::new().parse_slice and TextTape::from_slice disagree at %s" % where, [case], [o], "same tape")
        return
    if exp == "ERR":
        ctx.fail("size-text-accepts", "text tape parser accepts the input of %s, which must be rejected; tape=%s" % (where, o[:200]), [case], [o[:2000]], "ERR")
        return
    if not o.startswith("ok "):
        ctx.fail("size-text-rejects", "text tape parser rejects the well-formed input of %s (%d bytes)" % (where, len(data)), [case], [o[:200]], exp[:300])
        return
    have_plain, scal = P6.split_ptr_tokens(o.split(" ", 2)[2] if o.count(" ") >= 2 else "-")
    want_plain, wscal = P6.split_ptr_tokens(exp.split(" ", 2)[2])
    bad = tapewf.check_tape(have_plain)
    if bad:
        ctx.fail("text-wf", "unsound tape at %s: %s; tape=%s" % (where, bad, o[:300]), [case], [o[:2000]], "sound tape")
    if ptr:
        bad = P6.check_text_ptr(scal, data)
        if bad:
            ctx.fail("text-scalar-ptr", "at %s: %s; tape=%s" % (where, bad, o[:300]), [case], [o[:2000]], "every scalar is input[off..off+len) with increasing off")
    if o.split(" ")[1] != "0":
        ctx.fail("size-text-tape", "at %s a byte order mark is reported for an input without one" % where, [case], [o[:2000]], exp[:600])
    elif have_plain != want_plain:
        k = first_diff(have_plain, want_plain)
        ctx.fail("size-text-tape", "at %s the tape differs from the document's tape at token %d: tape has %s (%d tokens), the document has %s (%d tokens)"
                 % (where, k, " ".join(have_plain[k:k + 4])[:200], len(have_plain), " ".join(want_plain[k:k + 4])[:200], len(want_plain)), [case], [o[:2000]], exp[:600])
    elif ptr and scal != wscal:
        k = first_diff(scal, wscal)
        ctx.fail("size-text-offsets", "at %s: scalar %d of the tape is %s, by construction it is %s" % (where, k, str(scal[k:k + 1])[:200], str(wscal[k:k + 1])[:200]),
                 [case], [o[:2000]], "offsets of the construction")


def run_text(ctx):
    items = text_ladders()
    self_check(ctx, "text", items)
    # (1) pointer kind on every case, oracle only
    cases = ["tt.ptr\t%s" % hexs(it[2]) for it in items]
    meta = [it[:4] for it in items]
    for (dim, c, prev, tx) in text_reuse():
        cases.append("tt.ptr_reuse\t%s\t%s" % (hexs(prev), hexs(tx.b)))
        meta.append((dim, c, bytes(tx.b), tx.line()))
    impl, _ = ctx.correspond("size_text", cases, model=False, nontrivial=lambda c, i: i.startswith("ok"))
    base = len(impl) - len(cases)
    for k, (dim, n, d, exp) in enumerate(meta):
        if impl[base + k] != exp:
            judge_text(ctx, dim, n, d, exp, True, cases[k], impl[base + k])
        note_max(ctx, "size_text_max_input", len(d))
    note_max(ctx, "size_text_max_tape", max(it[5] for it in items))
    ctx.count("size_text_cases", len(cases))
    # (2) the extracted model on the rungs it can afford (same inputs through tt.parse), same expectation
    sm = [it for it in items if affordable(it, TEXT_MODEL_TOKENS, TEXT_MODEL_BYTES)]
    mcases = ["tt.parse\t%s" % hexs(it[2]) for it in sm]
    impl, _ = ctx.correspond("size_text_model", mcases, nontrivial=lambda c, i: i.startswith("ok"))
    base = len(impl) - len(mcases)
    for k, it in enumerate(sm):
        exp = plain(it[3])
        if impl[base + k] != exp:
            judge_text(ctx, it[0], it[1], it[2], exp, False, mcases[k], impl[base + k])
    ctx.count("size_text_model_cases", len(mcases))


def judge_bin_tape(judge, which, dim, n, data, exp, res, case, o):
    where = "%s = %d" % (dim, n)
    if exp == "ERR":
        if res != "ERR":
            judge.add("size-bin-accepts", "%s parser accepts the input of %s, which must be rejected; tape=%s" % (which, where, res[:200]), case, o[:2000], "ERR")
        return
    if not res.startswith("OK"):
        judge.add("size-bin-rejects", "%s parser rejects the well-formed input of %s (%d bytes)" % (which, where, len(data)), case, o[:300], exp[:300])
        return
    have, want = res.split(" ")[1:], exp.split(" ")[1:]
    hp, wp = [tok_plain(t) for t in have], [tok_plain(t) for t in want]
    if hp != wp:
        k = first_diff(hp, wp)
        judge.add("size-bin-tape", "%s tape at %s differs from the token stream's tape at token %d: tape has %s (%d tokens), the stream has %s (%d tokens)"
                  % (which, where, k, " ".join(hp[k:k + 4])[:200], len(have), " ".join(wp[k:k + 4])[:200], len(want)), case, o[:2000], exp[:600])
    elif have != want:
        k = first_diff(have, want)
        judge.add("size-bin-offsets", "%s tape at %s: string payload %s, by construction %s" % (which, where, have[k][:80], want[k][:80]), case, o[:2000], "offsets of the construction")


def judge_bin_all(ctx, judge, name, dim, n, d, exp, case, o):
    """detailed oracles for a bt.all / bt.reuse line that is not the expected line"""
    judge.check([case], [o], [None], name)        # crash / wf flags / payload lexer / Python structural checker
    s = B.split_all(o)
    if s is None:
        return
    pe = plain(exp)
    judge_bin_tape(judge, "optimised", dim, n, d, pe, s[0], case, o)
    judge_bin_tape(judge, "reference", dim, n, d, pe, s[1], case, o)


def all_line(exp):
    if exp == "ERR":
        return "opt=ERR | ref=ERR | wf=--"
    pe = plain(exp)
    return "opt=%s | ref=%s | wf=yy" % (pe, pe)


def run_bin(ctx):
    judge = P6.Judge6(ctx, wf_only=True)
    items = bin_ladders()
    self_check(ctx, "bin", items)
    # (1) both parsers + from_slice; the models on the affordable rungs
    for name, sel, use_model in (("size_bin_model", [it for it in items if affordable(it, BIN_MODEL_TOKENS, BIN_MODEL_BYTES)], True),
                                 ("size_bin", [it for it in items if not affordable(it, BIN_MODEL_TOKENS, BIN_MODEL_BYTES)], False)):
        cases = ["bt.all\t" + hexs(it[2]) for it in sel]
        impl, model = ctx.correspond(name, cases, model=use_model, nontrivial=B.nontrivial)
        base = len(impl) - len(cases)
        for k, it in enumerate(sel):
            if impl[base + k] != all_line(it[3]):
                judge_bin_all(ctx, judge, name, it[0], it[1], it[2], it[3], cases[k], impl[base + k])
            note_max(ctx, "size_bin_max_input", len(it[2]))
        ctx.count(name + "_cases", len(cases))
    note_max(ctx, "size_bin_max_tape", max(it[5] for it in items))
    # (2) parse_slice with string pointer offsets (every case that carries a string), and reused tapes
    sel = [it for it in items if "@" in it[3]]
    cases = ["bt.ptr\t" + hexs(it[2]) for it in sel]
    meta = [it[:4] for it in sel]
    rcases, rmeta = [], []
    for (dim, c, prev, bx) in bin_reuse():
        cases.append("bt.ptr_reuse\t%s\t%s" % (hexs(prev), hexs(bx.b)))
        meta.append((dim, c, bytes(bx.b), bx.line()))
        rcases.append("bt.reuse\t%s\t%s" % (hexs(prev), hexs(bx.b)))
        rmeta.append(meta[-1])
    impl, _ = ctx.correspond("size_bin_ptr", cases, model=False, nontrivial=lambda c, i: i.startswith("OK"))
    base = len(impl) - len(cases)
    for k, (dim, n, d, exp) in enumerate(meta):
        o = impl[base + k]
        if o == exp:
            continue
        if o in ("PANIC", "ABORT", "HANG"):
            judge.add("crash", "binary tape parser at %s = %d: %s" % (dim, n, o), cases[k], o)
            continue
        judge_bin_tape(judge, "optimised (parse_slice / used tape)", dim, n, d, exp, o, cases[k], o)
        toks = P6.tokens_of(o)
        if toks is not None:
            bad = tapewf.check_tape([tok_plain(t) for t in toks])
            if bad:
                judge.add("tape-not-wf", "at %s = %d: accepted tape is not structurally sound: %s" % (dim, n, bad), cases[k], o[:2000], "sound tape")
            bad = P6.check_bin_payloads(toks, d)
            if bad:
                judge.add("bin-payload", "at %s = %d: accepted, but %s" % (dim, n, bad), cases[k], o[:2000], "payload tokens = payload lexemes of the input, in order; strings point at their lexeme")
    ctx.count("size_bin_ptr_cases", len(cases))
    # used tapes through both parsers
    impl, _ = ctx.correspond("size_bin_reuse", rcases, nontrivial=B.nontrivial, model=False)
    base = len(impl) - len(rcases)
    for k, (dim, n, d, exp) in enumerate(rmeta):
        if impl[base + k] != all_line(exp):
            judge_bin_all(ctx, judge, "size_bin_reuse", dim, n, d, exp, rcases[k], impl[base + k])
    judge.flush()


def run_chains(ctx):
    """reuse COUNT of one tape: n parses in a row into the same tape (documents of changing length, every fourth one
    rejected half-way); after every step (text) / after the last step (binary) the tape must be the document's tape"""
    tdocs, bdocs = [], []
    for i, c in enumerate([0, 2, 9, 1, 33, 3, 257, 5]):
        tx = TX()
        if c >= 4:
            tx.u(b"k", b"").raw(b"=").open("A").rep(c - 3, lambda u: u.u(b"e")).close()
        elif c >= 2:
            tx.kv()
        tdocs.append((bytes(tx.b), plain(tx.line())) if c % 2 == 0 or c > 4 else (b"k={ " * (c + 1) + b"x", "ERR"))
        bx = BX()
        if c >= 4:
            bx.id().eq().open("A").rep(c - 3, lambda u: u.q(b"e1")).close()
        elif c >= 2:
            bx.id().eq().q(b"v")
        bdocs.append((bytes(bx.b), plain(bx.line())) if c % 2 == 0 or c > 4 else (KID + B.EQUAL + B.OPEN * (c + 1), "ERR"))
    tcases, texp, bcases, bexp = [], [], [], []
    for n in lad(257, 1):
        for start in (0, 3):
            seq = [tdocs[(start + i) % len(tdocs)] for i in range(n)]
            tcases.append("tt.chain\t" + "\t".join(hexs(d) for d, _ in seq))
            texp.append((n, " | ".join(e for _, e in seq)))
            seq = [bdocs[(start + i) % len(bdocs)] for i in range(n)]
            bcases.append("bt.chain\t" + ";".join(hexs(d) for d, _ in seq))
            e = seq[-1][1]
            bexp.append((n, "a=%s | b=%s | fo=%s | fr=%s" % (e, e, e, e)))
    impl, _ = ctx.correspond("size_chain", tcases + bcases, model=False, nontrivial=lambda c, i: "ok" in i or "OK" in i)
    base = len(impl) - len(tcases) - len(bcases)
    for k, (n, e) in enumerate(texp + bexp):
        o = impl[base + k]
        if o != e:
            fmt = "text" if k < len(texp) else "binary"
            steps_o, steps_e = o.split(" | "), e.split(" | ")
            j = first_diff(steps_o, steps_e)
            ctx.fail("size-chain", "%s tape reused for n = %d parses in a row: after step %d the tape is %s, the document's tape is %s"
                     % (fmt, n, j + 1, " ".join(steps_o[j:j + 1])[:200], " ".join(steps_e[j:j + 1])[:200]), [(tcases + bcases)[k]], [o[:2000]], e[:600])
    ctx.count("size_chain_cases", len(tcases) + len(bcases))


def run(ctx):
    run_text(ctx)
    run_bin(ctx)
    run_chains(ctx)
