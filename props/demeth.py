"""C04 / C02, wave 5 (engineer w_fwd): the METHOD TABLES of the serde `Deserializer` impls, tied to behaviour.

tools/gen_de_methods.py extracts from src/binary/de.rs and src/text/de.rs, per `impl Deserializer for X`, which
`deserialize_*` methods are explicit (with the class of their body) and which are in `forward_to_deserialize_any!`
(Tables.de_tables); coq/theories/DeMethods.v resolves the forwarding chains (`normal`) and predicts, from the generated
table only, which visit calls a recording visitor sees for a token kind (`predict`); Props/C04_methods.v and
Props/C02_methods.v prove totality, path agreement outside the finding cells, ignored_any never through deserialize_any,
the u16 key shortcut ... by computation over the generated table.

Stream `method_table` (bin: every method x 15 token kinds x strategy x {value, key} x {tape, slice, reader}; text: every
method x 7 token kinds x 5 entry points): the harness kinds de.meth.bin / de.meth.text (harness/src/fam_dmeth.rs) ask the
method on the real deserializer with a recording visitor; the extracted `predict` must say the same -- so the table (and
the hand-written base routines of DeMethods.v) cannot drift from the behaviour silently.
ORACLES on the implementation's outputs, independent of the Coq model: outside the cells of the known findings (N P Q R,
P-stream-i128) and the targets that do not fit the token, all paths observe the same visits (`meth-paths-differ`); a
target that fits is answered `ok`, i.e. exactly the value was consumed (`meth-not-consumed`).
"""
import struct
from props import dedoc as D
from props.dedoc import hx

METHODS = ["any", "bool", "i8", "i16", "i32", "i64", "i128", "u8", "u16", "u32", "u64", "u128", "f32", "f64", "char", "str", "string",
           "bytes", "byte_buf", "option", "unit", "unit_struct", "newtype_struct", "seq", "tuple", "tuple_struct", "map", "struct", "enum",
           "identifier", "ignored_any"]

KNOWN_ID, UNKNOWN_ID = 0x1234, 0x4321


def bstr(s, quoted):
    return D.tok(0x0f if quoted else 0x17) + struct.pack("<H", len(s)) + s


def bin_tokens(rng):
    """(kind, bytes) -- payloads redrawn on every run"""
    i32 = lambda n: D.tok(0x0c) + struct.pack("<i", n)
    word = lambda: bytes(rng.choice(b"abcdefghijklmnop") for _ in range(rng.randrange(1, 9)))
    return [
        ("idk", D.tok(KNOWN_ID)),
        ("idu", D.tok(UNKNOWN_ID)),
        ("quoted", bstr(word(), True)),
        ("unquoted", bstr(word(), False)),
        ("i32", i32(rng.choice([0, 1, -1, 127, 128, 65536, -2 ** 31, 2 ** 31 - 1, rng.randrange(-2 ** 31, 2 ** 31)]))),
        ("u32", D.tok(0x14) + struct.pack("<I", rng.choice([0, 255, 2 ** 31, 2 ** 32 - 1, rng.randrange(2 ** 32)]))),
        ("u64", D.tok(0x29c) + struct.pack("<Q", rng.choice([0, 2 ** 32, 2 ** 63, 2 ** 64 - 1, rng.randrange(2 ** 64)]))),
        ("i64", D.tok(0x317) + struct.pack("<q", rng.choice([0, -1, 2 ** 31, -2 ** 63, 2 ** 63 - 1, rng.randrange(-2 ** 63, 2 ** 63)]))),
        ("bool", D.tok(0x0e) + bytes([rng.randrange(2)])),
        ("f32", D.tok(0x0d) + struct.pack("<i", rng.randrange(-10 ** 6, 10 ** 6))),
        ("f64", D.tok(0x167) + struct.pack("<q", rng.randrange(-2 ** 40, 2 ** 40))),
        ("rgb", D.tok(0x0243) + D.OPEN + b"".join(D.tok(0x14) + struct.pack("<I", rng.randrange(256)) for _ in range(3)) + D.CLOSE),
        ("arr", D.OPEN + i32(rng.randrange(100)) + rng.choice([i32(rng.randrange(100)), bstr(word(), True)]) + D.CLOSE),
        ("empty", D.OPEN + D.CLOSE),
        ("obj", D.OPEN + bstr(word(), False) + D.EQ + i32(rng.randrange(100))
                + (bstr(word(), True) + D.EQ + bstr(word(), True) if rng.random() < 0.5 else b"") + D.CLOSE),
    ]


BIN_SCALARS = ("idk", "idu", "quoted", "unquoted", "i32", "u32", "u64", "i64", "bool", "f32", "f64")


def bin_known_cell(hint, tok, pos):
    """cells in which the three paths are KNOWN to observe different visits (findings N P Q R), or None"""
    if pos == "key":
        if hint in ("newtype_struct", "enum", "option"):
            return "P"
        if hint in ("unit", "unit_struct"):
            return "Q"          # the lexer paths answer visit_unit for a key as well; KeyDeserializer forwards to any
        if hint in ("i128", "u128"):
            return "R"
        if hint == "ignored_any":
            return "key-ignored"    # KeyDeserializer forwards ignored_any to any; no target ignores a key (audit/C04.md)
        return None
    if hint in ("unit", "unit_struct"):
        return "Q"
    if hint in ("i128", "u128"):
        return "R"
    if hint == "u16" and tok in ("idk", "idu"):
        return "N"
    return None


def bin_fits(hint, tok):
    """does the target ask the token for something it can be?  (the recording visitor continues an Option / newtype / enum
    with deserialize_any; `any` on an object is outside the property: the lexer paths cannot tell `{ k = v }` from an array)"""
    if tok == "obj":
        return hint in ("map", "struct", "ignored_any", "unit", "unit_struct")
    if tok == "rgb":
        return hint not in ("map", "struct")
    return True


def run_bin(ctx):
    rng = ctx.rng
    toks = bin_tokens(rng)
    s_field = bstr(b"s", False) + D.EQ + D.tok(0x0c) + struct.pack("<i", 7)
    cases, meta = [], []
    for hint in METHODS:
        for tok, tb in toks:
            for pos in ("value", "key"):
                if pos == "key" and tok not in BIN_SCALARS:
                    continue
                strats = ["error", "stringify", "ignore"] if tok in ("idk", "idu") else [rng.choice(["error", "stringify", "ignore"])]
                for strat in strats:
                    ghost = (D.OPEN + D.CLOSE) * rng.choice([0, 0, 1, 2])
                    if pos == "value":
                        doc = bstr(b"x", rng.random() < 0.5) + D.EQ + tb + ghost + s_field
                    else:
                        doc = (bstr(b"x", False) + D.EQ + D.OPEN + tb + D.EQ + D.tok(0x0c) + struct.pack("<i", 9)
                               + bstr(b"q", True) + D.EQ + D.tok(0x0e) + b"\x01" + D.CLOSE + ghost + s_field)
                    res = rng.choice(["map", "lines"]) + ":%04x=%s" % (KNOWN_ID, hx(b"abc"))
                    fl = rng.choice(["eu4", "raw"])
                    rd = "reader:%d:%s" % (rng.choice([32, 40, 64, 32768]), rng.choice(["-", "1*", "3,5*"]))
                    g = len(meta)
                    for p in ("tape", "slice", rd):
                        cases.append("\t".join(["de.meth.bin", p, strat, res, fl, pos, hint, tok, hx(doc)]))
                    meta.append((hint, tok, pos, strat, g))
                    ctx.count("method_table_bin_cells")
    impl, _ = ctx.correspond("method_table", cases, nontrivial=lambda c, i: i.endswith(" ok"))
    base = len(impl) - len(cases)
    for (hint, tok, pos, strat, g) in meta:
        grp = cases[3 * g:3 * g + 3]
        outs = impl[base + 3 * g: base + 3 * g + 3]
        if any(o in ("NOKIND", "BADCASE") for o in outs):
            continue
        kc = bin_known_cell(hint, tok, pos)
        fits = bin_fits(hint, tok)
        cell = "deserialize_%s on a %s token in %s position (%s)" % (hint, tok, pos, strat)
        if outs[1] != outs[2]:
            # the two lexer-based token deserializers have no known difference at all (C04_lexer_methods_agree)
            ctx.fail("meth-lexer-paths-differ", "%s: on-demand sees %s, stream %s" % (cell, outs[1], outs[2]), grp[1:], outs[1:], outs[1])
        if kc is None and fits:
            if len(set(outs)) > 1:
                ctx.fail("meth-paths-differ", "%s: tape sees %s, on-demand %s, stream %s" % (cell, outs[0], outs[1], outs[2]), grp, outs, outs[1])
            refused = tok == "idu" and strat == "error" and not (hint == "u16" or (pos == "value" and hint == "ignored_any"))
            for c, o in zip(grp, outs):
                if not refused and not o.endswith(" ok"):
                    ctx.fail("meth-not-consumed", "%s through %s: %s (the value was refused or not consumed exactly)" % (cell, c.split("\t")[1], o), [c], [o], "... ok")
        elif kc is not None and len(set(outs)) > 1:
            ctx.count("method_table_known_" + kc)


# ------------------------------------------------------------------------------------------------ text
def text_tokens(rng):
    return [
        # magnitudes below 2^53: Scalar::to_f64 refuses larger integers (C11's subject, not the method table's)
        ("tint", str(rng.choice([0, 1, 7, 255, 65536, 2 ** 31, 2 ** 53 - 1, rng.randrange(10 ** 9)])).encode()),
        ("tneg", str(-rng.choice([1, 17, 128, 2 ** 31, 2 ** 53 - 1, rng.randrange(1, 10 ** 9)])).encode()),
        ("tbool", rng.choice([b"yes", b"no"])),
        ("tfloat", rng.choice([b"1.5", b"0.25", b"-2.75", b"100.125"])),
        ("tword", rng.choice([b"abc", b"x_1", b'"two words"', b'"q"', b"yesno"])),
        ("tarr", b"{ " + b" ".join(rng.choice([b"1", b"a", b'"b c"']) for _ in range(rng.randrange(1, 4))) + b" }"),
        ("tobj", b"{ k = " + rng.choice([b"1", b"v", b'"w w"']) + rng.choice([b"", b" j = 2"]) + b" }"),
    ]


TEXT_SCALARS = ("tint", "tneg", "tbool", "tfloat", "tword")


def text_known_cell(hint, tok):
    """cells in which the tape and the stream deserializer are KNOWN to observe different visits"""
    if hint in ("i128", "u128"):
        return "P-stream-i128"
    return None


def text_fits(hint, tok):
    """a sequence asked of a scalar, anything but a map / struct asked of an object: outside the property (the stream path
    reads the FOLLOWING tokens as elements / cannot tell an object from an array)"""
    if tok in TEXT_SCALARS:
        return hint not in ("seq", "tuple", "tuple_struct")
    if tok == "tobj":
        return hint in ("map", "struct", "ignored_any", "unit", "unit_struct", "seq", "tuple", "tuple_struct")
    return True


def run_text(ctx):
    rng = ctx.rng
    toks = text_tokens(rng)
    cases, meta = [], []
    for hint in METHODS:
        for tok, tb in toks:
            if hint == "enum" and tok not in TEXT_SCALARS:
                continue        # EnumAccess over a container: data-carrying variants, open item S7 of audit/C02.md
            if hint in ("map", "struct") and tok == "tarr":
                continue        # a map asked of an array: the outcome depends on the number of elements, not on the method table
            enc = rng.choice(["w1252", "utf8"])
            sep = rng.choice([b" ", b"\n", b"  "])
            doc = b"x" + rng.choice([b"=", b" = "]) + tb + sep + b"s = 7" + rng.choice([b"", b"\n"])
            chunks = ",".join(str(rng.choice([1, 2, 3, 5, 8])) for _ in range(rng.randrange(2, 4))) + "*"
            paths = ["slice", "tape", "objreader", "reader:%d:%s" % (rng.choice([64, 32768]), rng.choice(["-", "1*"])), "freader:" + chunks]
            g = len(cases)
            for p in paths:
                cases.append("\t".join(["de.meth.text", p, enc, hint, tok, hx(doc)]))
            meta.append((hint, tok, g, len(paths)))
            ctx.count("method_table_text_cells")
    impl, _ = ctx.correspond("method_table", cases, nontrivial=lambda c, i: i.endswith(" ok"))
    base = len(impl) - len(cases)
    for (hint, tok, g, n) in meta:
        grp = cases[g:g + n]
        outs = impl[base + g: base + g + n]
        if any(o in ("NOKIND", "BADCASE") for o in outs):
            continue
        cell = "deserialize_%s on a %s" % (hint, tok)
        if len(set(outs[:3])) > 1 or len(set(outs[3:])) > 1:
            ctx.fail("meth-entry-points-differ", "%s: slice / tape / objreader see %s, the two reader entry points %s" % (cell, outs[:3], outs[3:]), grp, outs, outs[0])
            continue
        kc = text_known_cell(hint, tok)
        if kc is None and text_fits(hint, tok):
            if outs[0] != outs[3]:
                ctx.fail("meth-paths-differ", "%s: the tape deserializer sees %s, the stream deserializer %s" % (cell, outs[0], outs[3]), [grp[0], grp[3]], [outs[0], outs[3]], outs[0])
            for c, o in zip(grp, outs):
                if not o.endswith(" ok"):
                    ctx.fail("meth-not-consumed", "%s through %s: %s (the value was refused or not consumed exactly)" % (cell, c.split("\t")[1], o), [c], [o], "... ok")
        elif kc is not None and outs[0] != outs[3]:
            ctx.count("method_table_known_" + kc)
