"""C06 Every successfully parsed tape is structurally sound (text half; the binary half is merged in from props/C06_bin.py when present)."""
from props import C06_text

RULE = ("text: rendered documents, their mutations (deleted/inserted structural bytes, truncations, stray and missing closers), byte soups over the "
        "significant alphabet and generated token streams; every accepted input's tape is checked: end indices, back pointers, nesting, no index 0, "
        "scalars are sub-slices of the input in increasing start order. non-trivial = accepted input whose tape has at least one container. "
        "wave 4 (props/C06_ptr.py): pointer offsets of every text scalar against the input slice (parse_slice, from_slice, reused tape), byte-level "
        "mutants of documents and end-of-input classes; binary: an independent lexer re-reads every accepted input and the tape's payload tokens must be "
        "the input's payload lexemes at their positions (all C03 streams + lexeme-level mutants + parse_slice / reused tape with string pointer offsets); "
        "the four structural checkers (Rust, 2 x Coq, Python) must agree on all token shapes of length <= 4 and on mutated real tapes. "
        "wave 6 (props/C06_size.py): size ladders 0 1 2 3 7 8 9 15 16 17 31 .. 4097 65533 .. 65536, one dimension at a time with the expected tape and "
        "every scalar offset by construction: nesting depth per container kind and mixed (to 65536), siblings, ghosts, position of the MixedContainer "
        "marker (dense 1..300, to 1025), unclosed containers / stray closers, scalar / key / header / parameter / string lengths (binary strings to 65535) "
        "x alignment to the 16-byte blocks and to the end of the input, whitespace and comment runs, tape indices beyond 65535, every binary id, reused "
        "tapes of every relative length; models on the small rungs, oracles alone beyond")
TRUSTED = []
ASSUMPTIONS = []


def run(ctx):
    C06_text.run_text(ctx)
    try:
        from props import C06_bin
    except ImportError:
        C06_bin = None
    if C06_bin:
        C06_bin.run_binary(ctx)
    # >>> a_c06 (wave 4): pointer ranges of text scalars, payload positions of binary tokens (independent lexer),
    # parse_slice / reused-tape entry points, mutated documents, end-of-input classes, checker cross-check
    from props import C06_ptr
    C06_ptr.run(ctx)
    # <<< a_c06
    # >>> s_c06 (wave 6): size ladders, one dimension at a time, expected tape and scalar offsets by construction
    from props import C06_size
    C06_size.run(ctx)
    # <<< s_c06


def search(ctx):
    import random
    ctx.rng = random.Random(ctx.seed + 1)
    old = ctx.tier
    ctx.tier = "thorough"
    try:
        run(ctx)
    finally:
        ctx.tier = old


CLAIM = {
    "text": "Coq theorems over the literal models of the text (and binary) tape parsers stating that every Ok result is a well-formed tape, for all byte strings; tied to the code by running model and implementation on the same inputs and by checking every real accepted tape (indices, back pointers, nesting, scalar provenance)",
    "note": "Trusted: Coq kernel, translator, extraction, harness. Evidence lists the theorems proved; the remainder is carried by correspondence + the tape checker on real tapes.",
    "technique": "machine-checked proof in Coq over an executable model + model/implementation correspondence by extraction",
}
