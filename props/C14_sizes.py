"""C14 wave 6 (s_wr): size / boundary ladders for write_tape (audit/C14.md, section "Size dimensions").

One dimension at a time on an otherwise small document (props/docgen.py: deep_doc / wide_doc / scalar_doc), the values
taken from docgen.LADDER (0 1 2 3 7 8 9 15 16 17 31 .. 65535 65536), plus the pairs the code couples (depth x factor =
indent width against the 16-byte cache; base depth of a reused writer x factor).

Oracles (none involves the model; the model comparison runs next to them where the extracted model is fast enough):
  size-rt-structure   parse(x) = flatten(d) (expected BY CONSTRUCTION) and parse(write(parse x)) = parse x
  size-rt-idempotent  write . parse is a fixed point on the written text
  size-indent         docgen.indent_law on the written text: after every newline exactly factor x (open braces) indent
                      characters -- re-parsing cannot see a wrong indent width, this can
  size-state          depth() / expecting_key() after a complete document are 0 / true
  size-shift          a tape written inside D open containers is the tape written at depth 0 with every line indented
                      by D x factor more characters (metamorphic; D up to 65536 at 3 bytes per level, so the indent
                      width reaches 65535 / 65536 / 65537 without a quadratic output)
  size-reuse          n write_tape calls on one writer print what one write_tape of the concatenated document prints, and
                      re-parse to it; k x (key; write_object_start) + write_tape + k x write_end re-parses to the wrapped doc
Streams: sizes_rt (writer.rt, implementation only), sizes_tape / sizes_tape_debug (writer.tape, model vs implementation
for the cases the model runs in < ~0.3 s; the longer ones implementation + oracles only: stream sizes_tape_big),
sizes_session / sizes_session_debug / sizes_session_reparse."""
import random
from vlib import hexs, unhex
from props import docgen as D
from props.docgen import S, Field, Obj, Arr, Doc

CRASH = ("PANIC", "ABORT", "HANG")


def parse_rt(line):
    d = {}
    for part in line.split("|"):
        if "=" in part:
            k, v = part.split("=", 1)
            d[k] = v
    return d


def with_profile(case, p):
    parts = case.split("\t")
    parts[1] = parts[1][:-1] + p
    return "\t".join(parts)


def gen_items(ctx):
    """[(label, doc, cfg, model?)]; cfg = (indent char, factor)"""
    rng = ctx.rng
    items = []
    ch = lambda: rng.choice([32, 9])

    # the extracted model appends to its output list: its cost grows with the square of the output size.  It runs on
    # the cases whose output stays under ~40 kB; the others are judged by the oracles alone (sizes_tape_big)
    cheap = lambda dp, f: dp * dp * f <= 40000

    # ---- D1 / D2: nesting depth, container kind per level (the output is quadratic in the depth unless the factor is 0)
    for dp in D.ladder(4097, extra=(130, 200, 300, 511, 512, 513)):
        pats = ["mix", "mix", "blocks"] if 30 <= dp <= 520 else (["mix"] if dp > 520 else ["mix", "o", "a", "oa"])
        for j, pat in enumerate(pats):
            d = D.deep_doc(rng, dp, pat)
            f = 0 if dp > 520 else (rng.choice([0, 1, 2, 3, 4, 9]) if dp <= 65 else (rng.choice([1, 2, 3]) if j == 0 else rng.choice([0, 0, 1])))
            items.append(("depth:%d:%s" % (dp, pat), d, (ch(), f), dp <= 520 and cheap(dp, f)))
    for dp, pat in ((1024, "o"), (1024, "a"), (4097, "oa"), (4097, "blocks")):
        items.append(("depth:%d:%s" % (dp, pat), D.deep_doc(rng, dp, pat), (ch(), 0), False))

    # ---- D3 / D4: indent width = depth x factor around 16, 255/256/257, 1024, 4096 (well-formed chains, judged)
    for w in (15, 16, 17, 31, 32, 33, 255, 256, 257, 1023, 1024, 1025, 4095, 4096, 4097):
        pairs = [(dp, w // dp) for dp in range(1, 40) if w % dp == 0 and w // dp <= 255]
        for dp, f in pairs[:6] + pairs[-2:]:
            if dp * dp * f > 400000:
                continue
            # the chain reaches depth dp (width w) and goes two levels further (the cache is left and re-entered on the way back)
            items.append(("width:%d=%dx%d" % (w, dp, f), D.deep_doc(rng, dp + 2, "mix"), (ch(), f), cheap(dp + 2, f)))
    for f in D.ladder(255):                       # every ladder factor on a small document of depth 3
        items.append(("factor:%d" % f, D.deep_doc(rng, 3, "mix"), (ch(), f), True))

    # ---- D6..D9, D13, D17, D18: siblings
    for kind in D.WIDE_KINDS:
        top = {"top": 65536, "elems": 65536, "fields": 4097, "kv": 4097, "objfields": 4097, "containers": 4097}.get(kind, 1025)
        for n in D.ladder(top, lo=(1 if kind == "top" else 0), extra=(300, 500)):
            if n > 4097 and n != 65536:
                continue
            items.append(("siblings:%s:%d" % (kind, n), D.wide_doc(kind, n), (ch(), rng.choice([0, 1, 2, 8, 9, 17])), n <= (1025 if kind in ("top", "fields", "elems", "kv") else 300)))

    # ---- D10..D12: scalar lengths per role (unquoted / quoted with escapes)
    roles = ["key", "value", "opvalue", "elem", "firstelem", "nestedkey", "kvkey", "kvvalue", "header", "param"]
    for role in roles:
        for n in D.ladder(65536):
            big = n > 4097
            if big and role not in ("key", "value", "elem", "nestedkey", "header", "param") and n != 65535:
                continue
            for kind in ("u", "q"):
                if kind == "u" and n == 0:
                    continue
                if kind == "q" and role in ("header", "param"):
                    continue
                esc = 0 if kind == "u" else rng.choice([0, 0, 1, 2, n // 8, n // 2])
                fill = rng.choice([b"a", b"ab", b"x1_", b"\xe9t\xfc", b"a.b-c:d'"])
                s = S(kind, D.long_scalar(kind, n, esc, fill))
                if role == "param" and n == 0:
                    continue
                items.append(("len:%s:%s:%d" % (role, kind, n), D.scalar_doc(role, s), (ch(), rng.choice([0, 1, 2, 9])), n <= 4097))
    for e in D.ladder(300, extra=(100, 200, 300)):            # number of escapes in one quoted scalar
        s = S("q", D.long_scalar("q", 2 * e + 5, e))
        items.append(("escapes:%d" % e, D.scalar_doc(rng.choice(["key", "value", "elem"]), s), (ch(), 2), True))
    return items


def run(ctx, _fail):
    D.deep_recursion()
    rng = ctx.rng
    items = gen_items(ctx)
    if ctx.tier != "quick":
        items += gen_items(ctx)
    ctx.count("size_ladder_documents", len(items))

    # ---- phase 1: parse . write . parse . write on the implementation
    rcases = []
    for (label, d, (c, f), model) in items:
        lay = "min" if len(rcases) % 3 else rng.choice(["spaced", "lines", "tabs", "writerlike", "crlf"])
        x = D.render(d, lay)
        rcases.append("writer.rt\t%d,%d,r\t%s" % (c, f, hexs(x)))
    impl, _ = ctx.correspond("sizes_rt", rcases, model=False, nontrivial=lambda c, i: "|t2=" in i)
    base = len(impl) - len(rcases)
    tcases, tmeta = [], []
    for k, (label, d, (c, f), model) in enumerate(items):
        o = impl[base + k]
        short = [rcases[k]] if len(rcases[k]) < 400000 else [rcases[k][:2000] + "...(%s)" % label]
        if o in CRASH:
            _fail(ctx, "size-crash", "parse/write/parse crashed (%s) on the ladder document %s" % (o, label), [rcases[k]], [o], "t2 = t1"); continue
        r = parse_rt(o)
        exp = D.flatten(d)
        if r.get("t1") != exp:
            _fail(ctx, "size-docgen-parse", "ladder document %s: the parser's tape differs from the document's (C01 territory)" % label, short, [o[:2000]], exp[:2000]); continue
        if r.get("t2") != r.get("t1"):
            _fail(ctx, "size-rt-structure", "ladder document %s (cfg %d,%d): write_tape(parse x) re-parses to a different tape: written %r" % (label, c, f, unhex(r["o1"])[:200] if not r.get("o1", "ERR").startswith("ERR") else r.get("o1")[:60]),
                  [rcases[k]], [o[:4000]], "t2 = t1 = " + exp[:300]); continue
        if r.get("o2") != r.get("o1"):
            _fail(ctx, "size-rt-idempotent", "ladder document %s (cfg %d,%d): write . parse is not a fixed point" % (label, c, f), [rcases[k]], [o[:4000]], "o2 = o1"); continue
        bad = D.indent_law(unhex(r["o1"]), c, f)
        if bad:
            _fail(ctx, "size-indent", "ladder document %s (cfg %d,%d): line %d of the written text is indented by %d characters, %d braces are open: expected %d" % (label, c, f, bad[0], bad[1], bad[2] // f if f else 0, bad[2]),
                  [rcases[k]], [o[:4000]], "indent = depth x factor"); continue
        ctx.count("size_rt_ok")
        tcases.append("writer.tape\t%d,%d,r\t%s\t%s" % (c, f, rcases[k].split("\t")[2], r["t1"])); tmeta.append((label, model))

    # ---- phase 2: exact bytes + state queries, model vs implementation (release, debug)
    small = [c for c, (l, m) in zip(tcases, tmeta) if m]
    bigc = [c for c, (l, m) in zip(tcases, tmeta) if not m]
    nt = lambda c, i: i.startswith("ok ")
    for stream, cs, prof, model in (("sizes_tape", small, "release", True), ("sizes_tape_debug", [with_profile(c, "d") for c in small], "debug", True),
                                    ("sizes_tape_big", bigc, "release", False), ("sizes_tape_big_debug", [with_profile(c, "d") for c in bigc], "debug", False)):
        impl, _ = ctx.correspond(stream, cs, nontrivial=nt, profile=prof, model=model)
        b0 = len(impl) - len(cs)
        for k, c in enumerate(cs):
            o = impl[b0 + k]
            if o in CRASH or not o.startswith("ok "):
                _fail(ctx, "size-crash", "write_tape of a ladder document: %s (%s profile)" % (o[:40], prof), [c], [o[:200]], "ok")
            elif o.split(" ")[2] != "0.1":
                _fail(ctx, "size-state", "after write_tape of a complete ladder document depth()/expecting_key() are %s (%s profile)" % (o.split(" ")[2], prof), [c], [o[:200]], "0.1")
            elif prof == "debug":
                p = c.split("\t")[1].split(",")
                bad = D.indent_law(unhex(o.split(" ")[1]), int(p[0]), int(p[1]))
                if bad:
                    _fail(ctx, "size-indent", "debug profile: line %d of the written text is indented by %d characters, expected %d" % bad, [c], [o[:4000]], "indent = depth x factor")
    sessions(ctx, _fail)


# ------------------------------------------------------------------ reused writers / write_tape at depth
BODY = Doc([Field(S("u", b"a"), "=", S("u", b"b")),
            Field(S("u", b"c"), "=", Obj([Field(S("u", b"d"), "<", Arr([S("u", b"e"), S("q", b"f g"), Arr([S("u", b"h")])])),
                                            D.Param(b"p", False, [Field(S("u", b"x"), "=", S("u", b"y"))]),
                                            Field(S("u", b"i"), "=", D.Hdr(b"rgb", Arr([S("u", b"1"), S("u", b"2"), S("u", b"3")])))])),
            Field(S("q", b"j"), "=", Arr([]))])


def sessions(ctx, _fail):
    rng = ctx.rng
    body_x = D.render(BODY, "min")
    body_t = D.flatten(BODY)
    seg_body = "t=%s|%s" % (hexs(body_x), body_t)
    seg_small = "t=%s|%s" % (hexs(b"a={b}"), "U:61 A:3:0 U:62 E:1")    # three indented lines: the model's output stays small
    cases, meta = [], []         # meta: (kind, info, model?)

    # ---- shift: D cheap opens (`{=` per level, no indentation is written for them) then the tape
    pairs = set()
    for w in (15, 16, 17, 255, 256, 257, 1023, 1024, 1025, 4095, 4096, 4097, 65533, 65534, 65535, 65536, 65537):
        ds = [dp for dp in range(1, w + 1) if w % dp == 0 and w // dp <= 255]
        for dp in (ds[:3] + ds[-2:]) if w < 65000 else ds[:2]:
            pairs.add((dp, w // dp))
    for dp in D.ladder(65536, lo=1):
        pairs.add((dp, 1 if dp > 300 else rng.choice([1, 2, 3])))
    pairs |= {(5, 0), (300, 0), (258, 255), (256, 255), (17, 15), (16, 16), (1, 16), (1, 17), (2, 8), (3, 5), (64, 4), (65, 4), (128, 2), (129, 2), (256, 1)}
    shift = [(dp, f, rng.choice([32, 9])) for (dp, f) in sorted(pairs) if dp > 0]
    # the depth-0 reference of every (factor, indent char) used comes first
    wide = lambda dp, f: dp * f > 20000
    refs = sorted({(f, c, wide(dp, f)) for (dp, f, c) in shift})
    for (dp, f, c, small) in [(0, f, c, sm) for (f, c, sm) in refs] + [(dp, f, c, wide(dp, f)) for (dp, f, c) in shift]:
        opens = ";".join(["os"] + ["op:6;os"] * (dp - 1)) if dp else "-"
        cases.append("writer.session\t%d,%d,r\tc=%s\t%s" % (c, f, opens, seg_small if small else seg_body)); meta.append(("shift", (dp, f, c, small), dp <= 4097))
    # ---- n write_tape calls on one writer (D15) and the single write_tape of the concatenated document
    for n in D.ladder(1025, lo=1, extra=(300,)):
        docs = [Doc([Field(S("u", b"k%d" % i), "=", [S("u", b"v"), Arr([S("u", b"1"), S("u", b"2")]), Obj([Field(S("q", b"a"), ">", S("u", b"b"))]), Arr([])][i % 4])]) for i in range(n)]
        whole = Doc([it for d in docs for it in d.items])
        c, f = rng.choice([32, 9]), rng.choice([0, 1, 2, 9])
        cases.append("writer.session\t%d,%d,r\t%s" % (c, f, "\t".join("t=%s|%s" % (hexs(D.render(d, "min")), D.flatten(d)) for d in docs)))
        meta.append(("many", (n, D.flatten(whole)), n <= 300))
        cases.append("writer.session\t%d,%d,r\tt=%s|%s" % (c, f, hexs(D.render(whole, "spaced")), D.flatten(whole)))
        meta.append(("single", (n, D.flatten(whole)), n <= 300))
    # ---- write_tape inside k objects opened by well-formed calls (D5), closed again: re-parses to the wrapped document
    for k in D.ladder(1025, lo=1, extra=(12, 130, 300)):
        f = 0 if k > 300 else rng.choice([1, 2, 3])
        c = rng.choice([32, 9])
        v = Obj([Field(S("u", b"f"), "=", S("u", b"1"))] + BODY.items)
        for j in range(k - 1, 0, -1):
            v = Obj([Field(S("u", b"w%d" % j), "=", v)])
        wrapped = Doc([Field(S("u", b"w0"), "=", v), Field(S("u", b"z"), "=", S("u", b"2"))])
        opens = ";".join("u:%s;os" % hexs(b"w%d" % j) for j in range(k)) + ";u:66;u:31"
        closes = ";".join(["e"] * k) + ";u:7a;u:32"
        cases.append("writer.session\t%d,%d,r\tc=%s\t%s\tc=%s" % (c, f, opens, seg_body, closes)); meta.append(("wrap", (k, f, c, D.flatten(wrapped)), k <= 300))

    small = [k for k, m in enumerate(meta) if m[2]]
    big = [k for k, m in enumerate(meta) if not m[2]]
    outs = {}
    nt = lambda c, i: " " in i and "7b" in i.split(" ")[0]
    for stream, idx, prof, model in (("sizes_session", small, "release", True), ("sizes_session_debug", small, "debug", True),
                                     ("sizes_session_big", big, "release", False), ("sizes_session_big_debug", big, "debug", False)):
        cs = [cases[k] if prof == "release" else with_profile(cases[k], "d") for k in idx]
        impl, _ = ctx.correspond(stream, cs, nontrivial=nt, profile=prof, model=model)
        b0 = len(impl) - len(cs)
        for j, k in enumerate(idx):
            outs[(prof, k)] = impl[b0 + j]
    base_out = {}
    for prof in ("release", "debug"):
        last_many = None
        for k, (kind, info, model) in enumerate(meta):
            o = outs.get((prof, k), "MISSING")
            case = cases[k] if prof == "release" else with_profile(cases[k], "d")
            short = [case if len(case) < 300000 else case[:1500] + "...(%s %s)" % (kind, info[:2])]
            if o in CRASH or " " not in o:
                _fail(ctx, "size-crash", "writer session (%s %s, %s profile): %s" % (kind, info[:2], prof, o[:40]), short, [o[:200]], "bytes + log"); continue
            out, log = o.split(" ")
            segs = log.split("/")
            if any(s.startswith("TE") or ("E" in s and not s.startswith("T")) for s in segs):
                _fail(ctx, "size-reuse", "a call of a well-formed session (%s %s, %s profile) returned an error" % (kind, info[:2], prof), short, [o[:300]], "no error"); continue
            if kind == "shift":
                dp, f, c, sm = info
                raw = unhex(out)
                prefix = (b"{" + b"=\n{" * (dp - 1)) if dp else b""
                if dp == 0:
                    base_out[(prof, f, c, sm)] = raw
                    continue
                ref = base_out.get((prof, f, c, sm))
                if ref is None:
                    b = D.indent_law(raw[len(prefix):], c, f, base=dp)
                    if raw[:len(prefix)] != prefix or b:
                        _fail(ctx, "size-shift", "write_tape inside %d open containers (factor %d, %s profile): line %s indented by %s, expected %s" % ((dp, f, prof) + (b or ("prefix", "?", "?"))), short, [o[:300]], "indent = depth x factor")
                    else:
                        ctx.count("size_shift_ok")
                    continue
                ind = bytes([c]) * (dp * f)
                want = prefix + b"\n" + ind + ref.replace(b"\n", b"\n" + ind)
                if raw != want:
                    b = D.indent_law(raw[len(prefix):], c, f, base=dp) if raw[:len(prefix)] == prefix else ("prefix", "?", "?")
                    _fail(ctx, "size-shift", "write_tape inside %d open containers (factor %d, %s profile) is not the depth-0 text indented by %d characters%s" % (dp, f, prof, dp * f, (": line %s has %s, expected %s" % b) if b else ""),
                          short, [o[:300]], "depth-0 text shifted by depth x factor")
                elif segs[-1] != "T%d.1" % dp:
                    _fail(ctx, "size-state", "after write_tape inside %d open containers depth()/expecting_key() are %s" % (dp, segs[-1]), short, [o[:300]], "T%d.1" % dp)
                else:
                    ctx.count("size_shift_ok")
            else:
                if kind == "many":
                    last_many = out
                elif kind == "single":
                    if last_many is not None and out != last_many:
                        _fail(ctx, "size-reuse", "%d write_tape calls on one writer (%s profile) print something else than one write_tape of the concatenated document" % (info[0], prof), [cases[k - 1][:3000], case[:3000]], [outs.get((prof, k - 1), "")[:300], o[:300]], "equal bytes")
                    last_many = None
                fin = segs[-1].split(",")[-1].lstrip("T")
                if fin != "0.1":
                    _fail(ctx, "size-state", "after a complete session (%s %s, %s profile) depth()/expecting_key() are %s" % (kind, info[:1], prof, fin), short, [o[:300]], "0.1")
                if kind == "wrap":
                    kk, f, c, _ = info
                    b = D.indent_law(unhex(out), c, f)
                    if b:
                        _fail(ctx, "size-indent", "write_tape inside %d objects (factor %d, %s profile): line %d indented by %d, expected %d" % ((kk, f, prof) + b), short, [o[:300]], "indent = depth x factor")
    rc = ["writer.session_reparse\t" + cases[k].split("\t", 1)[1] for k, m in enumerate(meta) if m[0] != "shift"]
    rm = [m for m in meta if m[0] != "shift"]
    impl, _ = ctx.correspond("sizes_session_reparse", rc, model=False, nontrivial=lambda c, i: " A:" in i or " O:" in i)
    b0 = len(impl) - len(rc)
    for k, (kind, info, model) in enumerate(rm):
        want = "ok 0 " + info[-1]
        o = impl[b0 + k]
        if o != want:
            _fail(ctx, "size-reuse", "writer session (%s %s) describes %s but its output parses to %s" % (kind, info[:1], want[:200], o[:200]), [rc[k][:3000]], [o[:2000]], want[:2000])
        else:
            ctx.count("size_session_reparse_ok")
