"""C01, wave 6 (s_c01): SIZE / BOUNDARY ladders (audit/C01.md, section "Size dimensions").

One size-like dimension at a time on an otherwise small input, stepped through

    0 1 2 3 7 8 9 15 16 17 31 32 33 63 64 65 127 128 129 255 256 257 1023 1024 1025 4095 4096 4097 65533 65534 65535 65536

(cut where it buys nothing: depth / ghost / operator runs / per-kind counts stop at 4097; top-level field counts, duplicate keys,
array lengths -- hence token counts up to 131 075 -- and every scalar / gap / comment length go to 65536), plus the pairs the code
couples (scalar length x left padding x distance to the end of input: the SSE2 loop of split_at_scalar stops `min(16, len)` bytes
before the END OF THE INPUT, not of the scalar; token count x Vec capacity at the moment of a MixedContainer insert; tape index of a container x nesting; tape size x reuse).

Every case carries its expected tape BY CONSTRUCTION: the text and the tape are written side by side by `Doc` below (a bracket
matcher with an explicit stack: no recursion, no look-ahead rule, nothing shared with the parser, with props/textdoc.flatten or with the
Coq model).  Oracle `size-ladder`: the real parser's tape is that tape.

* ladder          cases whose tape has <= MODEL_TOKENS tokens and whose text has <= MODEL_BYTES bytes: implementation, extracted Coq
                  model (TextTape.parse) and the expected tape, all three compared.
* ladder_big      the longer cases (the extracted model is quadratic in the number of tokens -- 0.4 s at 1000 tokens, 10 s at 4000 --
                  and in the scalar length beyond 4 KiB): implementation against the expected tape only (model=False).
* ladder_scan     split_at_scalar / parse_quote_scalar (+ their fallbacks) through the hooks: lengths of the ladder x the first
  ladder_scan_big boundary / quote / backslash byte at the positions {0, 1, 15, 16, 17, n-17, n-16, n-15, n-2, n-1, n/2, none}; oracle
                  `size-ladder-scan` = the byte-wise specifications; model up to 4097 bytes, none beyond.
* ladder_chain    one tape reused 2 .. 1025 times; a big document / a rejected document that leaves its tokens behind / an empty one /
                  a BOM between small ones (tape size x reuse); oracle `size-ladder-chain` = the expected tape of every step.
* nonx86 (part)   the ladder lengths 63 .. 1025 for the SWAR quote scanner and the plain split under Miri (`miri_cases`, appended to
                  C01_more's nonx86 stream).
"""
from vlib import hexs
from props import textdoc as td

LADDER = [0, 1, 2, 3, 7, 8, 9, 15, 16, 17, 31, 32, 33, 63, 64, 65, 127, 128, 129, 255, 256, 257, 1023, 1024, 1025, 4095, 4096, 4097,
          65533, 65534, 65535, 65536]
L4K = [n for n in LADDER if n <= 4097]
DEPTHS = [1, 2, 3, 7, 8, 9, 15, 16, 17, 31, 32, 33, 63, 64, 65, 127, 128, 129, 130, 255, 256, 257, 300, 1023, 1024, 1025, 4095, 4096, 4097]
CHAINS = [2, 3, 7, 8, 9, 15, 16, 17, 31, 32, 33, 63, 64, 65, 127, 128, 129, 255, 256, 257, 300, 1023, 1024, 1025]
MODEL_TOKENS = 600
MODEL_BYTES = 4400

BOUND = set([9, 10, 11, 12, 13, 32, 33, 35, 60, 61, 62, 91, 93, 123, 125])
WORD_A = b"abcdefghijklmnopqrstuvwxyz0123456789_.-'|%:"
WORD_B = WORD_A + b"\"?;@\\/" + bytes([0x80, 0xa2, 0xbd, 0xe9, 0xef, 0xbb, 0xbf, 0xff])     # no boundary byte
HIGH = bytes(range(0x80, 0x100))
NONB = bytes(x for x in range(256) if x not in BOUND)
QPLAIN = b"abcxyz019_. {}=#[]<>!;\n\t\r@\xe9\xff"              # no quote, no backslash
COMMENT = b"abc xyz{}\"=#[]<>!?;\\\r\t@\xe9\xef\xbb\xbf"       # no line feed
VAREXPR = b"ab 1+2*{}=#\"<>[!\n\t"                             # no ']'
GAP = b" \t\n\r;"
OPS7 = ["=", "==", "<", "<=", ">", ">=", "!="]
BOM = b"\xef\xbb\xbf"

_TABLES = {}


def rb(rng, n, alphabet):
    """n random bytes over `alphabet` (one randbytes call + translate: a 64 KiB scalar costs microseconds)"""
    if n <= 0:
        return b""
    t = _TABLES.get(alphabet)
    if t is None:
        t = _TABLES[alphabet] = bytes(alphabet[i % len(alphabet)] for i in range(256))
    return rng.randbytes(n).translate(t)


def word(rng, n, first=WORD_A, rest=WORD_B):
    """bare word of exactly n >= 1 bytes: plain first byte (not '"', '@', ';'), then any non-boundary bytes"""
    return rb(rng, 1, first) + rb(rng, n - 1, rest)


def gap(rng, n, after_word=False):
    g = rb(rng, n, GAP)
    if after_word and g[:1] == b";":
        g = b" " + g[1:]              # ';' is not a boundary byte: directly after a bare word it would extend the word
    return g


# ------------------------------------------------------------------ text and tape written side by side
class Doc:
    """The text of a document and the tape it denotes, appended token by token.  `sep` goes between two tokens unless the
    second one is appended with glue=True (`sep` starts with a boundary byte, so it may follow a bare word)."""

    def __init__(self, sep=b" "):
        self.out = bytearray()
        self.t = []
        self.st = []
        self.sep = sep
        self.first = True

    def raw(self, b, glue=False):
        if not self.first and not glue:
            self.out += self.sep
        self.first = False
        self.out += b
        return self

    def text(self, b):
        """bytes that leave no token: gaps, comments, ghosts, extraneous braces"""
        self.out += b
        return self

    def tok(self, x):
        self.t.append(x)
        return self

    def u(self, w, glue=False, tag="U"):
        self.raw(w, glue)
        return self.tok("%s:%s" % (tag, hexs(w)))

    def q(self, body, glue=False):
        self.raw(b'"' + body + b'"', glue)
        return self.tok("Q:" + hexs(body))

    def op(self, o, on_tape=None, glue=True):
        """operator; `=` leaves a token only inside a key-value list (on_tape=True)"""
        if o == "?=" and glue:
            self.out += b" "          # '?' is not a boundary byte: `a?=b` has the key `a?`
        self.raw(o.encode(), glue)
        if (o != "=") if on_tape is None else on_tape:
            self.tok("OP:%d" % td.OPS[o])
        return self

    def kv(self, k, v, o="="):
        return self.u(k).op(o).u(v, glue=True)

    def param(self, name, undefined=False):
        self.raw(b"[[" + (b"!" if undefined else b"") + name + b"]")
        return self.tok(("N:" if undefined else "P:") + hexs(name))

    def open(self, kind, glue=True, brace=True):
        if brace:
            self.raw(b"{", glue)
        self.st.append(len(self.t))
        self.t.append(kind)
        return self

    def close(self, mixed=0, brace=b"}", glue=False, write=True):
        if write:
            self.raw(brace, glue)
        i = self.st.pop()
        self.t[i] = "%s:%d:%d" % (self.t[i], len(self.t), mixed)
        self.t.append("E:%d" % i)
        return self

    def done(self):
        assert not self.st
        return bytes(self.out), (" ".join(self.t) if self.t else "-")


# ------------------------------------------------------------------ the ladders
def build(rng):
    """list of (dimension, n, text, expected tape, bom)"""
    out = []

    def add(dim, n, d, bom=False, pre=b"", post=b""):
        data, tape = d.done()
        out.append((dim, n, (BOM if bom else b"") + pre + data + post, tape, bom))

    def sp():
        return rng.choice([b" ", b" ", b"\n", b"\t", b"\r\n"])

    # ---- A. lengths of scalars
    for n in LADDER:
        if n >= 1:
            add("len_unquoted_value", n, Doc(b"").u(b"k").op("=").u(word(rng, n), glue=True))               # ends with the input
            add("len_unquoted_value_sp", n, Doc().u(b"k").op("=", glue=False).u(word(rng, n)), post=sp())
            add("len_unquoted_key", n, Doc(b"").u(word(rng, n)).op(rng.choice(td.OPL)).u(b"v", glue=True))
            add("len_unquoted_item", n, Doc().u(b"a").op("=").open("A").u(word(rng, n)).u(word(rng, n)).close())
            add("len_unquoted_hibytes", n, Doc().kv(b"k", word(rng, n, first=HIGH, rest=HIGH)))
            add("len_variable", n, Doc().u(b"k").op("=").u(b"@" + word(rng, n)[1:], glue=True).kv(b"l", b"m"))
            add("len_param_name", n, Doc().u(b"a").op("=").open("O").param(word(rng, n, rest=WORD_A)).u(b"1").raw(b"]").close())
            add("len_undef_param_name", n, Doc().u(b"a").op("=").open("O").param(word(rng, n, rest=WORD_A), True).u(b"1").raw(b"]").kv(b"x", b"y").close())
            add("len_param_value", n, Doc().param(b"p").u(word(rng, n)).raw(b"]").kv(b"x", b"y"))
            add("len_param_first_key", n, Doc().param(b"p").open("O", brace=False).kv(word(rng, n), b"v").close(brace=b"]"))
            add("len_header_name", n, Doc().u(b"c").op("=").u(word(rng, n, rest=WORD_A), tag="H").open("A", glue=False).u(b"1").u(b"2").close().kv(b"x", b"y"))
        # quoted: the content has n bytes
        add("len_quoted_value", n, Doc(b"").u(b"k").op("=").q(rb(rng, n, QPLAIN), glue=True))            # closing quote = last byte of the input
        add("len_quoted_value_sp", n, Doc().u(b"k").op("=").q(rb(rng, n, QPLAIN)).kv(b"l", b"m"))
        add("len_quoted_key", n, Doc().q(rb(rng, n, QPLAIN)).op(rng.choice(td.OPL)).q(rb(rng, min(n, 3), QPLAIN)))
        if n >= 2:
            # one escape: first, last, around the first block edge, in the middle, around the last block edge
            for p in sorted(set(x for x in (0, n - 2, 14, 15, 16, n // 2, n - 17, n - 18) if 0 <= x <= n - 2)):
                b = bytearray(rb(rng, n, QPLAIN))
                b[p:p + 2] = rng.choice([b'\\"', b"\\\\"])
                add("len_quoted_escape_at", n, Doc().u(b"k").op("=").q(bytes(b), glue=True).kv(b"l", b"m"))
            add("count_escapes", n // 2, Doc().u(b"k").op("=").q(b"".join(rng.choice([b'\\"', b"\\\\"]) for _ in range(n // 2)), glue=True))
        # @[ .. ]: n bytes between the brackets
        add("len_varexpr_value", n, Doc().u(b"k").op("=").u(b"@[" + rb(rng, n, VAREXPR) + b"]", glue=True).kv(b"l", b"m"))
        add("len_varexpr_key", n, Doc(b"").u(b"@[" + rb(rng, n, VAREXPR) + b"]").op("=").u(b"v", glue=True))
        add("len_varexpr_item", n, Doc().u(b"a").op("=").open("A").u(b"1").u(b"@[" + rb(rng, n, VAREXPR) + b"]").u(b"2", glue=True).close())

    # the byte order mark: 0..3 of its bytes (only all three are a mark), and 0..3 marks (only the first one is)
    for n in range(0, 4):
        add("len_bom_prefix", n, Doc().kv(BOM[:n] + b"a", b"b") if n < 3 else Doc().kv(b"a", b"b"), bom=(n == 3))
        add("count_boms", n, Doc().kv(BOM * max(n - 1, 0) + b"a", b"b"), bom=(n >= 1))

    # ---- A'. pairs: length x left padding x distance to the end of input (where the 16-byte loop hands over to the byte-wise tail)
    for n in (15, 16, 17, 31, 32, 33, 63, 64, 65, 127, 128, 129, 255, 256, 257):
        for pad in (0, 1, 7, 8, 9, 15, 16, 17):
            for dist in (0, 1, 2, 14, 15, 16, 17):
                kind = rng.choice("UUQK")
                d = Doc(b"")
                if kind == "U":
                    d.u(b"k").op("=").u(word(rng, n), glue=True)
                elif kind == "Q":
                    d.u(b"k").op("=").q(rb(rng, n, QPLAIN), glue=True)
                else:
                    d.u(word(rng, n)).op("=").u(b"v", glue=True)
                    dist = max(dist - 2, 0)
                add("pair_len_pad_eofdist", n, d, pre=b" " * pad, post=rng.choice([b" ", b"\n", b"\t"]) * dist)

    # ---- B. lengths of gaps and comments
    WS = {"sp": b" ", "tab": b"\t", "lf": b"\n", "cr": b"\r", "semi": b";", "crlf": b"\r\n"}
    for n in LADDER:
        for name, w in WS.items():
            add("len_leftpad_" + name, n, Doc().kv(b"a", b"b"), pre=(w * n)[:n], bom=(n % 2 == 1 and name in ("sp", "semi")))
        add("len_ws_key_op", n, Doc(b"").u(b"a").text(gap(rng, n, True)).op("=").u(b"b", glue=True))
        add("len_ws_op_value", n, Doc(b"").u(b"a").op("=").text(gap(rng, n)).q(b"b", glue=True).kv(b"c", b"d"))
        add("len_ws_items", n, Doc(b"").u(b"a").op("=").open("A").q(b"x", glue=True).text(gap(rng, n)).q(b"y", glue=True).close(glue=True))
        add("len_ws_open_close", n, Doc(b"").u(b"a").op("=").open("O").text(gap(rng, n)).u(b"b", glue=True).op("=").u(b"c", glue=True).text(gap(rng, n, True)).close(glue=True))
        add("len_ws_in_ghost", n, Doc(b"").q(b"a").op("=").q(b"b", glue=True).text(b"{" + gap(rng, n) + b"}").u(b"c", glue=True).op("=").u(b"d", glue=True))
        add("len_ws_in_empty_array", n, Doc(b"").u(b"a").op("=").open("A").text(gap(rng, n)).close(glue=True).kv(b"x", b"y"))
        add("len_trailing_gap", n, Doc().kv(b"a", b"b"), post=gap(rng, n, True))
        add("len_trailing_gap_autoclose", n, Doc().u(b"a").op("=").open("O").kv(b"b", b"c").close(write=False), post=gap(rng, n, True))
        # comments: n bytes between '#' and the line feed
        c1, c2 = b"#" + rb(rng, n, COMMENT) + b"\n", b"#" + rb(rng, n, COMMENT) + b"\n"
        add("len_comment_mid", n, Doc(b"").u(b"a").op("=").text(c1).u(b"b", glue=True))
        add("len_comment_first", n, Doc().kv(b"a", b"b"), pre=c1)
        add("len_comment_after_word", n, Doc(b"").u(b"a").op("=").u(b"b", glue=True).text(c1).u(b"c", glue=True).op("=").u(b"d", glue=True))
        add("len_comment_unterminated", n, Doc().kv(b"a", b"b"), post=b" " + c1[:-1])
        add("len_comment_in_array", n, Doc(b"").u(b"a").op("=").open("A").text(c1).u(b"1", glue=True).text(c2).close(glue=True))
    for n in L4K:
        d = Doc(b"").u(b"a").op("=")
        for i in range(n):
            d.text(b"#" + rb(rng, i % 3, COMMENT) + rng.choice([b"\n", b"\r\n"]))
        add("count_comments", n, d.u(b"b", glue=True))
        add("count_semicolons", n, Doc(b"").u(b"a").op("=").q(b"b", glue=True).text(b";" * n).u(b"c", glue=True).op("=").u(b"d", glue=True))

    # ---- C. counts
    for n in LADDER:
        d = Doc(sp())
        for i in range(n):
            d.kv(b"k%d" % i, b"v%d" % i)
        add("count_top_fields", n, d)
        d = Doc(b" ").u(b"a").op("=").open("A")
        for i in range(n):
            d.u(b"%d" % (i % 10))
        add("count_array_items", n, d.close())
        d = Doc(sp())
        for i in range(n):
            d.kv(b"key", b"%d" % i)
        add("count_duplicate_key", n, d)
    for n in L4K:
        if n >= 1:
            d = Doc(sp()).u(b"a").op("=").open("O")
            for i in range(n):
                d.kv(b"k%d" % i, b"v", rng.choice(["=", "=", "<", ">"]) if i == 0 else rng.choice(td.OPL))
            add("count_object_fields", n, d.close().kv(b"x", b"y"))
            d = Doc(sp()).u(b"a").op("=").open("O")
            for i in range(n):
                d.kv(b"k%d" % i, b"v")
            add("count_fields_before_autoclose", n, d.close(write=False))
            d = Doc(sp())
            for i in range(n):
                d.kv(b"k%d" % i, b"v", td.OPL[i % 8])
            add("count_operator_fields", n, d)
            # object -> n bare values (mixed tail)
            d = Doc(sp()).u(b"a").op("=").open("O").kv(b"k", b"v").tok("M")
            for i in range(n):
                if i % 5:
                    d.u(b"t%d" % i)
                else:
                    d.q(b"t%d" % i)
            add("count_object_tail", n, d.close(mixed=1))
            # array -> n key-value pairs
            d = Doc(sp()).u(b"a").op("=").open("A").u(b"1").tok("M")
            for i in range(n):
                d.u(b"k%d" % i).op(OPS7[i % 7], on_tape=True).u(b"v", glue=True)
            add("count_array_kvs", n, d.close(mixed=1))
            # a run of n operators in a key-value list
            d = Doc(b" ").u(b"a").op("=").open("A").u(b"1").tok("M").u(b"k")
            for i in range(n):
                d.op(OPS7[(i * 3) % 7], on_tape=True, glue=False)
            add("count_operator_run", n, d.u(b"v").close(mixed=1))
            d = Doc(sp()).u(b"a").op("=").open("O")
            for i in range(n):
                d.param(b"p%d" % i, i % 3 == 1).u(b"%d" % i).raw(b"]")
            add("count_parameters", n, d.close())
            d = Doc(b"").u(b"a").op("=").open("A")
            for i in range(n):
                d.q(b"q%d" % (i % 7), glue=True)
            add("count_quoted_items_glued", n, d.close(glue=True))
            # n container values: with and without the optional '=', objects / arrays / headers / empty ones
            d = Doc(sp())
            for i in range(n):
                d.u(b"k%d" % i)
                if i % 2:
                    d.op("=")
                r = i % 4
                if r == 0:
                    d.open("A", glue=bool(i % 2)).u(b"1").u(b"2").close()
                elif r == 1:
                    d.open("O").kv(b"x", b"y", rng.choice(["=", "<", ">"])).close()
                elif r == 2:
                    d.open("A", glue=False).close(glue=True)
                else:
                    d.u(b"rgb", glue=True, tag="H").open("A", glue=False).u(b"%d" % (i % 256)).close()
            add("count_container_values", n, d)
            # array of n objects (container-first array)
            d = Doc(sp()).u(b"a").op("=").open("A")
            for i in range(n):
                d.open("O", glue=(i == 0)).kv(b"k", b"%d" % i, rng.choice(["=", "<", ">"])).close()
            add("count_object_items", n, d.close())
        # ghosts: `{}` pairs that leave no token
        for inner, tag in ((b"", ""), (b" ", "_spaced")):
            g = (b"{" + inner + b"}") * n
            add("count_ghosts_top_first" + tag, n, Doc().kv(b"a", b"b"), pre=g)
            add("count_ghosts_between_fields" + tag, n, Doc().kv(b"a", b"b").text(g).kv(b"c", b"d"))
            add("count_ghosts_array_lead" + tag, n, Doc().u(b"a").op("=").open("A").text(g).u(b"1", glue=True).u(b"2").close())
            add("count_ghosts_only" + tag, n, Doc().u(b"a").op("=").open("A").text(g).close(glue=True).kv(b"x", b"y"))
            add("count_ghosts_object_lead" + tag, n, Doc().u(b"a").op("=").open("O").text(g).u(b"k", glue=True).op("=").u(b"v", glue=True).close())
            add("count_ghosts_in_object" + tag, n, Doc().u(b"a").op("=").open("O").kv(b"k", b"v").text(g).kv(b"l", b"m").close())
        d = Doc(b" ").u(b"a").op("=").open("A").u(b"1")
        for i in range(n):
            d.open("A", glue=False).close(glue=True)
        add("count_empty_array_items", n, d.close())
        add("count_extra_close_braces", n, Doc().kv(b"a", b"b").text(b"}" * n).kv(b"c", b"d"))
        add("count_extra_close_first", n, Doc().kv(b"a", b"b"), pre=b"} " * n)

    # ---- C'. token count x Vec capacity at a MixedContainer insert (`reserve(len / 5)` on a fresh tape gives exactly len / 5)
    for m in (1, 2, 7, 16, 31, 64, 129, 300):
        for delta in (-2, -1, 0, 1, 2):
            d = Doc(b" ").u(b"a").op("=").open("A")
            for i in range(m):
                d.u(b"1")
            d.tok("M").u(b"k").op("=", on_tape=True).u(b"v", glue=True).close(mixed=1)
            data, tape = d.done()
            padn = (m + 3 + delta) * 5 - len(data)      # tokens on the tape when the marker is inserted: a, A, m items, k
            if padn >= 0:
                out.append(("pair_tokens_capacity_insert", m, data + b" " * padn, tape, False))

    # ---- C''. tape index of a container x nesting: 2n scalar tokens first, then containers of every kind whose links (`end:` = parent
    # while open, End(i), the grand-parent look-up at each close) are tape indices >= 2n
    for n in LADDER + [32766, 32767, 32768, 32769]:          # the outer object sits at tape index 2n + 1: 65533 65535 65537 65539
        d = Doc(b" ")
        for i in range(n):
            d.kv(b"k", b"%d" % (i % 10))
        d.u(b"a").op("=").open("O").u(b"b").op("=").open("O").kv(b"c", b"d", "<").close().u(b"e").op("=").open("A").u(b"1").open("A", glue=False).u(b"2").close().close()
        d.u(b"f").op("=").open("A").u(b"1").tok("M").kv(b"k", b"v", "==").close(mixed=1).u(b"g").open("A", glue=False).close(glue=True)
        d.u(b"h").op("=").u(b"rgb", glue=True, tag="H").open("A", glue=False).u(b"3").close().close().kv(b"x", b"y")
        d.param(b"p").open("O", brace=False).kv(b"q", b"r").close(brace=b"]").kv(b"z", b"w")
        add("pair_tokens_before_nesting", n, d)

    # ---- D. depth
    for n in DEPTHS:
        d = Doc(b"")
        for i in range(n):
            d.u(b"a", glue=True).op("=").open("O")
        d.kv(b"x", b"y")
        for i in range(n):
            d.close(glue=True)
        add("depth_objects", n, d)
        # the outermost brace missing: the object is closed by the end of input
        d = Doc(b"")
        for i in range(n):
            d.u(b"a", glue=True).op("=").open("O")
        d.kv(b"x", b"y")
        for i in range(n):
            d.close(glue=True, write=(i < n - 1))
        add("depth_objects_last_brace_missing", n, d)
        d = Doc(b"").u(b"a").op("=")
        for i in range(n):
            d.open("A")
        d.u(b"x", glue=True)
        for i in range(n):
            d.close(glue=True)
        add("depth_arrays_container_first", n, d)
        d = Doc(b" ").u(b"a").op("=")
        for i in range(n):
            d.open("A").u(b"%d" % (i % 10))
        for i in range(n):
            d.close()
        add("depth_arrays_scalar_first", n, d)
        # object / array alternating: a = { k = { 1 { k = { 1 .. } } } }
        d = Doc(b" ").u(b"a").op("=")
        for i in range(n):
            if i % 2 == 0:
                d.open("O", glue=(i == 0)).u(b"k").op(rng.choice(["=", "<", ">"]))
            else:
                d.open("A").u(b"1")
        if n % 2 == 1:
            d.u(b"v", glue=True)
        for i in range(n):
            d.close()
        add("depth_alternating", n, d)
        # array -> key-value list inside the key-value list of the enclosing one (wf_doc_mixed, class E3)
        d = Doc(b" ").u(b"a").op("=")
        for i in range(n):
            d.open("A").u(b"1").tok("M").u(b"k").op("=", on_tape=True)
        d.u(b"v")
        for i in range(n):
            d.close(mixed=1)
        add("depth_mixed_kv_lists", n, d)
        # object tails (class E2): a = { k = v t u { k = v t u { .. } } }
        d = Doc(b" ").u(b"a").op("=")
        for i in range(n):
            d.open("O", glue=(i == 0)).kv(b"k", b"v").tok("M").u(b"t").u(b"u")
        for i in range(n):
            d.close(mixed=1)
        add("depth_object_tails", n, d)
        # headers over objects
        d = Doc(b" ")
        for i in range(n):
            d.u(b"c").op("=").u(b"rgb", tag="H").open("O", glue=False)
        d.kv(b"x", b"1")
        for i in range(n):
            d.close()
        add("depth_headers", n, d)
        # parameter objects: [[p] k = { [[p] k = { .. x = y .. } ] } ]
        d = Doc(b" ")
        for i in range(n):
            d.param(b"p").open("O", brace=False).u(b"k").op("=").open("O")
        d.kv(b"x", b"y")
        for i in range(n):
            d.close().close(brace=b"]")
        add("depth_parameter_objects", n, d)
    return out


# ------------------------------------------------------------------ scanners
def split_spec(d):
    idx = max(next((i for i, x in enumerate(d) if x in BOUND), len(d)), 1)
    return "%s %s" % (hexs(d[:idx]), hexs(d[idx:]))


def quote_spec(d):
    pos = 1
    while pos < len(d):
        if d[pos] == 0x5c:
            pos += 2
        elif d[pos] == 0x22:
            return "%s %s" % (hexs(d[1:pos]), hexs(d[pos + 1:]))
        else:
            pos += 1
    return "ERR"


def positions(n, few=False):
    ps = (0, 16, n - 17, n - 16, n - 1, n // 2) if few else (0, 1, 15, 16, 17, n - 17, n - 16, n - 15, n - 2, n - 1, n // 2)
    return sorted(set(p for p in ps if 0 <= p < n)) + [None]


def scan_cases(rng, ladder, few=False):
    cases = []
    bl = sorted(BOUND)
    for n in ladder:
        for pos in positions(n, few):
            if n >= 1:
                b = bytearray(rb(rng, n, NONB))
                if pos is not None:
                    b[pos] = rng.choice(bl)
                    for _ in range(rng.choice([0, 0, 1, 3])):       # later boundary bytes must not matter
                        b[rng.randrange(pos, n)] = rng.choice(bl)
                cases.append("tt.split\t" + hexs(b))
                if pos in (0, 16, n - 1, None):
                    cases.append("tt.split_fb\t" + hexs(b))
            q = bytearray(rb(rng, n, b"abcxyz {}=#\xe9\n"))
            if pos is not None:
                q[pos] = 0x22
            cases.append("tt.quote\t" + hexs(b'"' + bytes(q)))
            if pos in (0, 16, n - 1, None):
                cases.append("tt.quote_fb\t" + hexs(b'"' + bytes(q)))
            # a backslash before the quote: at the start, directly before it (escaped quote), two before, one block before,
            # at the start of the quote's block, half way
            if pos is not None and pos >= 1:
                bss = (0, pos - 1, pos - 17) if few else (0, pos - 1, pos - 2, pos - 16, pos - 17, (pos // 16) * 16, pos // 2)
                for bs in sorted(set(x for x in bss if 0 <= x < pos)):
                    q2 = bytearray(q)
                    q2[bs] = 0x5c
                    if rng.random() < 0.5 and pos + 2 < n:
                        q2[rng.randrange(pos + 1, n)] = 0x22     # a later quote for the escaped one
                    cases.append("tt.quote\t" + hexs(b'"' + bytes(q2)))
    return cases


# ------------------------------------------------------------------ the streams
def run_part(ctx):
    rng = ctx.rng
    lad = build(rng)
    small, big = [], []
    for item in lad:
        dim, n, data, tape, bom = item
        (small if tape.count(" ") + 1 <= MODEL_TOKENS and len(data) <= MODEL_BYTES else big).append(item)
    for stream, items, model in (("ladder", small, True), ("ladder_big", big, False)):
        cases = ["tt.parse\t" + hexs(x[2]) for x in items]
        impl, _ = ctx.correspond(stream, cases, nontrivial=lambda c, i: i.startswith("ok"), model=model)
        base = len(impl) - len(cases)
        bad = []
        for k, (dim, n, data, tape, bom) in enumerate(items):
            ctx.count("size_" + dim)
            if impl[base + k] != "ok %d %s" % (1 if bom else 0, tape):
                bad.append((len(data), k))
        for _, k in sorted(bad):          # smallest failing inputs first: at most 4 are kept per class
            dim, n, data, tape, bom = items[k]
            want = "ok %d %s" % (1 if bom else 0, tape)
            o = impl[base + k]
            ctx.fail("size-ladder", "dimension %s at %d (input of %d bytes, %d tokens expected): parse(%r%s) = %s, by construction the document is %s" % (
                dim, n, len(data), tape.count(" ") + 1, data[:120], "..." if len(data) > 120 else "", _clip(o), _clip(want)), [cases[k]], [_clip(o, 2000)], _clip(want, 2000))
        ctx.count("size_cases_" + stream, len(items))

    # ---- scanners
    for stream, ladder, model in (("ladder_scan", L4K, True), ("ladder_scan_big", [n for n in LADDER if n > 4097], False)):
        cases = scan_cases(rng, ladder, few=not model)
        impl, _ = ctx.correspond(stream, cases, nontrivial=lambda c, i: True, model=model)
        base = len(impl) - len(cases)
        bad = []
        for k, c in enumerate(cases):
            kind, h = c.split("\t")
            d = b"" if h == "-" else bytes.fromhex(h)
            want = split_spec(d) if kind.startswith("tt.split") else quote_spec(d)
            if impl[base + k] != want:
                bad.append((len(d), k, want))
        for _, k, want in sorted(bad):
            kind, h = cases[k].split("\t")
            ctx.fail("size-ladder-scan", "%s on %d bytes = %s, the byte-wise specification gives %s" % (kind, len(h) // 2, _clip(impl[base + k]), _clip(want)),
                     [cases[k]], [_clip(impl[base + k], 2000)], _clip(want, 2000))

    # ---- reuse: chain length, and tape size x reuse
    chains = []

    def small_doc(i):
        d = Doc(b" ")
        r = i % 5
        if r == 0:
            d.kv(b"k%d" % i, b"v")
        elif r == 1:
            d.u(b"a").op("=").open("A").u(b"%d" % i).close()
        elif r == 2:
            d.u(b"a").op("=").open("O").kv(b"b", b"%d" % i, "<").close()
        elif r == 3:
            d.q(b"q%d" % i).op(">=").q(b"")
        data, tape = d.done()          # r == 4: the empty document
        bom = i % 7 == 3
        return (BOM if bom else b"") + data, "ok %d %s" % (1 if bom else 0, tape)

    def big_doc(n, kind):
        d = Doc(b" ")
        if kind == "fields":
            for i in range(n):
                d.kv(b"k%d" % i, b"v")
        else:
            d.u(b"a").op("=").open("A")
            for i in range(n):
                d.u(b"7")
            d.close()
        data, tape = d.done()
        return data, "ok 0 " + tape

    for n in CHAINS:
        chains.append(("reuse_chain_length", n, [small_doc(i + n) for i in range(n)]))
    rej = [(b"a={", "ERR"), (b'a="x', "ERR"), (b"a=}", "ERR"), (b"a={1 2", "ERR"), (b"a={b={c=d", "ERR")]
    for n in (16, 64, 257, 1025, 4097, 16385, 65536):
        for kind in ("fields", "array") if n < 65536 else ("array",):
            b1 = big_doc(n, kind)
            b2 = big_doc(n // 2 + 1, "array")
            junk = (b1[0] + b" x={", "ERR")          # rejected at the very end: its tokens stay on the tape
            chains.append(("pair_tape_size_reuse", n, [small_doc(1), b1, small_doc(2), (b"", "ok 0 -"), b1, rng.choice(rej), small_doc(3), b2, (BOM, "ok 1 -"), b1,
                                                        small_doc(4), junk, small_doc(5), junk, b2]))
    cases = ["tt.chain\t" + "\t".join(hexs(d) for d, _ in docs) for _, _, docs in chains]
    impl, _ = ctx.correspond("ladder_chain", cases, nontrivial=lambda c, i: True, model=False)
    base = len(impl) - len(cases)
    for k, (dim, n, docs) in enumerate(chains):
        want = " | ".join(w for _, w in docs)
        ctx.count("size_" + dim)
        if impl[base + k] != want:
            got = impl[base + k].split(" | ")
            step = next((j for j, (_, w) in enumerate(docs) if j >= len(got) or got[j] != w), 0)
            ctx.fail("size-ladder-chain", "dimension %s at %d: parse number %d of %d into one tape gives %s, by construction the document is %s" % (
                dim, n, step + 1, len(docs), _clip(got[step] if step < len(got) else "?"), _clip(docs[step][1])), [cases[k]], [_clip(impl[base + k], 2000)], _clip(want, 2000))


def miri_cases(rng):
    """longer haystacks for the cfg(not(target_arch = "x86_64")) scanners (appended to C01_more's nonx86 stream).  Miri needs about
    a second per 256 input bytes on a busy machine (hex decoding included), hence 63 .. 257 at eight positions and 1023 .. 1025 at two (quote scanner only)."""
    out = []
    bl = sorted(BOUND)
    for n in (63, 64, 65, 127, 128, 129, 255, 256, 257, 1023, 1024, 1025):
        ps = (0, 7, 8, n - 9, n - 8, n - 7, n - 1, None) if n < 1000 else (n - 1, None)
        for pos in ps:
            q = bytearray(rb(rng, n, b"abcxyz {}=#\xe9"))
            if pos is not None:
                q[pos] = 0x22
                if pos > 9 and rng.random() < 0.4:
                    q[rng.choice([pos - 1, pos - 8, pos - 9, pos // 2])] = 0x5c
            out.append("tt.quote\t" + hexs(b'"' + bytes(q)))
        for pos in ((n - 1, None) if n < 1000 else ()):
            b = bytearray(rb(rng, n, b"abcxyz019_.-\x80\xe9\"'@?;:"))
            if pos is not None:
                b[pos] = rng.choice(bl)
            out.append("tt.split\t" + hexs(b))
    return out


def _clip(s, n=300):
    s = str(s)
    return s if len(s) <= n else s[:n // 2] + " ...[%d bytes]... " % (len(s) - n) + s[-n // 2:]
