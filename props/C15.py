"""C15 Well-formed sequences of writer calls parse back to exactly what was written."""
import random, re, struct
from vlib import hexs, unhex
from props import docgen
from props.docgen import S, Field, Obj, Arr, Hdr, Doc

RULE = ("call lists derived from abstract documents (props/docgen.py) with every container-start flavour (write_object_start / "
        "write_array_start / write_start), explicit vs implicit '=', typed values (i32/u32/i64/u64 incl. boundaries, f32/f64 of moderate "
        "magnitude, bool, Date/DateHour/UniformDate, rgb, headers), write_binary forwarding of every BinaryToken kind, arbitrary byte "
        "payloads for write_quoted (all 256 byte values, trailing backslash/newline/quote), and arbitrary ill-formed call lists over the "
        "whole call alphabet; indent_char in {space, tab} x factor 0..9 (plus exotic ones for model/implementation comparison); release "
        "and debug profiles. non-trivial = at least one container or operator or escape was written. "
        "Wave 4 (props/C15_extra.py): at_unknown_start()/at_array_value() against a reference derived from the document; floats over the "
        "whole domain Scalar::to_f64 reads back (zero, -0, 1e-5 <= |x| < 2^53; f32 from 1e-13), write_f32/f64_precision (0..12 places), "
        "non-finite and huge/tiny values (structure only); bool / Date / DateHour / UniformDate / iso_8601 / unknown-token read-back; "
        "3..8 write_quoted calls per writer alternating escape / no escape; arbitrary sessions mixing calls, write_tape in any state and "
        "raw inner() writes; builder defaults. "
        "Wave 6 (props/C15_sizes.py): size ladders 0 1 2 3 7 8 9 15 16 17 .. 65535 65536, one dimension at a time: nesting depth to 4097 "
        "(every start flavour), indent width depth x factor to 65537 with the exact expected bytes, siblings to 65536 (131072 calls in one "
        "history), payload length of every scalar call to 65536, first-escape position x tail x last byte of escape(), 1..1025 quoted "
        "writes on one writer, every digit count of the four integer types, float magnitude 1e-324..1e308 and precision 0..65535, token "
        "ids, rgb components, date years, every call repeated 300 times, ill-formed histories to 65536 calls, sessions of 300 segments")
TRUSTED = ["float Display (core::fmt) is an oracle: the text the implementation prints is passed to the model in the case; its assumed "
           "contract ([-]digits[.digits] for finite values, reads back within 2 ulp) is checked on every sampled value",
           "integer printing (itoa / core::fmt) is modelled by Date.fmt_int and exercised by correspondence",
           "the text parser, Scalar::to_i64/to_u64/to_f64 and Windows1252Encoding::decode are used as they are by the oracles"]
ASSUMPTIONS = ["floats: finite, 1e-4 <= |x| < 1e9 (f64) / 1e-3 <= |x| < 1e6 (f32) for the 2-ulp read-back",
               "unquoted payloads handed to write_unquoted / write_header are valid unquoted scalars (documented caller obligation)"]
PROFILES = ["release", "debug"]

CRASH = ("PANIC", "ABORT", "HANG")


def _fail(ctx, key, what, cases, impl=None, expect=None):
    """at most 3 recorded failures per class, so that a frequent (known) class cannot crowd out a new one"""
    n = ctx.dist.get("fail:" + key, 0)
    ctx.count("fail:" + key)
    if n < 3:
        ctx.fail(key, what, cases, impl, expect)

DPM = [0, 31, 28, 31, 30, 31, 30, 31, 31, 30, 31, 30, 31]


def rcfg(rng, profile="r"):
    return "%d,%d,%s" % (rng.choice([32, 9]), rng.randrange(0, 10), profile)


def with_profile(case, p):
    parts = case.split("\t")
    parts[1] = parts[1][:-1] + p
    return "\t".join(parts)


# ------------------------------------------------------------------ floats
def f64_bits(x):
    return struct.unpack("<Q", struct.pack("<d", x))[0]


def f32_bits(x):
    return struct.unpack("<I", struct.pack("<f", x))[0]


def bits_f64(b):
    return struct.unpack("<d", struct.pack("<Q", b))[0]


def bits_f32(b):
    return struct.unpack("<f", struct.pack("<I", b))[0]


def gen_floats(rng, n):
    out = []
    for _ in range(n):
        if rng.random() < 0.5:
            x = rng.choice([-1, 1]) * 10 ** rng.uniform(-4, 8.9)
            if rng.random() < 0.3:
                x = round(x, rng.randrange(0, 6))
            if not (1e-4 <= abs(x) < 1e9):
                x = 1.5
            out.append(("64", f64_bits(x)))
        else:
            x = rng.choice([-1, 1]) * 10 ** rng.uniform(-3, 5.9)
            if rng.random() < 0.3:
                x = round(x, rng.randrange(0, 4))
            b = f32_bits(x)
            if not (1e-3 <= abs(bits_f32(b)) < 1e6):
                b = f32_bits(2.25)
            out.append(("32", b))
    out += [("64", f64_bits(v)) for v in (0.1 + 0.2, 1.0, -1.0, 0.5, 1e-4, 123456789.125, 4.566, 6790.35609, 1 / 3.0, 2.0 / 3.0, 999999999.9999999)]
    out += [("32", f32_bits(v)) for v in (4.566, 1.0, -0.001, 0.1, 16777216.0 / 32, 1 / 3.0)]
    return out


FLOAT_RE = re.compile(rb"^-?[0-9]+(\.[0-9]+)?\Z")


def ulp_dist64(a, b):
    def key(bits):
        return bits if bits < 2 ** 63 else 2 ** 63 - bits
    return abs(key(a) - key(b))


def ulp_dist32(a, b):
    def key(bits):
        return bits if bits < 2 ** 31 else 2 ** 31 - bits
    return abs(key(a) - key(b))


# ------------------------------------------------------------------ typed documents
def gen_date_call(rng):
    y = rng.choice([rng.randrange(1, 3000), rng.randrange(-100, 10000), 1444, 1936])
    m = rng.randrange(1, 13)
    d = rng.randrange(1, DPM[m] + 1)
    which = rng.choice("dhu")
    if which == "u":
        d = min(d, 30)
        return "date:u:%d:%d:%d:0" % (y, m, d), ("%d.%02d.%02d" % (y, m, d)).encode()
    if which == "h":
        h = rng.randrange(1, 25)
        return "date:h:%d:%d:%d:%d" % (y, m, d, h), ("%d.%d.%d.%d" % (y, m, d, h)).encode()
    return "date:d:%d:%d:%d:0" % (y, m, d), ("%d.%d.%d" % (y, m, d)).encode()


INT_RANGES = {"i32": (-2 ** 31, 2 ** 31 - 1), "u32": (0, 2 ** 32 - 1), "i64": (-2 ** 63, 2 ** 63 - 1), "u64": (0, 2 ** 64 - 1)}


def gen_int(rng):
    k = rng.choice(list(INT_RANGES))
    lo, hi = INT_RANGES[k]
    v = rng.choice([lo, hi, 0, 1, hi - 1, lo + 1 if lo else 1, rng.randrange(lo, hi + 1), rng.randrange(max(lo, -1000), min(hi, 1000) + 1),
                    rng.randrange(max(lo, -10 ** 12), min(hi, 10 ** 12) + 1)])
    return k, v


def typed_doc(rng, d, floats):
    """replace some value scalars by typed writer calls; quoted scalars become payload calls (raw = escape(payload))"""
    def fn(s, role):
        if s.kind == "q":
            payload = docgen.unescape(s.raw)
            if rng.random() < 0.2:
                payload += rng.choice([b"\n", b"\\", b'"', b"\\\n", b"\n\n", b' "x" ', b"\xe9\\"])
            return S("q", docgen.escape(payload), typed="q:" + hexs(payload))
        if role in ("value", "elem") and rng.random() < 0.45:
            r = rng.random()
            if r < 0.4:
                k, v = gen_int(rng)
                return S("u", str(v).encode(), typed="%s:%d" % (k, v))
            if r < 0.55:
                b = rng.random() < 0.5
                return S("u", b"yes" if b else b"no", typed="b:%d" % b)
            if r < 0.75:
                c, t = gen_date_call(rng)
                return S("u", t, typed=c)
            if floats:
                w, bits, text = rng.choice(floats)
                return S("u", text, typed=("f64:%016x:%s" if w == "64" else "f32:%08x:%s") % (bits, hexs(text)))
        if s.raw[:2] == b"@[":
            return S("u", b"@v")      # write_unquoted payloads must be valid unquoted scalars; keep @variables simple
        return s
    return docgen.map_scalars(d, fn)


def expected_depths(calls):
    """reference for depth() and the error flag: a counter"""
    d, out = 0, []
    for c in calls.split(";"):
        err = False
        n = c.split(":")[0]
        if n in ("s", "os", "as") or c in ("bin:A", "bin:O"):
            d += 1
        elif n == "e" or c.startswith("bin:E") and not c.startswith("bin:EQ"):
            if d == 0:
                err = True
            else:
                d -= 1
        out.append((err, d))
    return out


def check_log(ctx, key, case, out, calls):
    if out in CRASH or " " not in out:
        return
    log = out.split(" ")[1]
    if log == "-":
        return
    exp = expected_depths(calls)
    got = log.split(",")
    if len(got) != len(exp):
        _fail(ctx, key, "log has %d entries for %d calls" % (len(got), len(exp)), [case], [out]); return
    for j, (g, (err, d)) in enumerate(zip(got, exp)):
        ge = g.startswith("E")
        gd = int(g.lstrip("E").split(".")[0])
        if ge != err or gd != d:
            _fail(ctx, key, "after call %d (%s): error=%s depth()=%d, the calls made so far say error=%s depth=%d" % (j, calls.split(";")[j][:40], ge, gd, err, d), [case], [out], "%s%d" % ("E" if err else "", d))
            return


W1252 = {}


def w1252(b):
    if not W1252:
        for i in range(256):
            try:
                W1252[i] = bytes([i]).decode("cp1252")
            except UnicodeDecodeError:
                W1252[i] = chr(i)
    return "".join(W1252[x] for x in b)


def run(ctx, widen=False):
    rng = ctx.rng
    mul = 2 if widen else 1

    # ---- floats: the Display oracle (phase 1: what does the implementation print?)
    fl = gen_floats(rng, ctx.scale(1200, 8000) * mul)
    fcases = ["writer.fdisp\t%s\t%s" % (w, ("%016x" if w == "64" else "%08x") % b) for (w, b) in fl]
    impl, _ = ctx.correspond("float_display", fcases, model=False, nontrivial=lambda c, i: len(i) > 2)
    base = len(impl) - len(fcases)
    floats = []
    for k, (w, b) in enumerate(fl):
        t = unhex(impl[base + k]) if impl[base + k] not in CRASH else b""
        if not FLOAT_RE.match(t):
            _fail(ctx, "float-display-contract", "Display of finite float %s:%x is %r, not [-]digits[.digits]" % (w, b, t), [fcases[k]], [impl[base + k]], "[-]d+[.d+]")
            continue
        floats.append((w, b, t))
    # >>> w_wr (wave 5): the Display contract as the decidable predicate of proofs/WriterTextProofs.v, on every float text
    from props import W5 as _W5
    _W5.wfword_stream(ctx, [t for (_, _, t) in floats], _fail)
    # <<< w_wr
    # numbers written after a key and read back with Scalar::to_*: exact for integers, 2 ulp for floats
    ncalls, nmeta = [], []
    for (w, b, t) in floats:
        ncalls.append("u:6b;" + (("f64:%016x:%s" if w == "64" else "f32:%08x:%s") % (b, hexs(t)))); nmeta.append(("f" + w, b))
        if rng.random() < 0.3:
            ncalls.append("u:6b;bin:" + (("F64:%016x:%s" if w == "64" else "F32:%08x:%s") % (b, hexs(t)))); nmeta.append(("f" + w, b))
    for _ in range(ctx.scale(1500, 10000) * mul):
        k, v = gen_int(rng)
        ncalls.append("u:6b;" + ("%s:%d" % (k, v) if rng.random() < 0.7 else "bin:%s:%d" % (k.upper(), v))); nmeta.append((k, v))
    for lo, hi in INT_RANGES.values():
        for v in (lo, hi):
            k = [n for n, r in INT_RANGES.items() if r == (lo, hi)][0]
            ncalls.append("u:6b;%s:%d" % (k, v)); nmeta.append((k, v))
    ncases = ["writer.calls\t%s\t%s" % (rcfg(rng), c) for c in ncalls]
    ctx.correspond("numbers", ncases, nontrivial=lambda c, i: True)
    vcases = ["writer.values\t" + c.split("\t", 1)[1] for c in ncases]
    impl, _ = ctx.correspond("numbers_readback", vcases, model=False, nontrivial=lambda c, i: True)
    base = len(impl) - len(vcases)
    for k, (kind, v) in enumerate(nmeta):
        o = impl[base + k]
        toks = o.split(" ")
        if o in CRASH or len(toks) != 2 or not toks[1].startswith("U:"):
            _fail(ctx, "number-reparse", "key + %s %s does not parse back to two scalars: %s" % (kind, v, o[:80]), [vcases[k]], [o]); continue
        _, raw, i64, u64, f64 = toks[1].split(":")
        if kind in INT_RANGES:
            got = i64 if i64 != "-" else u64
            if got != str(v) or unhex(raw) != str(v).encode():
                _fail(ctx, "int-exact-i64min" if v == -2 ** 63 else "int-exact", "%s %d reads back as %s (text %r)" % (kind, v, got, unhex(raw)), [vcases[k]], [o], str(v))
        elif f64 == "-":
            _fail(ctx, "float-readback", "%s bits %x printed as %r does not read back" % (kind, v, unhex(raw)), [vcases[k]], [o])
        else:
            back = int(f64, 16)
            if kind == "f64":
                dist = ulp_dist64(back, v)
            else:
                dist = ulp_dist32(f32_bits(bits_f64(back)), v)
            ctx.count("float_ulp_%d" % min(dist, 3))
            if dist > 2:
                _fail(ctx, "float-2ulp", "%s bits %x printed as %r reads back %d ulp away" % (kind, v, unhex(raw), dist), [vcases[k]], [o], "<= 2 ulp")

    # ---- escape(): per function, reference = drop one trailing newline, backslash before backslash/quote
    pay = [b"", b"\n", b"\\", b'"', b"\\\n", b'"\n', b"\n\n", b"a\n", b'a"', b"a\\", b'\\"', b"abc", b'Joe "Captain" Rogers\n', bytes(range(256)), bytes(range(255, -1, -1)), b'\\' * 17, b'"' * 16 + b"\n"]
    for _ in range(ctx.scale(5000, 40000) * mul):
        n = rng.choice([1, 2, 3, 4, 7, 8, 9, 15, 16, 17, 33]) if rng.random() < 0.5 else rng.randrange(0, 24)
        alpha = rng.choice([b'\\"\nab', b'\\"\n', bytes(range(256)), b'ab c\\"'])
        pay.append(bytes(rng.choice(alpha) for _ in range(n)))
    ecases = ["writer.escape\t%s" % hexs(p) for p in pay]
    ecases += ["writer.escape_reuse\t%s\t%s" % (hexs(rng.choice(pay)), hexs(p)) for p in pay[:ctx.scale(400, 4000)]]
    impl, _ = ctx.correspond("escape", ecases, nontrivial=lambda c, i: "5c" in i)
    base = len(impl) - len(ecases)
    for k, c in enumerate(ecases):
        p = unhex(c.split("\t")[-1])
        o = impl[base + k]
        if o in CRASH or unhex(o) != docgen.escape(p):
            _fail(ctx, "escape-ref", "escape(%r) = %s, reference %r" % (p[:60], o[:120], docgen.escape(p)[:60]), [c], [o], hexs(docgen.escape(p)))
    # quoted payload through the whole pipeline: write key + quoted, parse, raw token = escape(p), unescape = p minus one newline
    qcases = ["writer.calls\t%s\tu:6b;q:%s;u:6b32;q:%s" % (rcfg(rng), hexs(p), hexs(rng.choice(pay))) for p in pay]
    ctx.correspond("quoted", qcases, nontrivial=lambda c, i: "5c" in i)
    vq = ["writer.values\t" + c.split("\t", 1)[1] for c in qcases]
    impl, _ = ctx.correspond("quoted_readback", vq, model=False, nontrivial=lambda c, i: "5c" in i)
    base = len(impl) - len(vq)
    for k, c in enumerate(vq):
        o = impl[base + k]
        ps = [unhex(x.split(":")[1]) for x in c.split("\t")[2].split(";") if x.startswith("q:")]
        toks = o.split(" ")
        qs = [t for t in toks if t.startswith("Q:")]
        if o in CRASH or len(toks) != 4 or len(qs) != 2:
            _fail(ctx, "quoted-reparse", "k=<quoted %r> k2=<quoted> does not parse back to four scalars: %s" % (ps[0][:40], o[:100]), [c], [o]); continue
        for p, q in zip(ps, qs):
            _, raw, dw, du = q.split(":")
            stripped = p[:-1] if p.endswith(b"\n") else p
            if docgen.unescape(unhex(raw)) != stripped or unhex(raw) != docgen.escape(p):
                _fail(ctx, "quoted-survives", "payload %r comes back as raw %r" % (p[:60], unhex(raw)[:80]), [c], [o], hexs(docgen.escape(p)))
            else:
                # decoded through the crate's own Windows-1252 decoder: trailing ASCII whitespace is trimmed (documented)
                exp = w1252(stripped.rstrip(b" \t\n\r\x0c"))
                if unhex(dw).decode("utf-8", "replace") != exp:
                    key = "quoted-decode-backslash" if b"\\" in p else "quoted-decode"
                    _fail(ctx, key, "payload %r decodes (Windows1252Encoding) to %r" % (p[:60], unhex(dw).decode("utf-8", "replace")[:60]), [c], [o], exp[:80])

    # ---- documents -> call lists (all start flavours, explicit/implicit '=', typed values, write_binary forwarding)
    ccases, cmeta, traces = [], [], {}
    from props import W5          # w_wr (wave 5)
    kser = {}                     # case index -> document encoding with the operator calls actually made
    for i in range(ctx.scale(4000, 25000) * mul):
        d = docgen.gen_doc(rng, rng.randrange(0, 5), rng.randrange(1, 7), params=False, ghosts=False, object_tails=False, exotic=(i % 3 != 0))
        d = typed_doc(rng, d, floats)
        tr = []
        calls = docgen.to_calls(d, rng, binary=rng.choice([0.0, 0.0, 0.3, 1.0]), trace=tr)
        if calls == "-":
            continue
        ccases.append("writer.calls\t%s\t%s" % (rcfg(rng), calls)); cmeta.append(d); traces[len(ccases) - 1] = tr
        try:
            kser[len(ccases) - 1] = W5.ser_doc(d, called=True)
        except Exception:
            pass
    # every container flavour at depth: chains crossing the 16-byte indent cache
    for i in range(ctx.scale(250, 1500)):
        v = S("u", b"x")
        for j in range(rng.choice([rng.randrange(6, 15), rng.randrange(6, 15), rng.randrange(60, 72), rng.randrange(126, 131)])):
            v = Obj([Field(S("u", b"k%d" % j), "=", v)]) if rng.random() < 0.6 else Arr([S("q", b"e"), v] + ([S("u", b"x"), S("u", b"y")] if rng.random() < 0.5 else []))
        d = typed_doc(rng, Doc([Field(S("u", b"r"), "=", v)]), floats)
        ccases.append("writer.calls\t%s\t%s" % (rcfg(rng), docgen.to_calls(d, rng))); cmeta.append(d)
    # known shape: an empty container as the first element of an array (the parser treats it as a ghost)
    for inner, n in ((Arr([]), 3), (Arr([Arr([])]), 4)):
        d = Doc([Field(S("u", b"data"), "=", Arr([inner, Arr([])]))])
        ccases.append("writer.calls\t32,2,r\t%s" % docgen.to_calls(d, rng, start_flavours=False)); cmeta.append(n)
    # >>> w_wr (wave 5): the extracted classifier K (WriterMix.k15_class) of every call list's document
    import vlib as _vl
    _ks = sorted(kser)
    _ko = _vl.run_model(["writer.kclass\t" + kser[k] for k in _ks]) if _ks else []
    ctx.evaluations += len(_ks)
    k15 = {}
    for k, o in zip(_ks, _ko):
        try:
            k15[k] = int(dict(x.split("=") for x in o.split(" "))["k15"])
            ctx.count("kclass15_%d" % k15[k])
        except Exception:
            ctx.count("kclass15_unclassified")

    def kkey(k, other):
        c = k15.get(k)
        return "calls-mixed-nested-op" if c == 2 else ("calls-mixed-mode-lost" if c == 3 else other)
    # <<< w_wr
    nt = lambda c, i: "7b" in i.split(" ")[0]
    impl, _ = ctx.correspond("calls_doc", ccases, nontrivial=nt)
    base = len(impl) - len(ccases)
    for k, c in enumerate(ccases):
        o = impl[base + k]
        if o in CRASH:
            _fail(ctx, "calls-crash", "well-formed call list crashed: %s" % o, [c], [o]); continue
        check_log(ctx, "calls-depth", c, o, c.split("\t")[2])
        if k in traces:
            got = o.split(" ")[1].split(",")
            for j, (g, ek) in enumerate(zip(got, traces[k])):
                if bool(int(g.lstrip("E").split(".")[1]) & 1) != ek:
                    _fail(ctx, kkey(k, "calls-expecting-key"), "after call %d (%s) of a well-formed list expecting_key() = %s, the calls made so far say %s" % (j, c.split("\t")[2].split(";")[j][:40], not ek, ek), [c], [o], str(ek))
                    break
        last = o.split(" ")[1].split(",")[-1]
        if last != "0.1":
            _fail(ctx, "calls-final-state", "after a complete document depth()/expecting_key() are %s, not 0/true" % last, [c], [o], "0.1")
    dsel = ccases[:ctx.scale(1500, 8000)]
    ctx.correspond("calls_doc_debug", [with_profile(c, "d") for c in dsel], nontrivial=nt, profile="debug")
    pc = ["writer.reparse\t" + c.split("\t", 1)[1] for c in ccases]
    impl, _ = ctx.correspond("calls_reparse", pc, model=False, nontrivial=lambda c, i: " A:" in i or " O:" in i)
    base = len(impl) - len(pc)
    for k, d in enumerate(cmeta):
        o = impl[base + k]
        if isinstance(d, int):
            if o.count("A:") != d:
                _fail(ctx, "calls-leading-empty-container", "an array whose first element is an empty container parses back without it: %s" % o, [pc[k], ccases[k]], [o], "%d containers" % d)
            continue
        exp = "ok 0 " + docgen.flatten(d)
        if o != exp:
            from props.C14 import has_glued_bang
            key = kkey(k, "calls-glued-bang" if has_glued_bang(d) else "calls-reparse")
            _fail(ctx, key, "calls describe %s but the output parses to %s" % (exp[:300], o[:300]), [pc[k], ccases[k]], [o], exp)
        else:
            ctx.count("calls_reparse_ok")

    # ---- arbitrary (ill-formed) call lists: never a panic, depth()/error flag follow the counter
    alphabet = ["u:61", "u:6b6579", "q:76", "q:225c0a", "op:6", "op:0", "op:4", "op:7", "h:726762", "s", "os", "as", "e", "e", "e", "b:1", "i32:-5",
                "u64:18446744073709551615", "rgb:1:2:3", "rgb:1:2:3:4", "m", "m", "fmt:68c3a9", "date:d:1444:11:11:0", "bin:A", "bin:O", "bin:M",
                "bin:EQ", "bin:E", "bin:B:0", "bin:U32:7", "bin:U64:8", "bin:I64:-9", "bin:I32:-10", "bin:Q:715c", "bin:U:75", "bin:T:11650",
                "bin:T:0", "bin:T:65535", "bin:RGB:9:8:7", "bin:RGB:9:8:7:6", "f32p:3f800000:3:312e303030", "f64p:3ff0000000000000:5:312e3030303030"]
    if floats:
        w, b, t = floats[0]
        alphabet.append(("bin:F64:%016x:%s" if w == "64" else "bin:F32:%08x:%s") % (b, hexs(t)))
    icases = []
    for _ in range(ctx.scale(10000, 80000) * mul):
        n = rng.choice([1, 2, 3, 5, 8, 13, 21, 34])
        cfg = rcfg(rng) if rng.random() < 0.8 else "%d,%d,r" % (rng.choice([32, 9, 46, 0, 255]), rng.choice([0, 1, 16, 17, 255]))
        icases.append("writer.calls\t%s\t%s" % (cfg, ";".join(rng.choice(alphabet) for _ in range(n))))
    for a in alphabet:                      # every single call, and every pair after an open
        icases.append("writer.calls\t32,2,r\t%s" % a)
        for b in ("s", "os", "as"):
            icases.append("writer.calls\t32,2,r\t%s;%s;e;e" % (b, a))
    nti = lambda c, i: "7b" in i.split(" ")[0] or "E" in i
    for prof, stream in (("release", "illformed"), ("debug", "illformed_debug")):
        cs = icases if prof == "release" else [with_profile(c, "d") for c in icases[:ctx.scale(5000, 30000)]]
        impl, _ = ctx.correspond(stream, cs, nontrivial=nti, profile=prof)
        base = len(impl) - len(cs)
        for k, c in enumerate(cs):
            o = impl[base + k]
            if o in CRASH:
                _fail(ctx, "illformed-crash", "misordered calls crash the writer (%s, %s profile)" % (o, prof), [c], [o], "error or output")
            else:
                check_log(ctx, "illformed-depth", c, o, c.split("\t")[2])

    # >>> a_wr (wave 4): state queries from the document, floats over the whole readable domain + precision variants,
    # typed read-back (bool / dates / iso dates / unknown tokens), escape buffer histories, arbitrary sessions
    # (calls + write_tape + inner()); see props/C15_extra.py and audit/C15.md
    if not widen:
        from props import C15_extra
        C15_extra.run(ctx, _fail)
    # <<< a_wr
    # >>> s_wr (wave 6): size / boundary ladders, one dimension at a time (audit/C15.md "Size dimensions")
    if not widen:
        from props import C15_sizes
        C15_sizes.run(ctx, _fail)
    # <<< s_wr


def search(ctx):
    ctx.rng = random.Random(ctx.seed + 1)
    run(ctx, widen=True)


CLAIM = {
    "text": "Coq theorems over a faithful Gallina model of text/writer.rs (9-state machine with the WRITE_STATE_NEXT table regenerated from the source, depth stack, mixed mode, indent cache, escape(), write_binary forwarding; float Display as a Section-variable oracle): no call history ever panics, escape() is inverted by unescaping up to the documented trailing-newline trim and leaves no bare quote, depth()/error flags are the obvious counter over the call prefix, indentation is independent of the 16-byte cache; the model is tied to the code by differential execution of call lists (exact bytes and all four state queries after every call, release and debug) and of escape() per function, and the property's own oracles (parse(write(calls)) = described tape, quoted payloads survive, integers exact, floats within 2 ulp, misordered calls never panic) are evaluated on the implementation with the real parser",
    "note": "Wave 4: Props/C15_mixed.v puts start_mixed_mode / write_binary(MixedContainer) with scalar-valued key-operator-value triples into the proved call fragment (C15_mixed_calls_parse_back); container values in such lists stay known findings. The text parser is not modelled in this family: parse-back is an oracle on the implementation. Float Display is an assumed oracle whose contract is sampled. Trusted: Coq kernel, tools/gen_tables.py, extraction, the Rust harness.",
    "technique": "machine-checked proof in Coq over an executable model + model/implementation correspondence by extraction + parse-back oracles on the implementation",
}
