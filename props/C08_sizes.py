"""C08, wave 6 (engineer s_c08): size / boundary ladders, ONE dimension at a time on an otherwise small input.

Every case has an expected answer that does not come from the implementation: the text of the tokens the input was
built from (by construction), cross-checked against the python reference lexer of props/C08.py (`show_lex`), and for
buffers smaller than the largest token the property's "prefix + BufferFull" oracle.  Streams (see audit/C08.md,
section "Size dimensions" for the dimension each one walks):

  sz_strlen_lex     D1  string payload length 0..65535, slice lexer and from_slice reader; exact / one byte short / long
  sz_strlen_stream  D2  the same lengths through the streaming reader under every buffer relation (+ TokenReader::new)
  sz_strlen_write   D3  Token::write of 0..131073-byte strings (`as u16`), then lexed again
  sz_wchunk         D15 Token::write into sinks that accept 1..9 / 64 / mixed bytes per call (bl.writechunk)
  sz_wlimit         D15 Token::write into a fixed buffer with every possible amount of room left
  sz_cut2           D4  exact two-cut schedules at every pair of byte offsets of every token kind; truncated variants;
                        every invalid-rgb near miss cut once at every offset
  sz_bufend         D5  the buffer (not the read) ends at every offset of every token kind
  sz_count          D6  0..65536 tokens per input
  sz_wcount         D7  0..65536 tokens per sink
  sz_position       D8  position() after every call across 2^16, 2^17, 2^18
  sz_cap            D9/D10 capacity ladder 1..65536 on three fixed documents
  sz_carry          D21 carry-over length 1..65538 with consumed > 0; consumed length 0..65536 with a short carry-over
  sz_refills        D11 0..65539 refills inside one token (= recursion depth of next/refill_next at opt-level 0)
  sz_chunks         D12 read sizes of the schedule over the ladder
  sz_readbytes      D13 read_bytes(n), n = 0..65536
  sz_numeric        D17 2^k-1, 2^k, 2^k+1 for every integer kind
  sz_reuse          D18 one buffer recycled through into_parts 1..300 times (bl.reuse)

Each stream runs on the release build against the extracted model (`<stream>`), the cases that are too long for the
extracted model (roughly quadratic in refills x length / in the number of tokens) on the release build with the
independent oracle only (`<stream>_long`, model=False), and all of them on the debug build (`<stream>_debug`).
"""
from vlib import hexs

LADDER = [0, 1, 2, 3, 7, 8, 9, 15, 16, 17, 31, 32, 33, 63, 64, 65, 127, 128, 129, 255, 256, 257, 1023, 1024, 1025,
          4095, 4096, 4097, 65533, 65534, 65535, 65536]
U16 = sorted(set([x for x in LADDER if x < 65536] + [16383, 16384, 16385, 32763, 32764, 32765, 32767, 32768, 32769]))


def payload(rng, n, B):
    """n bytes; id-looking words and text-like bytes (cheap for long strings: a 61-byte block repeated)"""
    if n <= 300:
        return B.rand_string(rng, n)
    blk = B.rand_string(rng, 61)
    return (blk * (n // 61 + 1))[:n]


def shapes(B):
    """one token of every kind (13 kinds + Id; rgb with 3 and 4 channels; strings of 0 / 1 / 5 bytes)"""
    return [("O",), ("C",), ("EQ",), ("T", 0x2d28), ("BOOL", True), ("U32", 0x04030201), ("I32", -2), ("F32", b"\x01\x02\x03\x04"),
            ("U64", 0x0807060504030201), ("I64", -3), ("F64", b"\x11\x12\x13\x14\x15\x16\x17\x18"), ("Q", b""), ("Q", b"a"),
            ("U", b"abcde"), ("RGB", (1, 2, 3)), ("RGB", (1, 2, 3, 4))]


def seq_bytes(B, toks):
    return b"".join(B.enc(t) for t in toks)


def seq_text(B, toks):
    return " ".join(B.txt(t) for t in toks) if toks else "-"


def by_construction(B, toks, tail=b"", end="END"):
    """what the lexer must answer on enc(toks) + tail"""
    d = seq_bytes(B, toks)
    return "%s|%s|%d" % (seq_text(B, toks), end, len(d))


def filler(n):
    """tokens of exactly n bytes (n != 1): 2-byte ids and at most one 3-byte bool"""
    assert n >= 0 and n != 1
    out = []
    if n % 2:
        out.append(("BOOL", False)); n -= 3
    out += [("T", 0x2d28 + (i % 5)) for i in range(n // 2)]
    return out


class Runner:
    """runs one ladder stream on release (+ model), release without the model for the long cases, and debug"""

    def __init__(self, ctx, stream):
        self.ctx, self.stream = ctx, stream
        self.cases, self.heavy, self.checks = [], [], []

    def add(self, case, check, heavy=False, debug=True):
        """check(got, profile) -> None or (key, what, expect)"""
        self.cases.append(case); self.heavy.append(heavy); self.checks.append((check, debug))

    def run(self, nontrivial=None):
        ctx = self.ctx
        nt = nontrivial or (lambda c, i: True)
        light = [k for k in range(len(self.cases)) if not self.heavy[k]]
        long_ = [k for k in range(len(self.cases)) if self.heavy[k]]
        dbg = [k for k in range(len(self.cases)) if self.checks[k][1]]
        for name, idx, kw in ((self.stream, light, {}), (self.stream + "_long", long_, {"model": False}),
                              (self.stream + "_debug", dbg, {"model": False, "profile": "debug"})):
            if not idx:
                continue
            cs = [self.cases[k] for k in idx]
            impl, _ = ctx.correspond(name, cs, nontrivial=nt, **kw)
            base = len(impl) - len(cs)
            prof = kw.get("profile", "release")
            for j, k in enumerate(idx):
                got = impl[base + j]
                r = self.checks[k][0](got, prof)
                if r:
                    key, what, expect = r
                    ctx.fail(key, "%s [%s build]: %s" % (self.stream, prof, what), [self.cases[k]], [got[:1000]], (expect or "")[:1000] or None)
        ctx.count(self.stream + "_cases", len(self.cases))


def eq_check(key, label, exp):
    def chk(got, prof):
        if got != exp:
            return (key, "%s: got %s" % (label, got[:160]), exp)
        return None
    return chk


_NEED = {}


def need_of(B, d):
    if d not in _NEED:
        if len(_NEED) > 20000:
            _NEED.clear()
        _NEED[d] = B.need_of(d)
    return _NEED[d]


def stream_check(B, label, d, cap, ref, suffix=""):
    """reader = lexer when the capacity holds the largest token (and the tail), else prefix + BufferFull"""
    need = need_of(B, d)

    def chk(got, prof):
        run = got
        if suffix:
            run, sep, tail = got.partition(" buf=")
            if sep + tail != suffix:
                return ("construct-parts", "%s: reports `%s`" % (label, tail), suffix)
        if cap >= need:
            if run != ref:
                return ("stream-eq-lexer", "%s, cap %d >= largest token %d: reader %s" % (label, cap, need, run[:160]), ref)
        else:
            if "|" not in run or run.count("|") != 2:
                return ("stream-small", "%s, cap %d < %d: %s" % (label, cap, need, run[:100]), None)
            p = B.check_undersized(run, ref)
            if p:
                return ("stream-small", "%s, cap %d < largest token %d: %s (reader %s)" % (label, cap, need, p, run[:160]), ref)
        return None
    return chk


def sched_of(parts):
    return ",".join(str(x) for x in parts) if parts else "-"


def periodic(p, n):
    return [p] * (n // max(p, 1) + 2)


def run_sizes(ctx):
    from props import C08 as B
    rng = ctx.rng
    is_tok = lambda c, i: "|" in i and not i.startswith("-|")
    reps = ctx.scale(1, 3)

    def ref_of(toks, d):
        exp = by_construction(B, toks)
        assert B.show_lex(d) == exp, "reference lexer and construction differ"
        return exp

    # ------------------------------------------------------------------ D1 string length, slice lexer / slice reader
    R = Runner(ctx, "sz_strlen_lex")
    for _ in range(reps):
        for kind in ("Q", "U"):
            for n in U16:
                s = payload(rng, n, B)
                toks = [("T", 7), (kind, s), ("I32", -7)]
                d = seq_bytes(B, toks)
                exp = ref_of(toks, d)
                R.add("bl.lex\t" + hexs(d), eq_check("lex-reference", "%d-byte string" % n, exp))
                R.add("bl.rslice\t" + hexs(d), eq_check("slice-reader", "%d-byte string, from_slice reader" % n, exp))
                short = B.enc(("T", 7)) + B.enc((kind, s))[:-1]
                R.add("bl.lex\t" + hexs(short), eq_check("lex-reference", "%d-byte string one byte short" % n, "T:7|ERR:110|2"))
                long_ = B.enc(("T", 7)) + B.enc((kind, s)) + b"\x01"
                R.add("bl.lex\t" + hexs(long_), eq_check("lex-reference", "%d-byte string and one stray byte" % n,
                                                           "T:7 %s|ERR:110|%d" % (B.txt((kind, s)), n + 6)))
        # length x start offset
        for off in (0, 2, 3, 4, 5, 6, 7, 8, 9):
            for n in list(range(0, 18)) + [31, 32, 33, 63, 64, 65]:
                toks = filler(off) + [(rng.choice(["Q", "U"]), payload(rng, n, B)), ("T", 9)]
                d = seq_bytes(B, toks)
                R.add("bl.lex\t" + hexs(d), eq_check("lex-reference", "%d-byte string at offset %d" % (n, off), ref_of(toks, d)))
    R.run(is_tok)

    # ------------------------------------------------------------------ D2 string length, streaming reader, buffer relations
    R = Runner(ctx, "sz_strlen_stream")
    for _ in range(reps):
        for n in U16:
            for kind in (("Q", "U") if n in (0, 1, 255, 256, 65534, 65535) else (rng.choice(["Q", "U"]),)):
                toks = [("T", 7), (kind, payload(rng, n, B)), ("I32", -7)]
                d = seq_bytes(B, toks)
                ref = ref_of(toks, d)
                need = need_of(B, d)
                scheds = [("whole", []), ("cut in id and length field", [3, 2]), ("3 pieces", [(len(d) + 2) // 3] * 3)]
                if n >= 1:
                    scheds.append(("cut before the last byte", [2 + 4 + n - 1, 1]))
                if n <= 1025:
                    scheds.append(("period 7", periodic(7, len(d))))
                if n > 4096:
                    scheds.append(("period 4096", periodic(4096, len(d))))
                for cap in sorted(set([max(1, need - 1), need, need + 1, 65539])):
                    for sname, s in scheds:
                        heavy = n >= 4095 and not (cap == need and sname in ("whole", "period 4096"))
                        R.add("bl.stream\t%s\t%d\t%s" % (hexs(d), cap, sched_of(s)),
                              stream_check(B, "%d-byte string, %s" % (n, sname), d, cap, ref), heavy=heavy)
                for sname, s in (("whole", []), ("period 4096", periodic(4096, len(d)))):
                    R.add("bl.mk\tnew\t%s\t32768\t%s\t-\t0" % (hexs(d), sched_of(s)),
                          stream_check(B, "%d-byte string, TokenReader::new, %s" % (n, sname), d, 32768, ref, suffix=" buf=32768 inner=1"),
                          heavy=(n >= 4095 and sname != "whole"))
    R.run(is_tok)

    # ------------------------------------------------------------------ D3 string length, write side
    R = Runner(ctx, "sz_strlen_write")
    back = []          # (bytes to lex again, expected, label, well-formed?)
    for kind, lid in (("Q", B.QUOTED), ("U", B.UNQUOTED)):
        for n in U16 + [65536, 65537, 65540, 131071, 131072, 131073]:
            if n < 65536:
                s = payload(rng, n, B)
            else:   # the first n % 65536 bytes become the string; the rest is itself made of 65536-byte string tokens
                s = b"a" * (n % 65536) + B.enc(("Q", b"b" * 65532)) * (n // 65536)
                assert len(s) == n
            toks = [("T", 7), (kind, s), ("T", 9)]
            bts = B.le(7, 2) + B.le(lid, 2) + B.le(n % 65536, 2) + s + B.le(9, 2)
            assert n >= 65536 or bts == seq_bytes(B, toks)
            R.add("bl.write\t" + seq_text(B, toks), eq_check("write-format" if n < 65536 else "witness-long-string",
                                                               "Token::write of a %d-byte string" % n, hexs(bts)))
            back.append((bts, by_construction(B, toks) if n < 65536 else B.show_lex(bts), n))
    R.run()
    R = Runner(ctx, "sz_strlen_relex")
    for bts, exp, n in back:
        R.add("bl.lex\t" + hexs(bts), eq_check("roundtrip" if n < 65536 else "witness-long-string", "lexing the written %d-byte string" % n, exp))
    R.run(is_tok)

    # ------------------------------------------------------------------ D15 write sinks that take short writes
    R = Runner(ctx, "sz_wchunk")
    strs = [("Q" if k % 2 else "U", payload(rng, n, B)) for k, n in enumerate([0, 1, 2, 3, 4, 5, 7, 8, 9, 15, 16, 17, 255, 256, 257, 300])]
    patterns = ["1", "2", "3", "4", "5", "6", "7", "8", "9", "64", "1,2", "3,1", "2,5,1", "4,1"]
    for t in shapes(B) + strs:
        toks = [("T", 7), t, ("Q", b""), ("T", 9)]
        exp = hexs(seq_bytes(B, toks))
        for pat in patterns:
            for vec in (0, 1):
                R.add("bl.writechunk\t%s\t%s\t%d" % (seq_text(B, toks), pat, vec),
                      eq_check("write-chunked", "Token::write of %s into a sink taking %s bytes per call%s" % (B.txt(t)[:40], pat, " (own write_vectored)" if vec else ""), exp))
    for n in (65534, 65535):
        toks = [("U", payload(rng, n, B)), ("Q", b""), ("Q", payload(rng, 3, B))]
        for pat in ("1", "3", "4096", "65536"):
            for vec in (0, 1):
                R.add("bl.writechunk\t%s\t%s\t%d" % (seq_text(B, toks), pat, vec),
                      eq_check("write-chunked", "Token::write of a %d-byte string into a sink taking %s bytes per call" % (n, pat), hexs(seq_bytes(B, toks))))
    R.run()

    R = Runner(ctx, "sz_wlimit")
    for t in shapes(B) + [("U", b"ab"), ("Q", b"abc"), ("U", b"abcd")]:
        for pre in ([], [("T", 7)]):
            for suf in ([("Q", b"")], [("T", 9)], [("U", b""), ("BOOL", True)]):
                toks = pre + [t] + suf
                e = [B.enc(x) for x in toks]
                full = b"".join(e)
                for lim in range(0, len(full) + 2):
                    used = n_ok = 0
                    for x in e:
                        if used + len(x) > lim:
                            break
                        used += len(x); n_ok += 1
                    exp = ("OK:%d:%s" % (len(e), hexs(full))) if len(full) <= lim else ("ERR:%d:%s" % (n_ok, hexs(full[:lim])))
                    R.add("bl.writelim\t%s\t%d" % (seq_text(B, toks), lim),
                          eq_check("write-bounded", "Token::write of [%s] into a %d-byte buffer" % (seq_text(B, toks)[:60], lim), exp))
    R.run()

    # ------------------------------------------------------------------ D4 two cuts at every pair of offsets of every token kind
    R = Runner(ctx, "sz_cut2")
    n_pairs = 0
    for t in shapes(B):
        body = B.enc(t)
        L = len(body)
        for pre in ([], [("T", 7), ("BOOL", True)]):
            toks = pre + [t, ("T", 9)]
            d = seq_bytes(B, toks)
            ref = ref_of(toks, d)
            need = need_of(B, d)
            plen = len(seq_bytes(B, pre))
            for c1 in range(0, L + 1):
                for c2 in range(c1, L + 1):
                    parts = [x for x in (plen + c1, c2 - c1) if x > 0]
                    n_pairs += 1
                    for cap in (need, need + 1, 100):
                        R.add("bl.stream\t%s\t%d\t%s" % (hexs(d), cap, sched_of(parts)),
                              stream_check(B, "%s cut at %d and %d" % (B.txt(t)[:24], c1, c2), d, cap, ref))
            # the input ends at c2 inside the token, one cut before
            for c2 in range(1, L):
                dt = seq_bytes(B, pre) + body[:c2]
                reft = B.show_lex(dt)
                for c1 in range(0, c2):
                    parts = [x for x in (plen + c1,) if x > 0]
                    cap = need_of(B, dt)
                    R.add("bl.stream\t%s\t%d\t%s" % (hexs(dt), cap, sched_of(parts)),
                          stream_check(B, "%s truncated at %d, cut at %d" % (B.txt(t)[:24], c2, c1), dt, cap, reft))
    # invalid rgb near misses: each id of the block replaced, one cut at every offset
    for g in (B.enc(("RGB", (1, 2, 3))), B.enc(("RGB", (1, 2, 3, 4)))):
        for off in range(0, len(g), 2):
            for w in (B.OPEN, B.CLOSE, B.U32, B.I32, 0x2d28):
                b = bytearray(g); b[off:off + 2] = B.le(w, 2)
                d = B.enc(("T", 7)) + bytes(b) + B.enc(("T", 9))
                if d == B.enc(("T", 7)) + g + B.enc(("T", 9)):
                    continue
                ref = B.show_lex(d)
                cap = need_of(B, d)
                for cut in range(1, len(d)):
                    R.add("bl.stream\t%s\t%d\t%d" % (hexs(d), cap, cut), stream_check(B, "rgb near miss (id at %d = %#x) cut at %d" % (off, w, cut), d, cap, ref))
    ctx.count("sz_cut2_pairs", n_pairs)
    R.run(lambda c, i: c.split("\t")[3] != "-")

    # ------------------------------------------------------------------ D5 the buffer ends inside the token
    R = Runner(ctx, "sz_bufend")
    for t in shapes(B):
        L = len(B.enc(t))
        for k in range(1, L):
            for cap in (max(L, 3), L + 1, L + 3, L + 8, L + 64):
                plen = cap - k
                if plen == 1 or plen < 0:
                    continue
                toks = filler(plen) + [t, ("T", 9)]
                d = seq_bytes(B, toks)
                if cap < need_of(B, d):
                    continue
                ref = ref_of(toks, d)
                for s in ([], [cap, 1]):
                    R.add("bl.stream\t%s\t%d\t%s" % (hexs(d), cap, sched_of(s)), stream_check(B, "%s: buffer of %d ends %d bytes into it" % (B.txt(t)[:24], cap, k), d, cap, ref))
    R.run(is_tok)

    # ------------------------------------------------------------------ D6 tokens per input
    R = Runner(ctx, "sz_count")
    cyc = shapes(B)
    for n in LADDER:
        for pname, toks in (("ids", [("T", 0x2d28 + (i % 7)) for i in range(n)]), ("all kinds", [cyc[i % len(cyc)] for i in range(n)])):
            d = seq_bytes(B, toks)
            ref = by_construction(B, toks)
            if n <= 4097:
                assert B.show_lex(d) == ref
            heavy = n > 257        # the extracted model is quadratic in the number of tokens: up to 1025 on two entry points only
            need = need_of(B, d)
            lab = "%d tokens (%s)" % (n, pname)
            R.add("bl.lex\t" + hexs(d), eq_check("lex-reference", lab, ref), heavy=n > 1025)
            if n <= 4097:
                R.add("bl.rslice\t" + hexs(d), eq_check("slice-reader", lab + ", from_slice reader", ref), heavy=heavy)
            combos = [(need, []), (64, periodic(17, len(d))), (65539, [])]
            if n <= 4097:
                combos += [(need, periodic(17, len(d))), (64, []), (need + 1, periodic(3, len(d)))]
            for cap, s in combos:
                R.add("bl.stream\t%s\t%d\t%s" % (hexs(d), cap, sched_of(s)), stream_check(B, lab, d, cap, ref),
                      heavy=heavy and not (n <= 1025 and cap == 64 and s != []))
    R.run(is_tok)

    # ------------------------------------------------------------------ D7 tokens per sink
    R = Runner(ctx, "sz_wcount")
    small = [("T", 0x2d28), ("EQ",), ("U32", 5), ("O",), ("Q", b"ab"), ("C",), ("BOOL", True), ("I64", -1), ("U", b"")]
    for n in LADDER:
        toks = [small[i % len(small)] for i in range(n)]
        R.add("bl.write\t" + seq_text(B, toks), eq_check("write-format", "Token::write of %d tokens into one sink" % n, hexs(seq_bytes(B, toks))), heavy=n > 4097)
        R.add("bl.writechunk\t%s\t3,1,2\t0" % seq_text(B, toks), eq_check("write-chunked", "Token::write of %d tokens into one short-writing sink" % n, hexs(seq_bytes(B, toks))), heavy=n > 4097)
    R.run()

    # ------------------------------------------------------------------ D8 position() across 2^16 / 2^17 / 2^18
    R = Runner(ctx, "sz_position")
    for P in (65533, 65534, 65535, 65536, 65537, 65538, 131071, 131072, 131073, 262143, 262144, 262145):
        toks = ([("BOOL", True)] if P % 2 else []) + [("T", 0x2d28 + (i % 3)) for i in range((P - (3 if P % 2 else 0)) // 2)]
        d = seq_bytes(B, toks)
        assert len(d) == P
        pos, outs = 0, []
        for t in toks:
            pos += len(B.enc(t)); outs.append("%s@%d" % (B.txt(t), pos))
        exp = " ".join(outs + ["NONE@%d" % P])
        R.add("bl.lops\t%s\tT" % hexs(d), eq_check("position-ladder", "Lexer::position() after every call up to %d" % P, exp), heavy=True)
        combos = [(64, []), (65539, []), (64, periodic(4099, P)), (4096, periodic(4099, P))] if P < 70000 else [(64, periodic(4099, P))]
        for cap, s in combos:
            R.add("bl.rops\t%s\t%d\t%s\tT" % (hexs(d), cap, sched_of(s)),
                  eq_check("position-ladder", "TokenReader::position() after every call up to %d (cap %d)" % (P, cap), exp), heavy=True)
    toks = [("T", 7)] + [("Q" if i % 2 else "U", payload(rng, 65535, B)) for i in range(10)] + [("I32", -7)]
    d = seq_bytes(B, toks)
    ref = by_construction(B, toks)
    R.add("bl.lex\t" + hexs(d), eq_check("lex-reference", "ten 65535-byte strings", ref), heavy=True)
    for cap, s in ((65539, []), (65539, periodic(70000, len(d))), (65540, periodic(4099, len(d)))):
        R.add("bl.stream\t%s\t%d\t%s" % (hexs(d), cap, sched_of(s)), stream_check(B, "ten 65535-byte strings", d, cap, ref), heavy=True)
    R.run()

    # ------------------------------------------------------------------ D9 / D10 capacity ladder on fixed documents
    R = Runner(ctx, "sz_cap")
    fixed = [("T", 0x2d28), ("EQ",), ("U64", 2 ** 64 - 1), ("T", 0xffff), ("EQ",), ("I32", -1), ("O",), ("F64", b"\x04\x00\x03\x00\x04\x00\x03\x00"), ("C",),
             ("BOOL", True), ("I64", -2 ** 63), ("U32", 7), ("F32", b"\x03\x00\x04\x00")]
    docs = [("largest token 10", fixed * 2),
            ("largest token 30", fixed + [("RGB", (1, 2, 3)), ("T", 0x0300), ("RGB", (2 ** 32 - 1, 0, 1, 2)), ("U", b"abc")] + fixed),
            ("largest token 204", fixed + [("Q", payload(rng, 200, B)), ("T", 0x0400), ("U", payload(rng, 199, B))] + fixed)]
    for dname, toks in docs:
        d = seq_bytes(B, toks)
        ref = ref_of(toks, d)
        need = need_of(B, d)
        caps = set(x for x in LADDER if x >= 1) | set(range(max(1, need - 2), need + 3)) | (set(range(1, need + 3)) if need <= 40 else set())
        for cap in sorted(caps):
            for s in ([], periodic(5, len(d)), periodic(1, len(d))):
                R.add("bl.stream\t%s\t%d\t%s" % (hexs(d), cap, sched_of(s)), stream_check(B, "document with %s" % dname, d, cap, ref))
    R.run(is_tok)

    # ------------------------------------------------------------------ D11 refills inside one token
    R = Runner(ctx, "sz_refills")
    for n in [x for x in LADDER if x <= 4097] + [16384, 32765, 65535]:
        toks = [("T", 7), ("Q" if n % 2 else "U", payload(rng, n, B)), ("I32", -7)]
        d = seq_bytes(B, toks)
        ref = ref_of(toks, d)
        need = need_of(B, d)
        for cap in (need, need + 1):
            for p in ((1, 2, 3) if n <= 4097 else (1,)):
                if cap != need and p != 1:
                    continue
                lab = "%d-byte string in reads of %d (about %d refills inside the token)" % (n, p, (n + 4) // p)
                chk = stream_check(B, lab, d, cap, ref)
                if n == 65535:
                    chk = refill_known(chk, lab)
                R.add("bl.stream\t%s\t%d\t%s" % (hexs(d), cap, sched_of(periodic(p, len(d)))), chk, heavy=(n + 4) // p * n > 1200000)
    R.run(is_tok)

    # ------------------------------------------------------------------ D21 carry-over length x consumed > 0 (the only case in which
    # fill_buf's copy_within really moves bytes), and consumed length x a short carry-over
    R = Runner(ctx, "sz_carry")
    for c in [x for x in LADDER if x >= 1] + [65538]:
        for n in sorted(set([max(c - 3, 0), c, min(c + 61, 65535)])):
            if n + 4 <= c or n > 65535:
                continue
            toks = [("T", 7), ("Q" if c % 2 else "U", payload(rng, n, B)), ("I32", -7)]
            d = seq_bytes(B, toks)
            ref = ref_of(toks, d)
            need = need_of(B, d)
            for cap in sorted(set([max(need, c + 2), max(need, c + 2) + 1, 65539 + 7])):
                R.add("bl.stream\t%s\t%d\t%d" % (hexs(d), cap, 2 + c),
                      stream_check(B, "2 bytes consumed, %d bytes of a %d-byte string carried over" % (c, n), d, cap, ref))
    for k in [x for x in LADDER if x != 1]:
        toks = filler(k) + [("U64", 0x1122334455667788), ("T", 9)]
        d = seq_bytes(B, toks)
        ref = by_construction(B, toks)
        for cap in (max(k + 5, 10), k + 17, k + 65539):
            R.add("bl.stream\t%s\t%d\t%d" % (hexs(d), cap, k + 5),
                  stream_check(B, "%d bytes consumed, 5 bytes of a u64 token carried over" % k, d, cap, ref), heavy=k > 1025)
    R.run(is_tok)

    # ------------------------------------------------------------------ D12 read sizes
    R = Runner(ctx, "sz_chunks")
    toks = shapes(B) + [("Q", payload(rng, 40, B))] + shapes(B)
    d = seq_bytes(B, toks)
    ref = ref_of(toks, d)
    need = need_of(B, d)
    for p in [x for x in LADDER if x <= 1025]:
        for cap in (need, need + 1, 100, 65539):
            R.add("bl.stream\t%s\t%d\t%s" % (hexs(d), cap, sched_of(periodic(p, len(d)))), stream_check(B, "reads of %d bytes" % p, d, cap, ref))
    toks = [("T", 7), ("Q", payload(rng, 30000, B)), ("EQ",), ("U", payload(rng, 255, B)), ("RGB", (1, 2, 3, 4)), ("Q", payload(rng, 32764, B)), ("U64", 9),
            ("U", payload(rng, 4096, B)), ("C",)]
    d = seq_bytes(B, toks)
    ref = ref_of(toks, d)
    need = need_of(B, d)
    for p in [x for x in LADDER if x >= 255]:
        for cap in (need, 65539):
            R.add("bl.stream\t%s\t%d\t%s" % (hexs(d), cap, sched_of(periodic(p, len(d)))), stream_check(B, "67 KB input in reads of %d bytes" % p, d, cap, ref), heavy=p < 4095)
    R.run(is_tok)

    # ------------------------------------------------------------------ D13 read_bytes(n)
    R = Runner(ctx, "sz_readbytes")
    for k in LADDER:
        d = payload(rng, k + 3, B)
        ops = "by%d,by2,by1,by1" % k
        exp = "%s@%d %s@%d %s@%d ERR:110@%d" % (hexs(d[:k]), k, hexs(d[k:k + 2]), k + 2, hexs(d[k + 2:]), k + 3, k + 3)
        R.add("bl.lops\t%s\t%s" % (hexs(d), ops), eq_check("read-bytes", "Lexer::read_bytes(%d)" % k, exp))
        scheds = [[]] + ([periodic(1, k + 3)] if k <= 1025 else []) + ([periodic(4096, k + 3)] if k > 4096 else [])
        for cap in (max(k, 2), max(k, 2) + 1, k + 100):
            for s in scheds:
                R.add("bl.rops\t%s\t%d\t%s\t%s" % (hexs(d), cap, sched_of(s), ops), eq_check("read-bytes", "TokenReader::read_bytes(%d), cap %d" % (k, cap), exp),
                      heavy=(k > 4097 and s != []))
        if k >= 7:
            small = "ERR:101@0 %s@2 %s@3 %s@4" % (hexs(d[:2]), hexs(d[2:3]), hexs(d[3:4]))
            for s in scheds:
                R.add("bl.rops\t%s\t%d\t%s\t%s" % (hexs(d), k - 1, sched_of(s), ops),
                      eq_check("read-bytes", "TokenReader::read_bytes(%d) with a %d-byte buffer (BufferFull, then the data is still there)" % (k, k - 1), small),
                      heavy=(k > 4097 and s != []))
    R.run()

    # ------------------------------------------------------------------ D17 numeric magnitudes
    R = Runner(ctx, "sz_numeric")
    back = []
    def around(bits, signed):
        vals = set()
        for k in range(bits + 1):
            for dlt in (-1, 0, 1):
                for sg in ((1, -1) if signed else (1,)):
                    v = sg * (2 ** k) + dlt
                    lo, hi = (-(2 ** (bits - 1)), 2 ** (bits - 1) - 1) if signed else (0, 2 ** bits - 1)
                    if lo <= v <= hi:
                        vals.add(v)
        return sorted(vals)
    groups = [[("U32", v) for v in around(32, False)], [("I32", v) for v in around(32, True)], [("U64", v) for v in around(64, False)],
              [("I64", v) for v in around(64, True)]]
    ch = around(32, False)
    groups.append([("RGB", tuple(ch[(i + j) % len(ch)] for j in range(3 + (i % 2)))) for i in range(len(ch))])
    groups.append([("F32", bytes([(i + j) % 256 for j in range(4)])) for i in range(0, 256, 3)] + [("F64", bytes([(255 - i - j) % 256 for j in range(8)])) for i in range(0, 256, 3)])
    for toks in groups:
        d = seq_bytes(B, toks)
        R.add("bl.write\t" + seq_text(B, toks), eq_check("write-format", "Token::write of %d %s tokens around the powers of two" % (len(toks), toks[0][0]), hexs(d)))
        R.add("bl.lex\t" + hexs(d), eq_check("lex-reference", "%d %s tokens around the powers of two" % (len(toks), toks[0][0]), ref_of(toks, d)))
        R.add("bl.stream\t%s\t%d\t%s" % (hexs(d), need_of(B, d), sched_of(periodic(5, len(d)))), stream_check(B, "%s tokens around the powers of two" % toks[0][0], d, need_of(B, d), ref_of(toks, d)))
    R.run()

    # ------------------------------------------------------------------ D18 one buffer recycled many times
    R = Runner(ctx, "sz_reuse")
    for dname, toks in docs:
        d = seq_bytes(B, toks)
        ref = ref_of(toks, d)
        need = need_of(B, d)
        for rounds in (1, 2, 3, 9, 33, 300):
            for cap in (need, need + 1, max(1, need - 1)):
                for s in ([], periodic(3, len(d))):
                    R.add("bl.reuse\t%s\t%d\t%s\t%d" % (hexs(d), cap, sched_of(s), rounds),
                          reuse_check(B, "buffer recycled %d times, document with %s" % (rounds, dname), d, cap, ref, rounds))
    R.run()


def reuse_check(B, label, d, cap, ref, rounds):
    inner = stream_check(B, label, d, cap, ref)

    def chk(got, prof):
        run, sep, tail = got.partition(" same=")
        want = "%d/%d buf=%d" % (rounds - 1, rounds - 1, cap)
        if tail != want:
            return ("reuse-buffer", "%s: later readers differ from the first / buffer length: `%s`" % (label, tail), want)
        return inner(run, prof)
    return chk


def refill_known(chk, label):
    """Known finding (C05 N-refill-recursion-opt0, here `refill-recursion-opt0`): at opt-level 0 next -> refill_next -> next
    recurses once per refill inside one token; 65539 one-byte refills overflow an 8 MiB stack (measured limit: 47605)."""
    def c(got, prof):
        if prof == "debug" and got in ("ABORT", "HANG", "PANIC"):
            return ("refill-recursion-opt0", "%s: the debug (opt-level 0) build answers %s -- stack exhausted by the next/refill_next recursion" % (label, got), None)
        return chk(got, prof)
    return c
