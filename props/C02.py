"""C02 Text deserialization returns the document's values on both parse paths."""
from props import dedoc as D
from props.dedoc import hx

RULE = ("schema-first logical documents (nested objects, arrays, arrays of objects, map-like objects with numeric/duplicate keys, "
        "strings incl. non-ASCII and escaped quotes, ints up to u64, yes/no, n/8 floats, dates, rgb headers, ghost {} objects, "
        "operators) x 4 layouts (compact/spaced/lines/wild with comments, CRLF, optional '=' before '{', BOM) x {windows-1252, utf-8} "
        "x shapes derived from the document (full capture, random field subsets at every depth, duplicated/take-last/once fields, "
        "Option, Property, enum, any, typed hints incl. deliberately wrong ones) x paths {from_*_slice, from_*_tape, "
        "ObjectReader::deserialize (root and nested), from_*_reader with buffer sizes {longest token, +1, 64.., 32 KiB} and read "
        "schedules {fill, 1 byte, random chunks}}.  non-trivial = a value (not an error) came out.  "
        # [spec_tie]
        "spec_tie: every generated (document, rendering, shape) is converted to a Coq TextDoc.doc (props/spectie.py) and the EXTRACTED "
        "Coq specification is run on it: TextDoc.render under the gaps of the rendering must reproduce the rendering byte for byte, "
        "TextDeSpec.spec_value must equal dedoc.expected and every path's value, TextDoc.flatten / TextDeSpec.tokens must equal the "
        "implementation's tape / reader tokens of the rendering; documents with ghost {} objects (~28%) are outside TextDoc (only "
        "expected-vs-spec_value is evaluated, on the ghost-free document); plus hand-made pairs from corpus/C02/spec_tie.case.  "
        # [a_c02]
        "ext_spec: 3000 documents generated in the full TextDoc grammar (object tails, key-value arrays, headers over arrays and objects, "
        "`{}` , parameter blocks) x 8 layout styles x both encodings x shapes derived from them (structs incl. `remainder` and parameter names, "
        "maps, seq / tuple, header views, Option / Property, mis-hints) x 5 entry points; oracle = the EXTRACTED TextDeSpec2.spec_value2 "
        "(true for the slice / tape / ObjectReader paths, false for the reader paths where it fits).  "
        "hints: 2000 documents `v <op> value  w = scalar` x every deserialize_* method (incl. char, str, bytes, byte_buf, unit, unit_struct, "
        "newtype_struct, tuple_struct, i128, u128, identifier) with a recording visitor x 5 entry points; oracle = a Python reading of the property text; "
        "hint_model: the same documents and hints, the FIRST deserializer step (which visit_* call with which payload) of the extracted "
        "TextDeTape.tape_visit / TextDeStream.stream_visit against the implementation (slice path / reader path).  "
        # [w_c02]
        "enum_spec / enum_model / enum_real: 1500 full-grammar documents with 1-3 occurrences of an enum-typed field (scalar, header, "
        "`{ name = payload }`, `{ name payload }`, arbitrary values) x enums with unit / newtype / tuple / struct variants whose payload shapes "
        "are derived from the payloads x 5 entry points; oracle = the EXTRACTED TextDeEnum.spec_enum_fields, a Python reading on plain "
        "payloads, and a serde-derived enum as anchor of the interpreter.  typed_keys / keys_model: 1200 maps with u8..u64 / i8..i64 / bool / "
        "Date / DateHour / f64 / String / enum keys (valid, out of range, malformed) x 6 entry points incl. from_encoded_tape.  size_hints / "
        "hints_model: 1000 sequences / maps visited by a visitor that records size_hint before every step.  "
        # [s_c02]
        "size_ladder / size_walk (props/C02_size.py): one size-like dimension at a time on an otherwise tiny document over the ladder "
        "0 1 2 3 7 8 9 15 16 17 31 32 33 63 64 65 127 128 129 255 256 257 1023 1024 1025 4095 4096 4097 65533 65534 65535 65536 (cut where one case "
        "would cost more than ~50 ms): fields of one struct, occurrences of one key (collected / last / refused), unknown fields (count, nesting depth, "
        "byte length, kind of content, length x alignment in the 8-byte blocks of skip_container), sequence / tuple / map sizes, byte length of quoted and "
        "unquoted values and keys under both encodings (ASCII, high bytes, escapes; length x offset of the quote), integer magnitudes at both ends of every "
        "width x zero padding up to 65535 digits, fraction digits 1..22, token length x buffer size (exact fit, +1, +2, +7, +8, +9) x read schedule, the buffer "
        "size itself, nesting depth of the target (struct / seq / map / Option up to 1025), white-space runs and comments, runs of ghost `{}`, header "
        "components, object tails, absent Options, enum variants, position of the tokens relative to the start / end of the input, tokens that straddle the "
        "32768-byte refill of the default buffer, size hints of long sequences / maps; expected value by construction")
TRUSTED = ["walk_model: the extracted walks are fed the implementation's own tape (tt.parse) resp. reader tokens (tr.slice, chunking-independent by C07) of each text; Scalar::to_f64 is the extracted ScalarF64.to_f64_bits, the float casts of serde's visitors are the machine's (OCaml glue)",
           "serde's primitive Deserialize impls (u8..u64, i8..i64, f32, f64, bool, String, IgnoredAny) and serde-derive's code for "
           "jomini::text::Property<T> are used as they are (library behaviour, exercised not verified)",
           "the expected value is computed by props/dedoc.py:expected (decimal meaning, yes/no, decoded strings, missing Option = None, "
           "unknown fields dropped, Property captures the operator) independently of the Rust code",
           # [spec_tie]
           "spec_tie: dedoc.expected / dedoc.render_text are no longer trusted on their own: on every run they are compared with the extracted "
           "TextDeSpec.spec_value / TextDoc.render (the definitions Props/C02_walk.v is stated over), and the implementation is compared with "
           "spec_value directly.  Still Python-only: the conversion dedoc document -> TextDoc.doc (props/spectie.py to_textdoc; checked by the "
           "byte-for-byte rendering comparison), the shape/document GENERATORS, the expected value of the nested `objreader@k` cases, the "
           "classification captures_header of known finding H, max_token_len (buffer sizes).  The parameters of spec_value are instantiated "
           "as those of the walk models (ocaml/fam_spectie.ml: Encoding.decode_*, ScalarF64.to_f64_bits, machine float casts)",
           # [a_c02]
           "ext_spec: the document GENERATOR and the Python renderer props/textdoc.render_with_gaps (checked byte for byte against the extracted "
           "TextDoc.render on every document), the shape generator props/C02_ext.py (a shape that does not fit is skipped: ERR:unfit), the buffer "
           "size bound (longest token + 2, at least 26).  hints: the expected visit of props/C02_hint.py (decimal meaning of [+-]digits within "
           "i64 / u64, yes / no, the decoded text, raw bytes for bytes hints, f64 only on short decimals that are exact)",
           # [s_c02]
           "size_ladder: the expected values written down in props/C02_size.py (closed forms of the generated text) and its bound need_of on the buffer a "
           "token needs (longest quoted token + quotes / unquoted token + 1 / comment + 2, measured on the unchanged reader); cases longer than 1500 bytes "
           "are implementation + oracle only (no model run), counted as size_impl_only_cases"]
ASSUMPTIONS = ["targets request maps as maps and sequences as sequences (`fits`): container shapes are only put on containers of the same kind; "
               "`any` only on scalars; the root target is a struct or map",
               "documents avoid the constructs that the *lexing* properties C01/C07 own and currently get wrong (findings A, D, E, F, J, K): "
               "'!'/'?' glued to an unquoted key, chunked reads through an escaped quote; and three layout rules of the text format itself: "
               "'key{' without '=' is not the first entry of a nested container, an empty {} is not the first element of an array, "
               "rgb headers are not array elements (dom.rs treats header and block as two values there)",
               "i64::MIN as text is refused by Scalar::to_i64 (C11's subject) and is not generated",
               # [spec_tie]
               "spec_tie scope: the Coq and the Python specification differ in SCOPE in two places, where the comparison is not made (counted as "
               "tie_coq_unfit_*): TextDeSpec.spec_value answers UNFIT (a) where a header (rgb {..}) is visited -- TextDeSpec has no headers -- and "
               "(b) for a map / struct target on the empty `{ }`, which TextDoc can only express as the empty array (dedoc.expected predicts the empty "
               "map / the struct of defaults there, and the implementation agrees with it).  Any other UNFIT answer is reported as a disagreement.  "
               "TextDoc has no ghost `{}` objects: those documents are outside the Coq grammar (rendering and implementation comparisons skipped).  "
               "Of the in-grammar documents ~79% are in the CORE grammar of the walk theorems (core_fields; the rest contain a header somewhere); "
               "spec_value is compared on all of them.  wf_layout is checked as far as it is executable (gap_okb of every gap; sep_ok is a Prop)"]


def gen_case_shape(rng, doc):
    for _ in range(20):
        sh = D.gen_shape(rng, [doc], dict(mode="text", full=rng.random() < 0.3, mishint=0.03, prop=True, any=True, root=True))
        yield sh


def reader_variants(rng, doc, enc, esc):
    mt = D.max_token_len(doc, enc)
    if esc:
        return ["reader:32768:-", "freader:-"]
    chunks = ",".join(str(rng.choice([1, 1, 2, 3, 5, 7, 8, 9, 16, 17, 33])) for _ in range(rng.randrange(2, 6))) + "*"
    allv = ["reader:32768:-", "reader:%d:-" % mt, "reader:%d:1*" % (mt + 1), "reader:%d:%s" % (max(64, mt), chunks),
            "reader:%d:%s" % (mt + rng.randrange(0, 9), chunks), "freader:" + chunks, "reader:32768:1*"]
    rng.shuffle(allv)
    return allv[:3]


FIXED = [
    # (key, what, text, enc, shape, reference path, deviating path)
    ("H-stream-header", "text stream deserializer does not deliver header values (rgb {..}): reader path differs from slice/tape",
     b"color = rgb { 1 2 3 } x=1", "struct(%s:tup(str,seq(u8)),%s:u8)" % (hx("color"), hx("x")), "slice", "reader:32768:-"),
    ("L-stream-exact-op", "text stream deserializer splits '==' that follows an unquoted key (read_expect_equals eats one '=')",
     b'wtydddfq1k=1 zji5pc =="n"\n', "struct(%s:u8,%s:str)" % (hx("wtydddfq1k"), hx("zji5pc")), "slice", "reader:32768:-"),
    ("M-tape-first-ne", "text tape: '!=' / '?=' as the first operator of a nested container makes it an array (only = < > are looked for)",
     b"u={a != 1 b=2}", "struct(%s:struct(%s:prop(u8),%s:u8))" % (hx("u"), hx("a"), hx("b")), "reader:32768:-", "slice"),
    ("J-stream-escape-chunked", "text stream reader mis-lexes an escaped quote that straddles a refill (C07 findings J/K)",
     b'name="a\\"b" x=y', "struct(%s:str,%s:str)" % (hx("name"), hx("x")), "slice", "reader:64:1*"),
]


def walk_model(ctx, decases, stream="walk_model"):
    """every `de.text` case once more, now against the extracted deserializer walks (TextDeTape /
    TextDeStream): phase 1 asks the implementation for the canonical tape (tt.parse) and the reader
    tokens (tr.slice) of each text, phase 2 runs `de.model.text <path> <enc> <shape> <hex> <aux>` on
    both sides (harness: de.text on the bytes; model: the walk over <aux>)."""
    texts = sorted(set(c.split("\t")[4] for c in decases))
    p1 = ["tt.parse\t" + h for h in texts] + ["tr.slice\t" + h for h in texts]
    out, _ = ctx.correspond(stream + "-phase1", p1, model=False, nontrivial=lambda c, i: i.startswith("ok ") or " END" in i)
    base = len(out) - len(p1)
    tape, toks = {}, {}
    for k, h in enumerate(texts):
        o = out[base + k]
        if o.startswith("ok "):
            parts = o.split(" ", 2)
            tape[h] = parts[2] if len(parts) > 2 else "-"
        toks[h] = out[base + len(texts) + k]
    mcases = []
    for c in decases:
        kind, path, enc, sh, h = c.split("\t")
        if path.startswith("reader:") or path.startswith("freader:"):
            aux = toks[h]
            ctx.count("walk_stream")
        elif h in tape:
            aux = tape[h]
            ctx.count("walk_tape")
        else:
            ctx.count("walk_skipped_unparsable")      # the tape parser refused the text: C01's subject
            continue
        mcases.append("\t".join(["de.model.text", path, enc, sh, h, aux]))
    ctx.correspond(stream, mcases, nontrivial=lambda c, i: i.startswith("("))


def run(ctx):
    rng = ctx.rng
    nt = lambda c, i: i.startswith("(")
    ndocs = ctx.scale(4000, 30000)
    cases, meta = [], []      # meta: (expected, group, key-if-known-class, docinfo)
    tie_groups = []           # [spec_tie] (doc, enc, text, shape, expected, first case, number of cases)
    for _ in range(ndocs):
        esc_ok = rng.random() < 0.15
        doc = D.gen_doc(rng, ops=True, allow_escape=esc_ok)
        enc = rng.choice(["w1252", "utf8"])
        txt = D.render_text(doc, rng, enc, bom=(rng.random() < 0.08))
        esc = D.has_escape(doc)
        sh = None
        for cand in gen_case_shape(rng, doc):
            exp = D.expected(cand, doc, D.Mode("text", enc=enc))
            if exp != "ERR:unfit":
                sh = cand
                break
        if sh is None:
            continue
        ctx.count("docs")
        ctx.count("enc_" + enc)
        ctx.count("expect_" + (exp[:8] if exp.startswith("ERR") else "value"))
        ctx.count("bytes", len(txt))
        hdr = D.captures_header(sh, doc)
        shs = D.shape_str(sh)
        g = len(meta)
        paths = ["slice", "tape", "objreader"] + reader_variants(rng, doc, enc, esc)
        tie_groups.append((doc, enc, txt, sh, exp, len(cases), len(paths)))      # [spec_tie]
        for p in paths:
            known = "H-stream-header" if (hdr and "reader:" in p) else None
            cases.append("\t".join(["de.text", p, enc, shs, hx(txt)]))
            meta.append((exp, g, known, p))
        # ObjectReader::deserialize on a nested object
        cands = [(i, f) for i, f in enumerate(doc["f"]) if f["v"]["t"] == "obj" and sum(1 for x in doc["f"] if x["k"] == f["k"]) == 1]
        if cands:
            i, f = rng.choice(cands)
            sub = D.sub_shape_for_field(sh, f["k"])
            if sub is not None and not D.captures_header(sub, f["v"]) or (sub is not None):
                e2 = D.expected(sub, f["v"], D.Mode("text", enc=enc))
                if e2 != "ERR:unfit" and not (sub[0] == "struct" and any(isinstance(s, tuple) and s[0] in ("prop",) for (_, _, s, _) in sub[1]) and False):
                    cases.append("\t".join(["de.text", "objreader@%d" % i, enc, D.shape_str(sub), hx(txt)]))
                    meta.append((e2, len(meta), None, "objreader@k"))
                    ctx.count("nested_objreader")
    impl, _ = ctx.correspond("paths", cases, nontrivial=nt, model=False)
    base = len(impl) - len(cases)
    for k, (exp, g, known, p) in enumerate(meta):
        o = impl[base + k]
        if o != exp:
            if known:
                ctx.count("known_" + known)
                if ctx.dist["known_" + known] <= 3:
                        ctx.fail(known, "reader path on a captured header: %s, document says %s" % (o[:80], exp[:80]), [cases[k]], [o], exp)
            else:
                pk = p.split(":")[0].split("@")[0]
                ctx.fail("value-" + pk, "%s path returns %s, the document's values are %s" % (p, o[:200], exp[:200]), [cases[k]], [o], exp)

    # ---- [spec_tie] BEGIN: the Coq specification (TextDeSpec.spec_value over TextDoc, TextDoc.render / flatten,
    # TextDeSpec.tokens -- what Props/C02_walk.v is stated over) extracted and run on the documents, shapes and
    # renderings generated above; see props/spectie.py.  (a) D.render_text = TextDoc.render of the converted document
    # under the gaps of the rendering, byte for byte; (b) D.expected = spec_value; (c) every path's value above =
    # spec_value; plus: the implementation's tape / reader tokens of the rendering = flatten / tokens of the document.
    from props import spectie
    spectie.run_text(ctx, tie_groups, cases, impl, base, ctx.scale(4000, 30000))
    # ---- [spec_tie] END

    # fixed replays of the known deviations (each is re-found on every run; silent once the code is repaired)
    fcases = []
    for (key, what, txt, sh, ref, dev) in FIXED:
        fcases.append("\t".join(["de.text", ref, "w1252", sh, hx(txt)]))
        fcases.append("\t".join(["de.text", dev, "w1252", sh, hx(txt)]))
    impl, _ = ctx.correspond("known-deviations", fcases, nontrivial=nt, model=False)
    base = len(impl) - len(fcases)
    for j, (key, what, txt, sh, ref, dev) in enumerate(FIXED):
        a, b = impl[base + 2 * j], impl[base + 2 * j + 1]
        if a != b:
            ctx.fail(key, what + ": %s gives %s, %s gives %s" % (ref, a, dev, b), fcases[2 * j:2 * j + 2], [a, b], a)


    # the deserializer walks inside the Coq model: every case above against TextDeTape / TextDeStream
    walk_model(ctx, cases + fcases)

    # >>> a_c02 (wave 4): the grammar beyond the core on the real code, against the extracted TextDeSpec2.spec_value2
    # (object tails / "remainder", `{}` and arrays into maps / structs, headers, parameter blocks, key-value arrays)
    from props import C02_ext
    C02_ext.run(ctx)
    # the Deserializer methods no runtime shape calls (char / str / bytes / unit / newtype / tuple_struct / i128 ...)
    from props import C02_hint
    C02_hint.run(ctx)
    # <<< a_c02

    # >>> w_c02 (wave 5): data-carrying enum variants, typed map keys, size hints / from_encoded_tape (props/C02_enum.py)
    from props import C02_enum
    C02_enum.run(ctx)
    # <<< w_c02
    # >>> w_fwd (wave 5): the method tables of the text Deserializer impls (Tables.de_tables, generated from src/text/de.rs)
    # against the real deserializers through a recording visitor (props/demeth.py, Props/C02_methods.v)
    from props import demeth
    demeth.run_text(ctx)
    # <<< w_fwd

    # >>> s_c02 (wave 6): size / boundary ladders, one size-like dimension at a time up to 65536 (props/C02_size.py, audit/C02.md "Size dimensions")
    from props import C02_size
    C02_size.run(ctx)
    # <<< s_c02

    # scalar level: extracted Serde.text_scalar (typed hints with fall-back) against the real slice path
    from props import descalar
    ctx.correspond("scalar-hints", descalar.text_cases(ctx, ctx.scale(300, 3000)), nontrivial=nt)


def search(ctx):
    import random
    ctx.rng = random.Random(ctx.seed + 1)
    old = ctx.tier
    ctx.tier = "thorough"
    try:
        run(ctx)
    finally:
        ctx.tier = old


CLAIM = {
    "text": "every public text deserializer entry point (from_*_slice, from_*_tape, ObjectReader::deserialize, from_*_reader over a scripted Read) is run through a runtime-shape serde interpreter on generated documents x layouts x encodings x shapes and compared with an independently computed expected value; Coq: see coverage.theorems",
    "note": "[w_c02] Props/C02_enum.v: enums with data-carrying variants -- the tape path's EnumAccess / VariantDeserializer returns the variant and payload the document denotes (scalar, header, { name = payload }, { name payload }; payload read as TextDeSpec2.spec_v2 reads that value) at any value position of any tape and from the root (C02_enum_tape_value_spec_partial, C02_enum_tape_root_spec_partial); the stream path returns declared unit variants only, for every token list (C02_enum_stream_unit_only), so the two paths differ on every payload variant (finding Q-stream-data-enum, C02_enum_paths_differ_refuted); with unit variants only the new entry points are the ShEnum cases of the walks. Props/C02_keys.v: typed map keys at the hint level on both paths (agreement for every scalar key shape, exact key values, enum keys refused by the tape path = finding R-tape-enum-key) and exact size hints. [a_c02] Props/C02_ext.v lifts the STREAM half beyond the core grammar: for every document the token reader can express (tails, key-value arrays, headers, `{}`; TextDeSpec2.sx_fields) and every shape on which the common specification spec_value2 false fits, deser_stream (tokens d) = spec_value2 false = deser_tape (flatten d) (C02_stream_path_ext_partial, C02_paths_agree_outside_headers_partial), also from the bytes of any rendering under every schedule / capacity >= need (C02_paths_agree_ext_bytes_partial); spec_value2 coincides with spec_value wherever the latter fits (C02_spec2_extends_spec_partial). spec_value2 is extracted and is the oracle of all entry points on generated full-grammar documents (stream ext_spec); the deserialize_* methods no runtime shape calls are driven by the kind de.hint against an independent oracle (stream hints); finding P-stream-i128 (i128 / u128 fields are refused by the stream path only) is recorded. [spec_tie] The specification the walk theorems are stated over (TextDeSpec.spec_value over TextDoc documents, TextDoc.render / flatten, TextDeSpec.tokens) is extracted and run on the generated documents: the Python renderer and dedoc.expected are checked against it and the implementation's values are compared with spec_value directly (stream spec_tie, keys tie-text-*). Props/C02.v pins the scalar/struct level; Props/C02_walk.v pins the deserializer walks: for every document of the core grammar (scalars, objects of key-op-value fields, arrays, any nesting) and every shape that fits, the extracted tape walk (TextDeTape.deser_tape on flatten d) and the stream walk (TextDeStream.deser_stream on the reader's tokens of d) both return spec_value, hence agree; findings H and M are reproduced by the models as witness theorems. Outside the core grammar (object tails / 'remainder', key-value arrays, headers, parameters, ghosts, any on containers) the walks are modelled and compared with the implementation case by case (stream walk_model, incl. a 390-case hand corpus) but not proved. Props/C02_walk2.v composes the walks with the byte level (from_slice via C01_parse_render for every layout; from_reader via the reference tokenizer and C07_stream_eq_tok for every schedule and fitting capacity, on documents without parameter blocks whose bare words do not start with '?') and extends the tape walk theorem to the whole TextDoc grammar against TextDeSpec2.spec_value2 (remainder key for object tails and arrays where a map is asked for, {} as the empty object, headers into seq/tuple/String/number/enum/ignored, parameter blocks); the stream half beyond the core grammar is not proved (difference witnesses only). The stream model runs over the reader's token list (skip_container at token level).",
    "technique": "machine-checked proof in Coq over an executable model + model/implementation correspondence by extraction + specification oracle on the implementation",
}
